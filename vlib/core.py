"""Driver shared by all property checks: proof obligations, tie B (co-execution of the
Coq model by vm_compute), direct oracle D, verdict, evidence, replays, known findings."""
import fcntl
import glob
import hashlib
import json
import os
import random
import re
import shutil
import signal
import subprocess
import sys
import time
import traceback
from concurrent.futures import ThreadPoolExecutor

VERIF = os.path.dirname(os.path.dirname(os.path.abspath(__file__)))
COQ = os.path.join(VERIF, 'coq')
WORK = os.path.join(VERIF, '.work')
REPO = '/repo'

FORBIDDEN = re.compile(r'\b(Admitted|admit|Axiom|Axioms|Parameter|Parameters|Conjecture|Admit Obligations|bypass_check)\b|Unset\s+Guard|Unset\s+Positivity|Unset\s+Universe|type-in-type|impredicative-set')

# axioms of the standard library that a property may depend on (each named in TRUSTED.md)
STDLIB_AXIOMS = {
    'ClassicalDedekindReals.sig_forall_dec', 'ClassicalDedekindReals.sig_not_dec',
    'FunctionalExtensionality.functional_extensionality_dep',
    'Classical_Prop.classic', 'Eqdep.Eq_rect_eq.eq_rect_eq',
}


class CaseTimeout(BaseException):
    # not an Exception: the harnesses record what the implementation raises with `except Exception`, and a budget overrun
    # recorded as one more observation would let a case spin for ever (the timers are one-shot otherwise: they repeat)
    pass


def _alarm(signum, frame):
    raise CaseTimeout()


def sh(cmd, timeout, cwd=None, env=None):
    t0 = time.time()
    try:
        p = subprocess.run(cmd, shell=isinstance(cmd, str), cwd=cwd, env=env, timeout=timeout,
                           stdout=subprocess.PIPE, stderr=subprocess.STDOUT, text=True)
        return p.returncode, p.stdout, time.time() - t0
    except subprocess.TimeoutExpired as e:
        out = e.stdout.decode() if isinstance(e.stdout, bytes) else (e.stdout or '')
        return 124, out + '\n[timeout after %ss]' % timeout, time.time() - t0


# ------------------------------------------------------------------ Coq side

def coq_files():
    fs = []
    for d in ('Lib', 'Model', 'Proofs', 'Properties', 'Tie'):
        fs += sorted(glob.glob(os.path.join(COQ, d, '*.v')))
    return fs


def write_coqproject():
    lines = ['-Q . EpyV', '-arg -w', '-arg -notation-overridden,-deprecated-hint-without-locality,-deprecated-instance-without-locality,-ambiguous-paths']
    lines += [os.path.relpath(f, COQ) for f in coq_files()]
    txt = '\n'.join(lines) + '\n'
    p = os.path.join(COQ, '_CoqProject')
    if not os.path.exists(p) or open(p).read() != txt:
        open(p, 'w').write(txt)
        return True
    return False


def ensure_makefile():
    changed = write_coqproject()
    mk = os.path.join(COQ, 'Makefile')
    if changed or not os.path.exists(mk):
        rc, out, _ = sh('coq_makefile -f _CoqProject -o Makefile', 120, cwd=COQ)
        if rc != 0:
            raise RuntimeError('coq_makefile failed: ' + out)


def make(targets=None, jobs=16, timeout=3000, keep_going=True):
    """Full .vo build (never -vos) of the given targets (relative .vo paths) or everything."""
    os.makedirs(WORK, exist_ok=True)
    with open(os.path.join(WORK, 'make.lock'), 'w') as lk:
        fcntl.flock(lk, fcntl.LOCK_EX)
        ensure_makefile()
        cmd = ['make', '-j%d' % jobs, 'TIMECMD=timeout 900'] + (['-k'] if keep_going else []) + (targets or [])
        rc, out, dt = sh(cmd, timeout, cwd=COQ)
        return rc, out, dt


def forbidden_scan():
    """Any Admitted/admit/Axiom/... anywhere in the development (comments excluded)."""
    hits = []
    for f in coq_files():
        txt = open(f).read()
        txt = strip_comments(txt)
        for i, line in enumerate(txt.split('\n'), 1):
            if FORBIDDEN.search(line):
                hits.append('%s:%d: %s' % (os.path.relpath(f, VERIF), i, line.strip()))
    return hits


def strip_comments(txt):
    out = []
    depth = 0
    i = 0
    n = len(txt)
    while i < n:
        if txt.startswith('(*', i):
            depth += 1; i += 2
        elif txt.startswith('*)', i) and depth > 0:
            depth -= 1; i += 2
        else:
            if depth == 0:
                out.append(txt[i])
            elif txt[i] == '\n':
                out.append('\n')
            i += 1
    return ''.join(out)


def theorems_of(pid):
    """Names of the Theorems stated in Properties/<pid>.v"""
    p = os.path.join(COQ, 'Properties', pid + '.v')
    if not os.path.exists(p):
        return []
    txt = strip_comments(open(p).read())
    return re.findall(r'^\s*(?:Theorem|Example)\s+([A-Za-z0-9_\']+)', txt, re.M)


def coqc_file(path, timeout=300, extra=None):
    cmd = ['coqc', '-Q', COQ, 'EpyV', '-w', '-notation-overridden,-deprecated-hint-without-locality'] + (extra or []) + [path]
    return sh(cmd, timeout, cwd=os.path.dirname(path))


def print_assumptions(pid, workdir):
    """Compile a file that Requires Properties.<pid> and prints the assumptions of every
    theorem in it.  Returns (ok, {thm: [axioms]}, raw)."""
    names = theorems_of(pid)
    os.makedirs(workdir, exist_ok=True)
    src = os.path.join(workdir, 'Assumptions_%s.v' % pid)
    with open(src, 'w') as f:
        f.write('From EpyV Require Import Properties.%s.\n' % pid)
        for nme in names:
            f.write('Goal True. idtac "THEOREM %s". exact I. Qed.\nPrint Assumptions EpyV.Properties.%s.%s.\n' % (nme, pid, nme))
    rc, out, dt = coqc_file(src, timeout=600)
    res = {}
    if rc != 0:
        return False, res, out
    cur = None
    for line in out.split('\n'):
        m = re.match(r'THEOREM (\S+)', line)
        if m:
            cur = m.group(1); res[cur] = []
            continue
        if cur is None:
            continue
        if 'Closed under the global context' in line or line.strip() in ('', 'Axioms:'):
            continue
        m = re.match(r'^([A-Za-z_][A-Za-z0-9_\.\']*)\s*:', line)
        if m:
            res[cur].append(m.group(1))
    return True, res, out


def parse_failing(out):
    m = re.search(r'=\s*\[([^\]]*)\]\s*:\s*list nat', out, re.S)
    if not m:
        return None
    body = m.group(1).strip()
    if not body:
        return []
    return [int(x.replace('%nat', '').strip()) for x in body.split(';') if x.strip()]


def run_cases(pid, terms, tie_import, check_fn, workdir, shard=300, timeout=900, jobs=16, ties=None):
    """terms: list of Coq terms (strings) of the case type of Tie/<pid>.v.  Evaluates
    check_fn on each with vm_compute; returns (failing global indices, errors).
    A term may also be a pair (family, term): the families of H.TIES = {family: (import, check function)} are
    evaluated in separate files (record types of different ties may share field names)."""
    if ties and any(isinstance(t, tuple) for t in terms):
        failing, errors = [], []
        fams = sorted({t[0] for t in terms if isinstance(t, tuple)})
        for fam in fams:
            idx = [i for i, t in enumerate(terms) if isinstance(t, tuple) and t[0] == fam]
            imp, fn = ties[fam]
            f2, e2 = run_cases(pid + '_' + fam, [terms[i][1] for i in idx], imp, fn, os.path.join(workdir, 'tie_' + fam), shard, timeout, jobs)
            failing += [idx[j] for j in f2]
            errors += e2
        rest = [i for i, t in enumerate(terms) if not isinstance(t, tuple)]
        if rest:
            f2, e2 = run_cases(pid, [terms[i] for i in rest], tie_import, check_fn, os.path.join(workdir, 'tie_default'), shard, timeout, jobs)
            failing += [rest[j] for j in f2]
            errors += e2
        return sorted(failing), errors
    cdir = os.path.join(workdir, 'cases')
    shutil.rmtree(cdir, ignore_errors=True)
    os.makedirs(cdir)
    files = []
    for k in range(0, len(terms), shard):
        chunk = terms[k:k + shard]
        path = os.path.join(cdir, 'Cases_%s_%d.v' % (pid, k // shard))
        with open(path, 'w') as f:
            f.write(tie_import + '\n')
            f.write('From Coq Require Import List ZArith QArith String.\nImport ListNotations.\n')
            f.write('Definition cases := [\n' + ';\n'.join(chunk) + '\n].\n')
            f.write('Eval vm_compute in (EpyV.Lib.Prelude.failing %s cases).\n' % check_fn)
        files.append((k, path, len(chunk)))
    failing, errors = [], []

    def one(item):
        k, path, n = item
        rc, out, dt = coqc_file(path, timeout=timeout)
        if rc != 0:
            return k, n, None, out[-3000:]
        fl = parse_failing(out)
        if fl is None:
            return k, n, None, 'unparsable coqc output: ' + out[-1000:]
        return k, n, fl, ''
    with ThreadPoolExecutor(max_workers=jobs) as ex:
        for k, n, fl, err in ex.map(one, files):
            if fl is None:
                errors.append((k, n, err))
            else:
                failing += [k + i for i in fl]
    return sorted(failing), errors


# ------------------------------------------------------------------ known findings

def load_known():
    p = os.path.join(VERIF, 'known_findings.json')
    if not os.path.exists(p):
        return []
    return json.load(open(p)).get('findings', [])


# ------------------------------------------------------------------ harness protocol

class Harness:
    ID = None
    TIE_IMPORT = None          # e.g. 'From EpyV Require Import Tie.C14.'
    CHECK_FN = None            # e.g. 'EpyV.Tie.C14.check_case'
    CASE_TIMEOUT = 20          # seconds per implementation run
    LEVEL = 'proof'
    ASSUMPTIONS = []
    TRUSTED = []
    ALLOWED_AXIOMS = set()
    VO_TARGETS = None          # default: Properties/<ID>.vo Tie/<ID>.vo
    QUICK_N = 300
    THOROUGH_N = 3000

    def corpus(self):
        out = []
        for p in sorted(glob.glob(os.path.join(VERIF, 'corpus', self.ID, '*.json'))):
            try:
                c = json.load(open(p))
                c['_corpus'] = os.path.basename(p)
                out.append(c)
            except Exception:
                pass
        return out

    def gen_cases(self, tier, rnd, n):
        raise NotImplementedError

    def exhaustive_cases(self, tier):
        return []

    def execute(self, case):
        raise NotImplementedError

    def direct(self, case, obs):
        return []

    def to_coq(self, case, obs):
        return None

    def nontrivial(self, case, obs):
        return json.dumps(case, sort_keys=True, default=str)

    def extra_obligations(self, workdir, tier):
        """tie A and other per-run proof obligations: list of (name, ok, detail)"""
        return []

    def sample_view(self, case, obs):
        return {'case': case, 'observed': obs}

    def known_match(self, finding, viol):
        return finding.get('signature') == viol.get('signature')


def _jsonable(x):
    if isinstance(x, dict):
        return {(k if isinstance(k, (str, int, float, bool)) or k is None else str(k)): _jsonable(v) for k, v in x.items()}
    if isinstance(x, (list, tuple, set, frozenset)):
        return [_jsonable(v) for v in x]
    if isinstance(x, (str, int, float, bool)) or x is None:
        return x
    return str(x)


_TIMEOUTS = [0]
MAX_TIMEOUTS = 6      # an implementation that hangs on case after case is reported after a few of them, not after all


def run_impl(h, case):
    """Run the implementation on one case under an alarm; exceptions become observations."""
    # the budget is CPU time of this process (a loaded machine must not turn into an alarm); wall clock is only a backstop
    signal.signal(signal.SIGPROF, _alarm)
    signal.signal(signal.SIGALRM, _alarm)
    signal.setitimer(signal.ITIMER_PROF, h.CASE_TIMEOUT, max(1.0, h.CASE_TIMEOUT / 4.0))
    signal.alarm(h.CASE_TIMEOUT * 15)
    try:
        obs = h.execute(case)
    except CaseTimeout:
        obs = {'harness_exception': 'Timeout'}
        _TIMEOUTS[0] += 1
    except Exception as e:  # the harness itself must catch expected exceptions
        obs = {'harness_exception': type(e).__name__ + ': ' + str(e), 'traceback': traceback.format_exc()[-1500:]}
    finally:
        signal.setitimer(signal.ITIMER_PROF, 0)
        signal.alarm(0)
    return obs


def write_replay(pid, payload):
    os.makedirs(os.path.join(VERIF, 'replays'), exist_ok=True)
    blob = json.dumps(_jsonable(payload), sort_keys=True, indent=1)
    dig = hashlib.sha1(blob.encode()).hexdigest()[:12]
    path = os.path.join(VERIF, 'replays', '%s-%s.json' % (pid, dig))
    open(path, 'w').write(blob)
    return path


def main_check(h, tier, seed, replay=None):
    t0 = time.time()
    pid = h.ID
    # one scratch directory per invocation, so that concurrent runs of the same check do not collide
    workdir = os.path.join(WORK, pid, str(os.getpid()))
    shutil.rmtree(workdir, ignore_errors=True)
    os.makedirs(workdir)
    os.environ.setdefault('EPYDEMIC_VERIF', '1')
    rnd = random.Random(seed)
    report = {'proof': {}, 'tie': {}, 'direct': {}}
    broken = []          # names of proof obligations / correspondences that no longer check
    obligations = 0
    discharged = 0

    # ---- P: proof obligations
    targets = h.VO_TARGETS or ['Properties/%s.vo' % pid, 'Tie/%s.vo' % pid]
    rc, out, dt = make(targets)
    report['proof']['make_rc'] = rc
    report['proof']['make_s'] = round(dt, 1)
    for tgt in targets:
        obligations += 1
        vo = os.path.join(COQ, tgt)
        src = vo[:-1]
        if rc == 0 and os.path.exists(vo) and os.path.getmtime(vo) >= os.path.getmtime(src):
            discharged += 1
        else:
            broken.append('build:' + tgt)
            report['proof'].setdefault('make_log', out[-4000:])
    hits = forbidden_scan()
    obligations += 1
    if hits:
        broken.append('forbidden-constructs')
        report['proof']['forbidden'] = hits[:20]
    else:
        discharged += 1
    thms = theorems_of(pid)
    axioms_seen = set()
    if not any(b.startswith('build:Properties') for b in broken):
        ok, ass, raw = print_assumptions(pid, workdir)
        if not ok:
            broken.append('print-assumptions')
            report['proof']['assumptions_log'] = raw[-3000:]
            obligations += max(1, len(thms))
        else:
            for t in thms:
                obligations += 1
                ax = set(ass.get(t, ['<missing>'])) if t in ass else {'<missing>'}
                axioms_seen |= ax
                if ax <= (h.ALLOWED_AXIOMS | set()):
                    discharged += 1
                else:
                    broken.append('axioms:%s:%s' % (t, ','.join(sorted(ax - h.ALLOWED_AXIOMS))))
    else:
        obligations += max(1, len(thms))
    report['proof']['theorems'] = thms
    report['proof']['axioms_seen'] = sorted(axioms_seen)
    if tier == 'thorough' and not broken:
        obligations += 1
        rcc, outc, dtc = sh(['coqchk', '-Q', COQ, 'EpyV', '-o', 'EpyV.Properties.%s' % pid], 1800, cwd=COQ)
        report['proof']['coqchk_s'] = round(dtc, 1)
        report['proof']['coqchk_tail'] = outc[-1500:]
        if rcc == 0:
            discharged += 1
        else:
            broken.append('coqchk')

    for name, ok, detail in h.extra_obligations(workdir, tier):
        obligations += 1
        if ok:
            discharged += 1
        else:
            broken.append('obligation:' + name)
            report['proof'].setdefault('obligation_fail', []).append({'name': name, 'detail': str(detail)[-2000:]})

    # ---- cases: corpus first, then exhaustive scopes, then generated
    n = h.QUICK_N if tier == 'quick' else h.THOROUGH_N
    if replay:
        _rp = json.load(open(replay))
        cases = [_rp.get('case') or _rp.get('first_disagreeing_case')]      # the latter: a broken obligation with no failing input (tie disagreement)
    else:
        cases = h.corpus() + list(h.exhaustive_cases(tier)) + list(h.gen_cases(tier, rnd, n))
    terms, idx_of_term = [], []
    violations = []
    keys = set()
    samples = []
    stats = {}
    observations = []
    cov = None
    anchor_files = [os.path.join(os.environ.get('VERIF_REPO', REPO), f) for f in getattr(h, 'ANCHOR_FILES', [])]
    if anchor_files:
        try:
            import coverage
            cov = coverage.Coverage(data_file=None, include=anchor_files, branch=False)
            cov.start()
        except Exception:
            cov = None
    for i, case in enumerate(cases):
        obs = run_impl(h, case)
        observations.append(obs)
        if obs.get('harness_exception') == 'Timeout':
            # the budget is tens of CPU seconds for cases that take milliseconds: an implementation that does not come back is
            # a failing input of its own (the case is the replay); after a few of them the remaining cases are not run
            violations.append({'case_index': i, 'signature': 'no-termination-within-the-case-budget', 'kind': 'direct',
                               'detail': {'cpu_seconds_allowed': h.CASE_TIMEOUT}})
            if _TIMEOUTS[0] >= MAX_TIMEOUTS:
                report['direct']['stopped_after_timeouts'] = i + 1
                cases = cases[:i + 1]
                break
        elif 'harness_exception' in obs:
            violations.append({'case_index': i, 'signature': 'harness:' + obs['harness_exception'].split(':')[0],
                               'detail': obs, 'kind': 'harness'})
        else:
            for v in h.direct(case, obs):
                v = dict(v); v['case_index'] = i; v.setdefault('kind', 'direct')
                violations.append(v)
            k = h.nontrivial(case, obs)
            if k is not None:
                keys.add(k if isinstance(k, str) else json.dumps(k, sort_keys=True, default=str))
            try:
                t = h.to_coq(case, obs)
            except Exception as e:      # an observation the rendering cannot express is a broken tie for that case, not a crash
                t = None
                violations.append({'case_index': i, 'signature': 'harness:cannot-render-for-the-model:' + type(e).__name__,
                                   'detail': {'error': str(e)[:300]}, 'kind': 'harness'})
            if isinstance(t, tuple) and t[1] is None:
                t = None            # (family, no term): not compared with the model
            if t is not None:
                terms.append(t); idx_of_term.append(i)
        for sk, sv in (obs.get('stats') or {}).items() if isinstance(obs, dict) else []:
            stats[sk] = stats.get(sk, 0) + sv
        if len(samples) < 3 and i % max(1, len(cases) // 3) == 0:
            try:
                samples.append(_jsonable(h.sample_view(case, obs)))
            except Exception:       # a sample is illustration only
                samples.append(_jsonable({'case': case}))
    report['direct']['cases'] = len(cases)
    anchored_cov = {}
    if cov is not None:
        try:
            cov.stop()
            for f in anchor_files:
                try:
                    _, stmts, _, missing, _ = cov.analysis2(f)
                    anchored_cov[os.path.relpath(f, os.environ.get('VERIF_REPO', REPO))] = {
                        'statements': len(stmts), 'executed': len(stmts) - len(missing), 'missing_lines': missing[:40]}
                except Exception as e:
                    anchored_cov[f] = {'error': str(e)}
        except Exception:
            pass
    # ---- T: tie B
    tie_fail = []
    if terms:
        if any(b.startswith('build:Tie') for b in broken):
            report['tie']['skipped'] = 'Tie/%s.vo did not build' % pid
        else:
            shard = getattr(h, 'SHARD', None) or min(300, max(10, -(-len(terms) // 16)))
            failing, errors = run_cases(pid, terms, h.TIE_IMPORT, h.CHECK_FN, workdir, shard=shard, ties=getattr(h, 'TIES', None))
            tie_fail = [idx_of_term[j] for j in failing]
            if errors:
                broken.append('tie-B:coqc-error')
                report['tie']['errors'] = [e[2][-1500:] for e in errors[:3]]
            if tie_fail:
                broken.append('tie-B:cases ' + ','.join(map(str, tie_fail[:10])))
    report['tie']['cases_compared'] = len(terms)
    report['tie']['disagreements'] = len(tie_fail)
    # a tie that compares (almost) nothing shows nothing: fewer than a quarter of the generated cases reaching the model is a
    # broken obligation (on the unchanged tree the lowest share is about 40%)
    floor = getattr(h, 'MIN_COMPARED', 0.25)
    if not replay and getattr(h, 'CHECK_FN', None) and len(cases) >= 50 and len(terms) < floor * len(cases):
        broken.append('tie-B:coverage-collapsed %d of %d cases reached the model' % (len(terms), len(cases)))

    # ---- harness failures that are not property violations break the tie instead
    real = [v for v in violations if v.get('kind') == 'direct']
    harness_v = [v for v in violations if v.get('kind') == 'harness']
    if harness_v:
        broken.append('harness:' + harness_v[0]['signature'])

    # ---- verdict
    known = [f for f in load_known() if f.get('property') == pid]
    live_known = [f for f in known if f.get('status') == 'known']
    lines = []
    new_viol = []
    known_hit = {}
    for v in real:
        hit = None
        for f in live_known:
            if h.known_match(f, v):
                hit = f; break
        if hit is not None:
            known_hit.setdefault(hit['signature'], v)
        else:
            new_viol.append(v)
    for sig, v in known_hit.items():
        lines.append('KNOWN-FINDING: property=%s %s' % (pid, sig))
    exit_code = 0
    replay_path = None
    if new_viol:
        v = min(new_viol, key=lambda v: len(json.dumps(_jsonable(cases[v['case_index']]), default=str)))
        replay_path = write_replay(pid, {'property': pid, 'kind': 'direct-violation', 'signature': v.get('signature'),
                                         'case': cases[v['case_index']], 'observed': observations[v['case_index']],
                                         'detail': v.get('detail'), 'seed': seed, 'tier': tier,
                                         'how_to_replay': './check %s --replay <this file>' % pid,
                                         'broken_obligations': broken})
        lines.append('VIOLATION property=%s replay=%s' % (pid, replay_path))
        exit_code = 1
    elif broken and not replay:
        # a proof obligation or the correspondence no longer checks: search for a concrete input on which the
        # implementation violates the property's own statement (direct oracle only, fresh cases)
        extra_found = None
        searched = 0
        t_search = time.time()
        rnd2 = random.Random(seed + 7919)
        try:
            extra = list(h.gen_cases(tier, rnd2, 3 * n))
        except Exception:
            extra = []
        for case in extra:
            if time.time() - t_search > 240:
                break
            obs = run_impl(h, case)
            searched += 1
            if 'harness_exception' in obs:
                continue
            vs = [v for v in h.direct(case, obs) if not any(h.known_match(f, v) for f in live_known)]
            if vs:
                extra_found = (case, obs, vs[0])
                break
        report['search'] = {'extra_cases': searched, 'found': extra_found is not None}
        if extra_found is not None:
            case, obs, v = extra_found
            replay_path = write_replay(pid, {'property': pid, 'kind': 'direct-violation', 'signature': v.get('signature'),
                                             'case': case, 'observed': obs, 'detail': v.get('detail'), 'seed': seed, 'tier': tier,
                                             'found_by': 'extended search after a broken obligation', 'broken_obligations': broken})
            lines.append('VIOLATION property=%s replay=%s' % (pid, replay_path))
            exit_code = 1
    if broken and exit_code == 0 or (broken and replay and not new_viol):
        payload = {'property': pid, 'kind': 'no-failing-input-found', 'broken': broken, 'seed': seed, 'tier': tier,
                   'report': report}
        if tie_fail:
            j = tie_fail[0]
            payload['first_disagreeing_case'] = cases[j]
            payload['observed'] = observations[j]
        replay_path = write_replay(pid, payload)
        lines.append('VIOLATION property=%s replay=%s no-failing-input-found' % (pid, replay_path))
        exit_code = 1

    wall = time.time() - t0
    ev = {
        'property_id': pid, 'tier': tier, 'seed': seed, 'level': h.LEVEL,
        'coverage': {
            'obligations': obligations, 'discharged': discharged,
            'checker_cmd': 'make -C coq %s (coqc 8.16.1, full .vo) ; coqc Print Assumptions per theorem ; coqc vm_compute over generated Cases_*.v%s'
                           % (' '.join(targets), ' ; coqchk -o' if tier == 'thorough' else ''),
            'trusted_base': h.TRUSTED + ['axioms reported by Print Assumptions: ' + (', '.join(sorted(axioms_seen)) or 'none (closed under the global context)')],
            'theorems': thms,
            'evaluations': len(cases), 'distinct_nontrivial': len(keys),
            'traces_validated_against_impl': len(terms),
            'tie_disagreements': len(tie_fail),
            'direct_oracle_violations': len(real), 'known_findings_hit': sorted(known_hit),
            'rule': getattr(h, 'RULE', ''), 'samples': samples[:3], 'case_stats': stats,
            'exhaustive': False, 'broken': broken, 'anchored_line_coverage': anchored_cov,
        },
        'assumptions': h.ASSUMPTIONS,
        'wall_s': round(wall, 2), 'violations': len(new_viol) + (1 if (broken and not new_viol) else 0),
    }
    if os.environ.get('VERIF_REPO') or replay:
        # a replay, or a development run against a scratch worktree (seeded change, refactoring): never touches the evidence of /repo
        json.dump(_jsonable(ev), open(os.path.join(WORK, pid, 'evidence-scratch.json'), 'w'), indent=1, sort_keys=True)
    else:
        os.makedirs(os.path.join(VERIF, 'evidence'), exist_ok=True)
        json.dump(_jsonable(ev), open(os.path.join(VERIF, 'evidence', pid + '.json'), 'w'), indent=1, sort_keys=True)
    json.dump(_jsonable(report), open(os.path.join(WORK, pid, 'report.json'), 'w'), indent=1, default=str)
    if exit_code == 0 or not os.environ.get('VERIF_KEEP_WORK'):
        # the generated case files are large; a failing run keeps them only on request (the replay file has the input)
        shutil.rmtree(workdir, ignore_errors=True)
    for l in lines:
        print(l)
    print('%s %s: %d cases, %d compared with the model (%d disagree), %d direct violations (%d new), obligations %d/%d, %.1fs'
          % (pid, tier, len(cases), len(terms), len(tie_fail), len(real), len(new_viol), discharged, obligations, wall))
    if broken:
        print('broken: ' + '; '.join(broken))
    return exit_code
