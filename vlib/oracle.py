"""Scripted random source for the two doors through which randomness enters epydemic:
the module-level ``epydemic.rng`` (bound by name into each module at import time) and
``numpy.random.shuffle``.  Values come either from an explicit script (per call kind) or
from one seeded PRNG, and every value served is logged so that a case replays exactly and
the same values can be handed to the Coq model."""
import random
import sys
import numpy


class ScriptExhausted(Exception):
    pass


class Oracle:
    KINDS = ('random', 'integers', 'choice', 'shuffle')

    def __init__(self, seed=0, script=None, strict=False):
        self.prng = random.Random(seed)
        self.script = {k: list(v) for k, v in (script or {}).items()}
        self.pos = {k: 0 for k in self.KINDS}
        self.strict = strict          # strict: raise when a scripted kind runs out
        self.log = []                 # (kind, args..., value)
        self.randoms = []             # hook: optional generator of floats for random()
        self.random_gen = None

    # -- helpers
    def _scripted(self, kind):
        s = self.script.get(kind)
        if s is None:
            return None
        i = self.pos[kind]
        if i >= len(s):
            if self.strict:
                raise ScriptExhausted(kind)
            return None
        self.pos[kind] = i + 1
        return s[i]

    # -- numpy Generator look-alike
    def random(self):
        v = self._scripted('random')
        if v is None:
            if self.random_gen is not None:
                v = self.random_gen(self.prng)
            else:
                # 20-bit dyadic in (0,1): products and sums with small integers are exact
                v = (self.prng.randrange(1, 1 << 20)) / float(1 << 20)
        self.log.append(('random', v))
        return v

    def integers(self, lo, hi=None):
        if hi is None:
            lo, hi = 0, lo
        lo = int(lo); hi = int(hi)
        if hi <= lo:
            raise ValueError('high <= low')
        v = self._scripted('integers')
        if v is None:
            v = self.prng.randrange(lo, hi)
        else:
            v = lo + (int(v) % (hi - lo))
        self.log.append(('integers', lo, hi, v))
        return v

    def choice(self, seq):
        n = len(seq)
        if n == 0:
            raise ValueError('empty choice')
        i = self._scripted('choice')
        if i is None:
            i = self.prng.randrange(n)
        else:
            i = int(i) % n
        self.log.append(('choice', n, i))
        return seq[i]

    def shuffle(self, lst):
        n = len(lst)
        perm = self._scripted('shuffle')
        if perm is None or sorted(perm) != list(range(n)):
            perm = list(range(n))
            self.prng.shuffle(perm)
        if isinstance(lst, numpy.ndarray):
            lst[:] = lst[list(perm)]          # fancy indexing copies, rows of an array are views
        else:
            old = list(lst)
            for i in range(n):
                lst[i] = old[perm[i]]
        self.log.append(('shuffle', tuple(perm)))

    # -- views of the log
    def values(self, kind):
        return [e for e in self.log if e[0] == kind]


_saved = {}


def install(oracle):
    """Point every epydemic module's ``rng`` and numpy.random.shuffle at the oracle."""
    import epydemic  # noqa: F401  (make sure the modules are loaded)
    if 'shuffle' not in _saved:
        _saved['shuffle'] = numpy.random.shuffle
        _saved['rng'] = epydemic.rng
    for name, mod in list(sys.modules.items()):
        if mod is not None and (name == 'epydemic' or name.startswith('epydemic.')) and hasattr(mod, 'rng'):
            setattr(mod, 'rng', oracle)
    numpy.random.shuffle = oracle.shuffle
    return oracle


def uninstall():
    import epydemic
    if 'shuffle' in _saved:
        numpy.random.shuffle = _saved['shuffle']
        for name, mod in list(sys.modules.items()):
            if mod is not None and (name == 'epydemic' or name.startswith('epydemic.')) and hasattr(mod, 'rng'):
                setattr(mod, 'rng', _saved['rng'])
