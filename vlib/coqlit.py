"""Python values -> Coq literal text."""
from fractions import Fraction


def z(n):
    n = int(n)
    return '(%d)%%Z' % n


def nat(n):
    n = int(n)
    assert 0 <= n < 5000, 'nat literal too large: %r' % n
    return '%d%%nat' % n


def b(v):
    return 'true' if v else 'false'


def q(x):
    """exact rational of an int/float/Fraction as a Coq Q literal (num # den)"""
    f = Fraction(x)
    return '((%d) # %d)%%Q' % (f.numerator, f.denominator)


def lst(items, f=None):
    if f is not None:
        items = [f(i) for i in items]
    return '[' + '; '.join(items) + ']'


def pair(*xs):
    return '(' + ', '.join(xs) + ')'


def opt(v, f):
    return 'None' if v is None else '(Some %s)' % f(v)


def zpair(e):
    return '(%s, %s)' % (z(e[0]), z(e[1]))


def string(s):
    return '"%s"%%string' % s.replace('"', '""')
