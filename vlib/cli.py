import argparse
import importlib
import os
import sys

sys.path.insert(0, os.path.dirname(os.path.dirname(os.path.abspath(__file__))))
from vlib import core  # noqa: E402


def main():
    ap = argparse.ArgumentParser()
    ap.add_argument('pid', nargs='?')
    ap.add_argument('--tier', default=os.environ.get('VERIF_TIER', 'quick'))
    ap.add_argument('--replay')
    ap.add_argument('--setup', action='store_true')
    a = ap.parse_args()
    if a.setup:
        core.ensure_makefile()
        # -k: one broken proof file must not stop the others from building; every check
        # verifies that its own targets are built and up to date
        rc, out, dt = core.make(keep_going=True)
        print(out[-3000:])
        print('setup: make rc=%d in %.0fs' % (rc, dt))
        sys.exit(0)
    seed = int(os.environ.get('VERIF_SEED', '20260929') or 0)
    tier = a.tier if a.tier in ('quick', 'thorough') else 'quick'
    mod = importlib.import_module('harness.' + a.pid.lower())
    h = mod.H()
    sys.exit(core.main_check(h, tier, seed, replay=a.replay))


if __name__ == '__main__':
    main()
