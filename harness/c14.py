"""C14: Percolate keeps a floor(T*M)-subset of the edges.
Tie B: run Percolate.build through a real dynamics with a scripted shuffle; compare what was
handed to occupy/unoccupy and the working network with Model/Percolate.v.
D: the property restated directly on the implementation's observables.
A quarter of the cases run the SAME dynamics object a second time (another scripted permutation, possibly another T):
tie and D are applied to every run against the edge list of THAT run's prototype (each run starts from the prototype).
Half of the second runs are on ANOTHER prototype with the same numbers of nodes and edges, installed with
setNetworkGenerator between the runs (case['again']['edges']): nothing of the first run's network may survive.
Half of the cases observe the hooks with a sub-class whose occupy() does NOT chain to Percolate.occupy (documented as
"the default does nothing"; case['hooks'] == 'observe'), the other half chain both hooks to the defaults.
"Law" cases (exhaustive part, judged by D only): the build is driven by an enumerating oracle
(harness/enumoracle.py) over the whole tree of outcomes of the random doors, and the exact probability of every
retained edge subset must be 1/C(M, floor(T*M)) - uniformity without statistics."""
import itertools
import math
from fractions import Fraction

import networkx

from vlib import coqlit as L
from vlib.core import Harness
from vlib.oracle import Oracle, install
from harness.enumoracle import Refused, NotReplayable, explore


def norm(e):
    a, b = e
    return (a, b) if a <= b else (b, a)


def make_graph(rnd, n, kind):
    g = networkx.Graph()
    g.add_nodes_from(range(n))
    if kind == 'complete':
        g.add_edges_from(itertools.combinations(range(n), 2))
    elif kind == 'path':
        g.add_edges_from((i, i + 1) for i in range(n - 1))
    elif kind == 'star':
        g.add_edges_from((0, i) for i in range(1, n))
    elif kind == 'empty':
        pass
    else:
        p = rnd.choice([0.2, 0.4, 0.7])
        for a, b in itertools.combinations(range(n), 2):
            if rnd.random() < p:
                if rnd.random() < 0.5:
                    g.add_edge(a, b)
                else:
                    g.add_edge(b, a)
        if kind == 'loops' and n > 0:
            for a in range(n):
                if rnd.random() < 0.3:
                    g.add_edge(a, a)
    return g


def other_graph_edges(rnd, nodes, es):
    """another edge list over the same nodes with the SAME number of edges (a different edge set whenever the draw finds
    one): what a second instance of a fixed-size ensemble, or a swapped prototype of equal shape, looks like"""
    M = len(es)
    loops = any(a == b for a, b in es)
    pairs = list(itertools.combinations(nodes, 2)) + ([(a, a) for a in nodes] if loops else [])
    first = {norm(e) for e in es}
    pick = []
    for _ in range(8):
        pick = rnd.sample(pairs, M)
        if {norm(e) for e in pick} != first:
            break
    return [list(e) if rnd.random() < 0.5 else [e[1], e[0]] for e in pick]


class H(Harness):
    ID = 'C14'
    ANCHOR_FILES = ['epydemic/percolate.py', 'epydemic/processsequence.py', 'epydemic/networkexperiment.py']
    TIE_IMPORT = 'From EpyV Require Import Tie.C14.'
    CHECK_FN = 'EpyV.Tie.C14.check_case'
    QUICK_N = 500
    THOROUGH_N = 6000
    ALLOWED_AXIOMS = set()
    RULE = ('networks of 0-7 nodes (complete/path/star/empty/random/with self-loops, both edge orientations), '
            'T from {0, 1, j/M, j/M +- 2^-30, random dyadic}, a scripted shuffle permutation, alone or in a ProcessSequence '
            'followed by a probe process that reads the network in build(), setUp() and results() (Percolate first, or after '
            'another probe, or inside a nested sequence, or the probe inside a nested sequence), under StochasticDynamics or '
            'SynchronousDynamics; a quarter of the cases run the same dynamics object twice (second scripted permutation, same '
            'or another T), half of those second runs on another prototype with the same numbers of nodes and edges installed with '
            'setNetworkGenerator between the runs (random, and a fixed block: path/star, star/triangle, pentagon/pentagram, the same '
            'edges relisted, with self-loops; every k), every run judged against the edge list of its own prototype; the hooks are '
            'observed by a sub-class that chains both to the defaults, or (half of the cases) whose occupy() does not chain; cases on which float int(M*T) differs from exact '
            'floor(M*T) are dropped and counted; law cases (M = 3, 4 edges, every k; D only): the exact distribution of the '
            'retained subset over all outcomes of the random doors (enumerating oracle) must be uniform; '
            'a case is non-trivial when M >= 2 and 0 < occ < M; distinct by (edges, T, permutation, mode, layout, second run)')
    TRUSTED = ['Coq 8.16.1 kernel incl. vm_compute', 'harness/c14.py, harness/enumoracle.py and vlib (scripted shuffle, enumeration of the outcomes of the random doors, observation of occupy/unoccupy arguments)',
               'networkx Graph.copy / remove_edges_from / edges modelled as an undirected edge list']
    ASSUMPTIONS = ['numpy.random.shuffle produces a uniformly distributed permutation, rng.integers / rng.choice uniformly distributed values (the law cases weigh the outcomes of each door equally; C14_uniform counts shuffles)',
                   'int(M*T) in binary64 equals floor(M*T) on the generated inputs (checked per case; differing cases are excluded and counted)']

    LAYOUTS = ['first', 'first', 'first', 'mid', 'nest_perc', 'nest_probe', 'nest_both']

    @staticmethod
    def _T(rnd, M):
        tk = rnd.randrange(6)
        if tk == 0:
            return 0.0
        if tk == 1:
            return 1.0
        if tk == 2 and M > 0:
            return rnd.randrange(0, M + 1) / M
        if tk == 3 and M > 0:
            return min(1.0, max(0.0, rnd.randrange(0, M + 1) / M + rnd.choice([-1, 1]) * 2.0 ** -30))
        return rnd.randrange(0, 1 << 12) / float(1 << 12)

    @staticmethod
    def _floats_agree(M, T):
        return int(M * T) == math.floor(Fraction(M) * Fraction(T))

    def gen_cases(self, tier, rnd, n):
        out = []
        kinds = ['complete', 'path', 'star', 'empty', 'random', 'random', 'loops']
        self.dropped = 0
        while len(out) < n:
            nn = rnd.randrange(0, 8)
            g = make_graph(rnd, nn, rnd.choice(kinds))
            es = list(g.edges())
            M = len(es)
            mode = rnd.choice(['alone', 'seq'])
            T = self._T(rnd, M)
            if not self._floats_agree(M, T):
                self.dropped += 1
                continue
            perm = list(range(M))
            rnd.shuffle(perm)
            labels = None
            if rnd.random() < 0.25:
                pool = ['a', 'b', 'n3', 7, 'x', 11, 'k', 2][:nn]
                rnd.shuffle(pool)
                labels = pool
            case = {'nodes': list(g.nodes()), 'edges': [list(e) for e in es], 'T': T, 'perm': perm, 'mode': mode, 'labels': labels}
            if mode == 'seq':
                case['layout'] = rnd.choice(self.LAYOUTS)
            if rnd.random() < 0.3:
                case['dyn'] = 'synchronous'
            if rnd.random() < 0.25:
                # the same dynamics object is run a second time: it must start from the prototype again
                T2 = T if rnd.random() < 0.4 else self._T(rnd, M)
                if not self._floats_agree(M, T2):
                    self.dropped += 1
                    continue
                perm2 = list(range(M))
                rnd.shuffle(perm2)
                case['again'] = {'T': T2, 'perm': perm2}
                if rnd.random() < 0.5:
                    # ... and from ANOTHER prototype of the same order and size, installed between the runs
                    case['again']['edges'] = other_graph_edges(rnd, list(g.nodes()), es)
            if rnd.random() < 0.5:
                case['hooks'] = 'observe'       # the observing sub-class does not chain occupy() to the default
            if rnd.random() < 0.3:
                # the prototype handed over as a FixedNetwork with a limit: exactly as many networks as the runs need
                # (the last permitted one is still a copy), or one more
                case['via_fixed'] = rnd.choice(['exact', 'exact', 'more'])
            out.append(case)
        return out

    def exhaustive_cases(self, tier):
        # all permutations and all split points of small edge lists
        out = []
        shapes = [[(0, 1), (1, 2), (2, 0)], [(0, 1), (2, 1), (3, 1), (0, 0)]]
        if tier == 'thorough':
            shapes.append([(0, 1), (1, 2), (2, 3), (3, 4), (4, 0)])
        for es in shapes:
            M = len(es)
            nodes = sorted({x for e in es for x in e})
            for perm in itertools.permutations(range(M)):
                for j in range(M + 1):
                    T = min(1.0, (j + 0.5) / M)
                    if not self._floats_agree(M, T):
                        continue
                    out.append({'nodes': nodes, 'edges': [list(e) for e in es], 'T': T, 'perm': list(perm), 'mode': 'alone'})
        # every k = 0..M twice on one dynamics object (second run with another permutation and the complementary k)
        for es in shapes[:2]:
            M = len(es)
            nodes = sorted({x for e in es for x in e})
            for j in range(M + 1):
                T = min(1.0, (j + 0.5) / M); T2 = min(1.0, (M - j + 0.5) / M)
                if self._floats_agree(M, T) and self._floats_agree(M, T2):
                    out.append({'nodes': nodes, 'edges': [list(e) for e in es], 'T': T, 'perm': list(range(M))[::-1], 'mode': 'seq',
                                'again': {'T': T2, 'perm': [(i + 1) % M for i in range(M)]}})
        # two prototypes of the same order and size on one dynamics object (setNetworkGenerator between the runs): every k,
        # the second network sharing none / some / all-but-orientation of the first one's edges
        twins = [([(0, 1), (1, 2), (2, 3)], [(0, 1), (0, 2), (0, 3)]),                    # path, then star
                 ([(0, 1), (0, 2), (0, 3)], [(1, 2), (2, 3), (3, 1)]),                    # star, then a disjoint triangle
                 ([(0, 1), (1, 2), (2, 0)], [(1, 0), (0, 2), (2, 1)]),                    # the same edges, listed and oriented differently
                 ([(0, 1), (1, 2), (2, 3), (3, 4), (4, 0)], [(0, 2), (2, 4), (4, 1), (1, 3), (3, 0)]),   # pentagon, pentagram
                 ([(0, 1), (2, 1), (3, 1), (0, 0)], [(0, 1), (2, 3), (3, 3), (0, 2)])]    # with self-loops
        for n_, (es, es2) in enumerate(twins):
            M = len(es)
            nodes = sorted({x for e in es + es2 for x in e})
            for j in range(M + 1):
                for j2 in sorted({j, M - j, M // 2}):
                    T = min(1.0, (j + 0.5) / M); T2 = min(1.0, (j2 + 0.5) / M)
                    if self._floats_agree(M, T) and self._floats_agree(M, T2):
                        c = {'nodes': nodes, 'edges': [list(e) for e in es], 'T': T, 'perm': list(range(M))[::-1], 'mode': ['seq', 'alone'][(j + j2) % 2],
                             'again': {'T': T2, 'perm': [(i + 2) % M for i in range(M)], 'edges': [list(e) for e in es2]}}
                        if (n_ + j + j2) % 2:
                            c['hooks'] = 'observe'
                        out.append(c)
        # an observing sub-class that does not chain occupy() to the default: every k, alone and in a sequence
        for es in shapes[:2]:
            M = len(es)
            nodes = sorted({x for e in es for x in e})
            for j in range(M + 1):
                T = min(1.0, (j + 0.5) / M)
                if self._floats_agree(M, T):
                    for mode in ('alone', 'seq'):
                        out.append({'nodes': nodes, 'edges': [list(e) for e in es], 'T': T, 'perm': [(i + 1) % M for i in range(M)], 'mode': mode,
                                    'hooks': 'observe'})
        # the law: exact distribution of the retained subset, every k, M = 3 and 4 (5 in the thorough tier)
        for es in shapes:
            M = len(es)
            nodes = sorted({x for e in es for x in e})
            for j in range(M + 1):
                T = min(1.0, (j + 0.5) / M)
                if self._floats_agree(M, T):
                    out.append({'law': True, 'nodes': nodes, 'edges': [list(e) for e in es], 'T': T, 'perm': [], 'mode': 'alone'})
        return out

    # ---------------------------------------------------------------- running the implementation
    MAX_PATHS = 5000

    def _execute_law(self, case):
        """the exact distribution of the retained edge set over all outcomes of the random doors"""
        from epydemic import Percolate, StochasticDynamics
        g = networkx.Graph()
        g.add_nodes_from(case['nodes'])
        g.add_edges_from([tuple(e) for e in case['edges']])

        def run(orc):
            dyn = StochasticDynamics(Percolate(), g)
            end = {}
            dyn.simulationEnded = lambda res: end.update(edges=tuple(sorted(norm(e) for e in dyn.network().edges())),
                                                         count=dyn.network().number_of_edges())
            dyn.set({Percolate.T: case['T']}).run(fatal=True)
            return (end['edges'], end['count'])

        law = {'skipped': None, 'exception': None, 'paths': 0, 'dist': None}
        try:
            dist, paths = explore(run, self.MAX_PATHS)
            law['paths'] = paths
            law['dist'] = sorted(([list(e) for e in k[0]], k[1], p) for k, p in dist.items())
        except (Refused, NotReplayable) as e:
            law['skipped'] = type(e).__name__ + ': ' + str(e)
        except Exception as e:      # observable behaviour
            law['exception'] = type(e).__name__ + ': ' + str(e)
        return {'law': law, 'stats': {'law_cases': 1, 'law_cases_skipped_source_not_enumerable': int(law['skipped'] is not None),
                                      'law_paths_explored': law['paths']}}

    def execute(self, case):
        if case.get('law'):
            return self._execute_law(case)
        import epydemic
        from epydemic import Percolate, Process, ProcessSequence, StochasticDynamics, SynchronousDynamics
        g = networkx.Graph()
        lab = case.get('labels')
        name = (lambda x: lab[x]) if lab else (lambda x: x)      # node labels of mixed types (ints and strings)
        back = {name(x): x for x in case['nodes']}
        g.add_nodes_from(name(x) for x in case['nodes'])
        g.add_edges_from([(name(a), name(b)) for a, b in case['edges']])
        proto_nodes = list(g.nodes()); proto_edges = list(g.edges())
        again = case.get('again')
        g2 = None
        if again and again.get('edges') is not None:
            # another prototype over the same nodes (same order and labels), installed before the second run
            g2 = networkx.Graph()
            g2.add_nodes_from(name(x) for x in case['nodes'])
            g2.add_edges_from([(name(a), name(b)) for a, b in again['edges']])
            proto2_nodes = list(g2.nodes()); proto2_edges = list(g2.edges())
        unname = lambda e: (back.get(e[0], -1 - hash(str(e[0])) % 1000), back.get(e[1], -1 - hash(str(e[1])) % 1000))
        rec = {}

        chain_occupy = case.get('hooks') != 'observe'

        class RecPercolate(Percolate):
            def occupy(self, occupied):
                # Percolate.occupy: "The default does nothing" - a sub-class that only observes need not chain to it
                rec['occupied'] = [unname(tuple(e)) for e in occupied]
                if chain_occupy:
                    super().occupy(occupied)

            def unoccupy(self, unoccupied):
                rec['unoccupied'] = [unname(tuple(e)) for e in unoccupied]
                super().unoccupy(unoccupied)

        class Probe(Process):
            """reads the working network at every stage at which a process can look at it"""
            def __init__(self, tag):
                super().__init__()
                self.tag = tag

            def _see(self, stage):
                rec[self.tag + stage] = [unname(e) for e in self.network().edges()]

            def build(self, params):
                super().build(params)
                self._see('_build')

            def setUp(self, params):
                super().setUp(params)
                self._see('_setup')

            def results(self):
                self._see('_results')
                return super().results()

        perc = RecPercolate()
        layout = case.get('layout') or 'first'
        if case['mode'] == 'alone':
            proc = perc
        elif layout == 'mid':             # Percolate is not the first component
            proc = ProcessSequence([Probe('before'), perc, Probe('next')])
        elif layout == 'nest_perc':
            proc = ProcessSequence([ProcessSequence([perc]), Probe('next')])
        elif layout == 'nest_probe':
            proc = ProcessSequence([perc, ProcessSequence([Probe('next')])])
        elif layout == 'nest_both':
            proc = ProcessSequence([ProcessSequence([Probe('before'), perc]), ProcessSequence([Probe('next')])])
        else:
            proc = ProcessSequence([perc, Probe('next')])
        sync = case.get('dyn') == 'synchronous'
        if sync:
            proc.setMaximumTime(2)        # no events: the synchronous loop runs to the maximum time
        plan = [(case['T'], case['perm'])] + ([(again['T'], again['perm'])] if again else [])
        orc = install(Oracle(seed=0, script={'shuffle': [p for _, p in plan]}))
        vf = case.get('via_fixed')

        def handed(graph, uses):
            if not vf:
                return graph
            from epydemic import FixedNetwork
            return FixedNetwork(graph, limit=uses + (1 if vf == 'more' else 0))
        dyn = (SynchronousDynamics if sync else StochasticDynamics)(proc, handed(g, 1 if g2 is not None else len(plan)))
        end = {}
        dyn.simulationEnded = lambda res: end.update(nodes=[back.get(x, -1) for x in dyn.network().nodes()], edges=[unname(e) for e in dyn.network().edges()])
        runs = []
        for r, (T, perm) in enumerate(plan):
            rec.clear(); end.clear()
            other = r == 1 and g2 is not None
            if other:
                dyn.setNetworkGenerator(handed(g2, 1))
            before = len(orc.values('shuffle'))
            exc = None
            try:
                dyn.set({Percolate.T: T}).run(fatal=True)
            except Exception as e:  # observable behaviour
                exc = type(e).__name__ + ': ' + str(e)
            seq = case['mode'] == 'seq'
            runs.append({'exception': exc, 'T': T, 'perm': list(perm), 'occupied': rec.get('occupied'), 'unoccupied': rec.get('unoccupied'),
                         'nodes': end.get('nodes'), 'edges': end.get('edges'),
                         'next_edges': rec.get('next_build') if seq else end.get('edges'),
                         'next_setup': rec.get('next_setup') if seq else None,
                         'next_results': rec.get('next_results') if seq else None,
                         'before_build': rec.get('before_build'),
                         'proto_same': (list(g.nodes()) == proto_nodes and list(g.edges()) == proto_edges
                                        and (g2 is None or (list(g2.nodes()) == proto2_nodes and list(g2.edges()) == proto2_edges))),
                         'g_edges': [unname(e) for e in (proto2_edges if other else proto_edges)],
                         'shuffles': [list(e[1]) for e in orc.values('shuffle')[before:]]})
            if exc is not None:
                break
        obs = dict(runs[0])       # the first run at top level (format of older replays)
        obs['g_edges'] = [unname(e) for e in proto_edges]
        obs['runs'] = runs
        obs['stats'] = {'cases_alone': int(case['mode'] == 'alone'), 'cases_in_sequence_' + layout: int(case['mode'] == 'seq'),
                        'cases_synchronous': int(sync), 'cases_run_twice': int(len(runs) == 2), 'runs': len(runs),
                        'cases_second_run_on_another_network': int(len(runs) == 2 and g2 is not None),
                        'cases_occupy_hook_not_chained': int(not chain_occupy)}
        return obs

    # ---------------------------------------------------------------- D
    def _direct_law(self, case, obs):
        law = obs['law']
        es = [tuple(e) for e in case['edges']]
        M = len(es)
        T = case['T']
        k = math.floor(Fraction(M) * Fraction(T))
        if law['exception']:
            return [{'signature': 'build-raised', 'detail': law['exception']}]
        if law['skipped']:
            return []           # a random source that cannot be enumerated exactly: no judgement
        E0 = sorted({norm(e) for e in es})
        want = Fraction(1, math.comb(M, k))
        seen = {}
        for edges, count, p in law['dist']:
            key = tuple(tuple(e) for e in edges)
            # a result that is not a k-subset of the edges (judged by the other cases as well) has no share in the law
            ok = count == k and len(key) == k and set(key) <= set(E0)
            kk = key if ok else ('not a %d-subset' % k, key, count)
            seen[kk] = seen.get(kk, 0) + p
        expected = {s: want for s in itertools.combinations(E0, k)}
        if seen != expected:
            return [{'signature': 'subset-not-uniform',
                     'detail': {'edges': E0, 'T': T, 'M': M, 'k': k, 'paths_explored': law['paths'],
                                'probability_of_every_subset_must_be': str(want),
                                'probabilities': sorted((str(s), str(p)) for s, p in seen.items()),
                                'subsets_never_retained': sorted(str(s) for s in expected if s not in seen)}}]
        return []

    def direct(self, case, obs):
        if case.get('law'):
            return self._direct_law(case, obs)
        out = []
        runs = obs.get('runs') or [obs]
        for r, ro in enumerate(runs):
            for v in self._direct_run(case, ro, ro.get('T', case['T']), self._run_edges(case, r)):
                if len(runs) > 1 or r > 0:
                    v['detail'] = {'run': r + 1, 'of': len(runs), 'T': ro.get('T', case['T']), 'what': v.get('detail')}
                out.append(v)
        if case.get('again') and len(runs) < 2 and not runs[0]['exception']:
            out.append({'signature': 'second-run-missing', 'detail': None})
        return out

    @staticmethod
    def _run_edges(case, r):
        """the edge list of the prototype in force in run r (0-based): the second run may have been given another one"""
        ag = case.get('again') or {}
        return ag['edges'] if r >= 1 and ag.get('edges') is not None else case['edges']

    def _direct_run(self, case, obs, T, edges):
        """the property on one run, against the edge list of THAT run's prototype (every run starts from the prototype)"""
        v = []
        es = [tuple(e) for e in edges]
        M = len(es)
        k = math.floor(Fraction(M) * Fraction(T))
        if obs['exception'] or obs['edges'] is None or obs['occupied'] is None or obs['unoccupied'] is None:
            return [{'signature': 'build-raised', 'detail': obs['exception']}]
        E0 = {norm(e) for e in es}
        E1 = [norm(e) for e in obs['edges']]
        if sorted(obs['nodes']) != sorted(case['nodes']):
            v.append({'signature': 'nodes-changed', 'detail': obs['nodes']})
        if len(E1) != k or len(set(E1)) != len(E1):
            v.append({'signature': 'edge-count', 'detail': 'kept %d edges, floor(T*M)=%d (M=%d, T=%r)' % (len(E1), k, M, T)})
        if not set(E1) <= E0:
            v.append({'signature': 'edges-not-subset', 'detail': sorted(set(E1) - E0)})
        occ = [norm(e) for e in obs['occupied']]; un = [norm(e) for e in obs['unoccupied']]
        if sorted(occ + un) != sorted(E0):
            v.append({'signature': 'not-a-partition', 'detail': {'occupied': occ, 'unoccupied': un, 'M': M}})
        if set(E1) != set(occ):
            v.append({'signature': 'kept-not-occupied', 'detail': {'kept': E1, 'occupied': occ}})
        if case['mode'] == 'seq':
            # a later process sees the percolated network whenever it looks: while it is built, set up, and when it reports
            for stage, key in (('build', 'next_edges'), ('setUp', 'next_setup'), ('results', 'next_results')):
                if key in obs and sorted(norm(e) for e in (obs[key] or [])) != sorted(E1):
                    v.append({'signature': 'next-process-sees-other-network', 'detail': {'in': stage, 'edges': obs[key]}})
                    break
        if not obs['proto_same']:
            v.append({'signature': 'prototype-modified', 'detail': None})
        return v

    # ---------------------------------------------------------------- tie B
    def to_coq(self, case, obs):
        if case.get('law'):
            return None         # judged by D only
        runs = obs.get('runs') or [obs]
        return L.lst([self._run_to_coq(case, ro.get('g_edges', obs['g_edges']), ro) for ro in runs])

    def _run_to_coq(self, case, g_edges, obs):
        T = obs.get('T', case['T']); perm = obs.get('perm', case['perm'])
        if obs.get('exception') or obs.get('edges') is None or obs.get('occupied') is None or obs.get('unoccupied') is None:
            # the model never raises: give it an observation that cannot match
            occ = un = edges = nxt = [(-1, -1)]
            nodes = []
        else:
            occ, un, edges, nxt, nodes = obs['occupied'], obs['unoccupied'], obs['edges'], obs['next_edges'] or [], obs['nodes']
        if len(obs.get('shuffles', [])) != 1 or obs['shuffles'][0] != perm:
            nodes = [-1]    # the implementation did not use the scripted shuffle exactly once
        f = lambda es: L.lst(es, L.zpair)
        # every run is modelled from the edge list of its own prototype
        return ('{| c_nodes := %s; c_edges := %s; c_perm := %s; c_T := %s; o_occupied := %s; o_unoccupied := %s; '
                'o_nodes := %s; o_edges := %s; o_next_edges := %s |}') % (
            L.lst(case['nodes'], L.z), f(g_edges), L.lst(perm, L.nat), L.q(T),
            f(occ), f(un), L.lst(nodes, L.z), f(edges), f(nxt))

    def nontrivial(self, case, obs):
        M = len(case['edges'])
        k = int(M * case['T'])
        if M >= 2 and 0 < k < M:
            ag = case.get('again')
            return (tuple(map(tuple, case['edges'])), case['T'], tuple(case['perm']), case['mode'], case.get('layout'), case.get('dyn'),
                    bool(case.get('law')), (ag['T'], tuple(ag['perm']), tuple(map(tuple, ag.get('edges') or []))) if ag else None,
                    case.get('hooks'))
        return None

    def sample_view(self, case, obs):
        if case.get('law'):
            return {'case': case, 'law': obs.get('law')}
        return {'case': case, 'occupied': obs.get('occupied'), 'unoccupied': obs.get('unoccupied'), 'edges_after': obs.get('edges'),
                'second_run': (obs.get('runs') or [None, None])[1:2]}
