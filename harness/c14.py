"""C14: Percolate keeps a floor(T*M)-subset of the edges.
Tie B: run Percolate.build through a real dynamics with a scripted shuffle; compare what was
handed to occupy/unoccupy and the working network with Model/Percolate.v.
D: the property restated directly on the implementation's observables."""
import itertools
import math
from fractions import Fraction

import networkx

from vlib import coqlit as L
from vlib.core import Harness
from vlib.oracle import Oracle, install


def norm(e):
    a, b = e
    return (a, b) if a <= b else (b, a)


def make_graph(rnd, n, kind):
    g = networkx.Graph()
    g.add_nodes_from(range(n))
    if kind == 'complete':
        g.add_edges_from(itertools.combinations(range(n), 2))
    elif kind == 'path':
        g.add_edges_from((i, i + 1) for i in range(n - 1))
    elif kind == 'star':
        g.add_edges_from((0, i) for i in range(1, n))
    elif kind == 'empty':
        pass
    else:
        p = rnd.choice([0.2, 0.4, 0.7])
        for a, b in itertools.combinations(range(n), 2):
            if rnd.random() < p:
                if rnd.random() < 0.5:
                    g.add_edge(a, b)
                else:
                    g.add_edge(b, a)
        if kind == 'loops' and n > 0:
            for a in range(n):
                if rnd.random() < 0.3:
                    g.add_edge(a, a)
    return g


class H(Harness):
    ID = 'C14'
    ANCHOR_FILES = ['epydemic/percolate.py', 'epydemic/processsequence.py', 'epydemic/networkexperiment.py']
    TIE_IMPORT = 'From EpyV Require Import Tie.C14.'
    CHECK_FN = 'EpyV.Tie.C14.check_case'
    QUICK_N = 500
    THOROUGH_N = 6000
    ALLOWED_AXIOMS = set()
    RULE = ('networks of 0-7 nodes (complete/path/star/empty/random/with self-loops, both edge orientations), '
            'T from {0, 1, j/M, j/M +- 2^-30, random dyadic}, a scripted shuffle permutation, alone or followed by a probe '
            'process in a ProcessSequence; cases on which float int(M*T) differs from exact floor(M*T) are dropped and counted; '
            'a case is non-trivial when M >= 2 and 0 < occ < M; distinct by (edges, T, permutation, mode)')
    TRUSTED = ['Coq 8.16.1 kernel incl. vm_compute', 'harness/c14.py and vlib (scripted shuffle, observation of occupy/unoccupy arguments)',
               'networkx Graph.copy / remove_edges_from / edges modelled as an undirected edge list']
    ASSUMPTIONS = ['numpy.random.shuffle produces a uniformly distributed permutation (uniformity of the retained subset follows from C14_equivariant only under this assumption)',
                   'int(M*T) in binary64 equals floor(M*T) on the generated inputs (checked per case; differing cases are excluded and counted)']

    def gen_cases(self, tier, rnd, n):
        out = []
        kinds = ['complete', 'path', 'star', 'empty', 'random', 'random', 'loops']
        self.dropped = 0
        while len(out) < n:
            nn = rnd.randrange(0, 8)
            g = make_graph(rnd, nn, rnd.choice(kinds))
            es = list(g.edges())
            M = len(es)
            mode = rnd.choice(['alone', 'seq'])
            tk = rnd.randrange(6)
            if tk == 0:
                T = 0.0
            elif tk == 1:
                T = 1.0
            elif tk == 2 and M > 0:
                T = rnd.randrange(0, M + 1) / M
            elif tk == 3 and M > 0:
                T = min(1.0, max(0.0, rnd.randrange(0, M + 1) / M + rnd.choice([-1, 1]) * 2.0 ** -30))
            else:
                T = rnd.randrange(0, 1 << 12) / float(1 << 12)
            if int(M * T) != math.floor(Fraction(M) * Fraction(T)):
                self.dropped += 1
                continue
            perm = list(range(M))
            rnd.shuffle(perm)
            labels = None
            if rnd.random() < 0.25:
                pool = ['a', 'b', 'n3', 7, 'x', 11, 'k', 2][:nn]
                rnd.shuffle(pool)
                labels = pool
            out.append({'nodes': list(g.nodes()), 'edges': [list(e) for e in es], 'T': T, 'perm': perm, 'mode': mode, 'labels': labels})
        return out

    def exhaustive_cases(self, tier):
        # all permutations and all split points of small edge lists
        out = []
        shapes = [[(0, 1), (1, 2), (2, 0)], [(0, 1), (2, 1), (3, 1), (0, 0)]]
        if tier == 'thorough':
            shapes.append([(0, 1), (1, 2), (2, 3), (3, 4), (4, 0)])
        for es in shapes:
            M = len(es)
            nodes = sorted({x for e in es for x in e})
            for perm in itertools.permutations(range(M)):
                for j in range(M + 1):
                    T = min(1.0, (j + 0.5) / M)
                    if int(M * T) != math.floor(Fraction(M) * Fraction(T)):
                        continue
                    out.append({'nodes': nodes, 'edges': [list(e) for e in es], 'T': T, 'perm': list(perm), 'mode': 'alone'})
        return out

    def execute(self, case):
        import epydemic
        from epydemic import Percolate, Process, ProcessSequence, StochasticDynamics
        g = networkx.Graph()
        lab = case.get('labels')
        name = (lambda x: lab[x]) if lab else (lambda x: x)      # node labels of mixed types (ints and strings)
        back = {name(x): x for x in case['nodes']}
        g.add_nodes_from(name(x) for x in case['nodes'])
        g.add_edges_from([(name(a), name(b)) for a, b in case['edges']])
        proto_nodes = list(g.nodes()); proto_edges = list(g.edges())
        unname = lambda e: (back.get(e[0], -1 - hash(str(e[0])) % 1000), back.get(e[1], -1 - hash(str(e[1])) % 1000))
        rec = {}

        class RecPercolate(Percolate):
            def occupy(self, occupied):
                rec['occupied'] = [unname(tuple(e)) for e in occupied]
                super().occupy(occupied)

            def unoccupy(self, unoccupied):
                rec['unoccupied'] = [unname(tuple(e)) for e in unoccupied]
                super().unoccupy(unoccupied)

        class Probe(Process):
            def build(self, params):
                super().build(params)
                rec['next_edges'] = [unname(e) for e in self.network().edges()]

        perc = RecPercolate()
        proc = perc if case['mode'] == 'alone' else ProcessSequence([perc, Probe()])
        orc = install(Oracle(seed=0, script={'shuffle': [case['perm']]}))
        dyn = StochasticDynamics(proc, g)
        end = {}
        dyn.simulationEnded = lambda res: end.update(nodes=[back.get(x, -1) for x in dyn.network().nodes()], edges=[unname(e) for e in dyn.network().edges()])
        exc = None
        try:
            dyn.set({Percolate.T: case['T']}).run(fatal=True)
        except Exception as e:  # observable behaviour
            exc = type(e).__name__ + ': ' + str(e)
        obs = {'exception': exc, 'g_edges': [unname(e) for e in proto_edges], 'occupied': rec.get('occupied'), 'unoccupied': rec.get('unoccupied'),
               'nodes': end.get('nodes'), 'edges': end.get('edges'),
               'next_edges': rec.get('next_edges') if case['mode'] == 'seq' else end.get('edges'),
               'proto_same': list(g.nodes()) == proto_nodes and list(g.edges()) == proto_edges,
               'shuffles': [list(e[1]) for e in orc.values('shuffle')]}
        return obs

    def direct(self, case, obs):
        v = []
        es = [tuple(e) for e in case['edges']]
        M = len(es)
        T = case['T']
        k = math.floor(Fraction(M) * Fraction(T))
        if obs['exception'] or obs['edges'] is None or obs['occupied'] is None or obs['unoccupied'] is None:
            return [{'signature': 'build-raised', 'detail': obs['exception']}]
        E0 = {norm(e) for e in es}
        E1 = [norm(e) for e in obs['edges']]
        if sorted(obs['nodes']) != sorted(case['nodes']):
            v.append({'signature': 'nodes-changed', 'detail': obs['nodes']})
        if len(E1) != k or len(set(E1)) != len(E1):
            v.append({'signature': 'edge-count', 'detail': 'kept %d edges, floor(T*M)=%d (M=%d, T=%r)' % (len(E1), k, M, T)})
        if not set(E1) <= E0:
            v.append({'signature': 'edges-not-subset', 'detail': sorted(set(E1) - E0)})
        occ = [norm(e) for e in obs['occupied']]; un = [norm(e) for e in obs['unoccupied']]
        if sorted(occ + un) != sorted(E0):
            v.append({'signature': 'not-a-partition', 'detail': {'occupied': occ, 'unoccupied': un, 'M': M}})
        if set(E1) != set(occ):
            v.append({'signature': 'kept-not-occupied', 'detail': {'kept': E1, 'occupied': occ}})
        if case['mode'] == 'seq' and sorted(norm(e) for e in (obs['next_edges'] or [])) != sorted(E1):
            v.append({'signature': 'next-process-sees-other-network', 'detail': obs['next_edges']})
        if not obs['proto_same']:
            v.append({'signature': 'prototype-modified', 'detail': None})
        return v

    def to_coq(self, case, obs):
        if obs.get('exception') or obs.get('edges') is None or obs.get('occupied') is None or obs.get('unoccupied') is None:
            # the model never raises: give it an observation that cannot match
            occ = un = edges = nxt = [(-1, -1)]
            nodes = []
        else:
            occ, un, edges, nxt, nodes = obs['occupied'], obs['unoccupied'], obs['edges'], obs['next_edges'] or [], obs['nodes']
        if len(obs.get('shuffles', [])) != 1 or obs['shuffles'][0] != case['perm']:
            nodes = [-1]    # the implementation did not use the scripted shuffle exactly once
        f = lambda es: L.lst(es, L.zpair)
        return ('{| c_nodes := %s; c_edges := %s; c_perm := %s; c_T := %s; o_occupied := %s; o_unoccupied := %s; '
                'o_nodes := %s; o_edges := %s; o_next_edges := %s |}') % (
            L.lst(case['nodes'], L.z), f(obs['g_edges']), L.lst(case['perm'], L.nat), L.q(case['T']),
            f(occ), f(un), L.lst(nodes, L.z), f(edges), f(nxt))

    def nontrivial(self, case, obs):
        M = len(case['edges'])
        k = int(M * case['T'])
        if M >= 2 and 0 < k < M:
            return (tuple(map(tuple, case['edges'])), case['T'], tuple(case['perm']), case['mode'])
        return None

    def sample_view(self, case, obs):
        return {'case': case, 'occupied': obs.get('occupied'), 'unoccupied': obs.get('unoccupied'), 'edges_after': obs.get('edges')}
