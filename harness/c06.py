"""C06: synchronous dynamics applies independent per-element trials each timestep.
Tie B: whole synchronous runs of ScriptProcess tables with scripted trial values (incl. the boundary r == p)
against Model/Kernel.v.  D: per step, the expected tranche recomputed from the loci at the start of the step
and the trial values the oracle served.
Last clause (laws of the shipped models on small networks): harness/c06law.py - the exact one-step law of the
implementation (every pattern of trial outcomes scripted, weights as Fractions) against the law derived from the
property text, and for SIR/SEIR the exact absorption law over the reachable states."""
from vlib.core import Harness
from harness import kcommon
from harness import c06law


class H(Harness):
    ID = 'C06'
    ANCHOR_FILES = ['epydemic/synchronousdynamics.py', 'epydemic/networkdynamics.py', 'epydemic/process.py']
    TIE_IMPORT = kcommon.TIE_IMPORT
    CHECK_FN = kcommon.CHECK_FN
    VO_TARGETS = ['Properties/C06.vo', 'Tie/Kernel.vo']
    QUICK_N = 500
    THOROUGH_N = 5000
    CASE_TIMEOUT = 240         # a law case is thousands of runs of the implementation
    LAW_STEP = {'quick': 500, 'thorough': 4000}
    RULE = ('random ScriptProcess tables under synchronous dynamics: per-element and fixed-rate events with probabilities from '
            '{0, 1/4, 1/2, 3/4, 1}, trial values scripted as multiples of 1/8 so that r == p occurs, posted events interleaved, handlers that '
            'mutate loci; non-trivial = at least 2 steps with a non-empty tranche; distinct by (table, seed).  Laws: SIR, SIS, SIRS, SEIR, '
            'Opinion on random networks of 2-5 nodes (path, star, complete, cycle, random, triangle with tail), dyadic probabilities incl. 0 and 1, '
            'random seed sets, start states reached by 0-3 scripted earlier steps, all 2^n outcome patterns of the n <= 10 trials of the step; '
            'absorption of SIR/SEIR from one or two seeds on fixed 3-4 node networks (thorough: also random ones); non-trivial = a law with at least 2 outcomes')
    TRUSTED = ['Coq 8.16.1 kernel incl. vm_compute', 'harness/kscript.py, harness/kcommon.py, harness/compart.py, harness/c06law.py, vlib/oracle.py']
    ASSUMPTIONS = ['rng.random() is uniform on [0,1): P(r <= p) = p is not formalised; the binomial/geometric laws are theorems about independent Bernoulli(p) trials']

    def gen_cases(self, tier, rnd, n):
        out = []
        for i in range(n):
            tb = kcommon.gen_table(rnd, 'synchronous', maxacts=2, unnamed_ok=True)
            script = {'random': [rnd.randrange(0, 8) / 8.0 for _ in range(400)]}
            out.append({'table': tb, 'dynamics': 'synchronous', 'seed': rnd.randrange(1 << 30), 'script': script, 'prerun': rnd.random() < 0.25})
        out += c06law.gen_absorb_cases(rnd, tier)
        out += c06law.gen_step_cases(rnd, self.LAW_STEP.get(tier, 60))
        return out

    def execute(self, case):
        if case.get('law') == 'step':
            return c06law.execute_step(case)
        if case.get('law') == 'absorb':
            return c06law.execute_absorb(case)
        return kcommon.run_case(case)

    def to_coq(self, case, obs):
        if 'law' in case:
            return None
        return kcommon.to_coq(case, obs)

    def direct(self, case, obs):
        if case.get('law') == 'step':
            return c06law.direct_step(case, obs)
        if case.get('law') == 'absorb':
            return c06law.direct_absorb(case, obs)
        if obs.get('skipped'):
            return []
        if obs['exception']:
            return [{'signature': 'run-raised', 'detail': obs['exception']}]
        v = []
        tb = case['table']
        rands = obs['rands']
        # registration order as the property states it: per-element events of each process in order, then fixed-rate ones
        elem, fixed = [], []
        for pi, p in enumerate(tb['procs']):
            for j, ev in enumerate(p['events']):
                (elem if ev['kind'] == 'elem' else fixed).append((pi, j, ev))
        for k, tr in enumerate(obs['tranches']):
            if tr['t'] != float(k + 1):
                v.append({'signature': 'step-time-not-unit', 'detail': {'step': k, 't': tr['t']}})
            rs = rands[tr['r0']:tr['r1']]
            pos = 0
            exp = []
            ok = True
            for (pi, j, ev) in elem:
                loc = tr['loci']['L%d' % ev['locus']]
                if len(loc) > 0 and ev['p'] > 0.0:
                    for e in sorted(loc):
                        if pos >= len(rs):
                            ok = False
                            break
                        if rs[pos] <= ev['p']:
                            exp.append(['L%d' % ev['locus'], e, None if ev.get('unnamed') else 'ev%d_%d' % (pi, j)])
                        pos += 1
            nfixed = 0
            for (pi, j, ev) in fixed:
                loc = tr['loci']['L%d' % ev['locus']]
                if len(loc) > 0 and ev['p'] > 0.0:
                    if pos >= len(rs):
                        ok = False
                        break
                    if rs[pos] <= ev['p']:
                        exp.append(['L%d' % ev['locus'], None, None if ev.get('unnamed') else 'ev%d_%d' % (pi, j)])
                        nfixed += 1
                    pos += 1
            if not ok or pos != len(rs):
                v.append({'signature': 'wrong-number-of-trials', 'detail': {'step': k, 'consumed': len(rs), 'expected': pos}})
                continue
            got = tr['chosen']
            if len(got) != len(exp) or any(g[0] != x[0] or g[2] != x[2] or (x[1] is not None and g[1] != x[1]) for g, x in zip(got, exp)):
                v.append({'signature': 'tranche-differs-from-trial-outcomes', 'detail': {'step': k, 'chosen': got, 'expected': exp, 'trials': rs}})
                continue
            for g, x in zip(got, exp):
                if x[1] is None and g[1] not in tr['loci'][g[0]]:
                    v.append({'signature': 'fixed-rate-event-element-not-from-locus', 'detail': {'step': k, 'chosen': g}})
            if tr['d1'] - tr['d0'] != nfixed:
                v.append({'signature': 'wrong-number-of-draws', 'detail': {'step': k, 'draws': tr['d1'] - tr['d0'], 'expected': nfixed}})
        # posted events first: when the tranche of step t is drawn no live posted event is due at or before t
        for k, tr in enumerate(obs['tranches']):
            if tr['min_pending'] is not None and tr['min_pending'] <= tr['t']:
                v.append({'signature': 'posted-event-due-not-fired-before-tranche', 'detail': {'step': k, 'due': tr['min_pending']}})
        if obs['time'] is not None and obs['time'] != float(len(obs['tranches']) + 1):
            v.append({'signature': 'end-time-not-steps-plus-one', 'detail': {'TIME': obs['time'], 'steps': len(obs['tranches'])}})
        seen = {}
        for x in v:
            seen.setdefault(x['signature'], x)
        return list(seen.values())

    def nontrivial(self, case, obs):
        if obs.get('skipped'):
            return None
        if 'law' in case:
            if case['law'] == 'step':
                return 'law:' + repr(sorted(case.items(), key=str)) if len(obs.get('law') or {}) >= 2 else None
            return 'law:' + repr(sorted(case.items(), key=str)) if (obs.get('states') or 0) >= 3 else None
        if sum(1 for tr in obs.get('tranches', []) if tr['chosen']) >= 2:
            return str(case['seed'])
        return None

    def sample_view(self, case, obs):
        if 'law' in case:
            return {'case': case, 'observed': {k: v for k, v in obs.items() if not k.startswith('_') and k not in ('example', 'prefixes')}}
        return {'table': case['table'], 'tranches': (obs.get('tranches') or [])[:2], 'TIME': obs.get('time')}
