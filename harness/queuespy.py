"""A generic spy on the posted-event queue of one Dynamics object.  It needs no hooks in the source: the four
queue operations (and runPendingEvents, setUp, simulationEnded) are wrapped ON THE INSTANCE, and every event
function handed to postEvent is wrapped so that its actual firing is seen.  Process.postEvent & co. forward to
`self._dynamics.<op>`, and Dynamics.postRepeatingEvent re-posts through `self.postEvent`, so all of them arrive
here.  The spy only records; the judgement is the direct oracle's (harness/c04.py).

One log per run (a run starts at Dynamics.setUp).  Entries, in the order things happened:

  ['post', clock, t, e, name, id, proc, exc]       id: the id returned (None if it raised); exc: None | 'ValueError' | other name
  ['postrep', clock, t, dt, e, name, series, proc] start of a postRepeatingEvent call (series = its number in the run)
  ['postrep-exit', series, exc]                    its end; the 'post' entries in between are made by the library itself
  ['unpost', clock, id, fatal, result]             result: the time returned | None | 'KeyError' | ...
  ['query', clock, id, result, who]                pendingEventTime; who = 'user' (the run's own call) | 'spy' (a probe
                                                   by the spy itself: after every un-post, of every fired id at the next
                                                   firing, of every id of the run at its end); result: time | 'KeyError'
  ['run-until', clock, bound] / ['run-until-exit', bound, n, exc]     runPendingEvents(bound) -> n
  ['fire', run, id, t_arg, e_arg, clock]           entry of the event function posted under `id` in run `run`
  ['fire-exit', run, id, exc]
  ['rep-enter', run, series, t_arg, e_arg, clock]  entry of the USER's function of a repeating event (it is called by
  ['rep-exit', run, series, exc]                   the library's own re-posting closure, which is what 'fire' sees), so
                                                   a repetition shows as one 'fire' bracket containing one 'rep' bracket
                                                   and, outside the 'rep' bracket, the library's re-post
  ['end', reported_time, clock, pending]           at simulationEnded (before tear-down): metadata TIME, the clock, and
                                                   the contents of dyn._postedEventFinder as [[id, time, element], ...] (None if unreadable)
"""


class Stuck(Exception):
    """the run does not seem to terminate (runPendingEvents called too often) or the log grew beyond its budget"""


def exc_name(e):
    # the exceptions the property names, by class (a subclass is as good); anything else by its own name
    for c in (KeyError, ValueError):
        if isinstance(e, c):
            return c.__name__
    return type(e).__name__


class QueueSpy:
    def __init__(self, dyn, max_run_until=2500, max_log=30000):
        self.dyn = dyn
        self.runs = []            # [{'run': k, 'log': [...]}]
        self.log = []             # the current run's log (entries before the first setUp land in run -1)
        self.run = -1
        self.max_run_until = max_run_until
        self.max_log = max_log
        self._ids = []            # ids returned in the current run
        self._unprobed = []       # fired ids not yet probed
        self._series = 0
        self._n_until = 0
        self._installed = False

    # ------------------------------------------------------------------ helpers
    def _add(self, entry):
        self.log.append(entry)
        if len(self.log) > self.max_log:
            raise Stuck('queue log exceeds %d entries' % self.max_log)

    def _clock(self):
        return self.dyn.currentSimulationTime()

    def _pname(self, p):
        try:
            nm = p.instanceName() if hasattr(p, 'instanceName') else None
        except Exception:
            nm = None
        return type(p).__name__ + ('@' + str(nm) if nm else '')

    def _probe(self, ids):
        for i in ids:
            try:
                r = self._o_query(i)
            except KeyError:
                r = 'KeyError'
            except Exception as x:
                r = exc_name(x)
            self._add(['query', self._clock(), i, r, 'spy'])

    def _begin_run(self):
        self.run += 1
        self.log = []
        self.runs.append({'run': self.run, 'log': self.log})
        self._ids = []
        self._unprobed = []
        self._series = 0
        self._n_until = 0

    # ------------------------------------------------------------------ installation
    def install(self):
        if self._installed:
            return self
        self._installed = True
        d = self.dyn
        o_setup, o_post, o_postrep, o_unpost = d.setUp, d.postEvent, d.postRepeatingEvent, d.unpostEvent
        o_rpe, o_ended = d.runPendingEvents, d.simulationEnded
        self._o_query = o_query = d.pendingEventTime
        spy = self

        def setUp(*args, **kw):
            spy._begin_run()
            return o_setup(*args, **kw)

        def postEvent(t, p, e, ef, *args, **kw):
            # extra arguments are forwarded untouched (the wrappers must not narrow the signatures)
            name = args[0] if args else kw.get('name')
            run = spy.run
            cell = [None]

            def fire(tt, ee):
                spy._probe(spy._unprobed)
                del spy._unprobed[:]
                spy._add(['fire', run, cell[0], tt, ee, spy._clock()])
                exc = None
                try:
                    return ef(tt, ee)
                except BaseException as x:
                    exc = exc_name(x)
                    raise
                finally:
                    if run == spy.run:
                        spy._unprobed.append(cell[0])
                    spy.log.append(['fire-exit', run, cell[0], exc])
            fire.__name__ = getattr(ef, '__name__', 'ef')
            clock = spy._clock()
            try:
                i = o_post(t, p, e, fire, *args, **kw)
            except BaseException as x:
                spy._add(['post', clock, t, e, name, None, spy._pname(p), exc_name(x)])
                raise
            cell[0] = i
            spy._ids.append(i)
            spy._add(['post', clock, t, e, name, i, spy._pname(p), None])
            return i

        def postRepeatingEvent(t, dt, p, e, ef, *args, **kw):
            name = args[0] if args else kw.get('name')
            run = spy.run
            s = spy._series
            spy._series += 1

            def user(tt, ee):
                spy._add(['rep-enter', run, s, tt, ee, spy._clock()])
                exc = None
                try:
                    return ef(tt, ee)
                except BaseException as x:
                    exc = exc_name(x)
                    raise
                finally:
                    spy.log.append(['rep-exit', run, s, exc])
            user.__name__ = getattr(ef, '__name__', 'ef')
            spy._add(['postrep', spy._clock(), t, dt, e, name, s, spy._pname(p)])
            exc = None
            try:
                return o_postrep(t, dt, p, e, user, *args, **kw)
            except BaseException as x:
                exc = exc_name(x)
                raise
            finally:
                spy.log.append(['postrep-exit', s, exc])

        def unpostEvent(id, *args, **kw):
            fatal = args[0] if args else kw.get('fatal', True)
            clock = spy._clock()
            try:
                r = o_unpost(id, *args, **kw)
            except BaseException as x:
                spy._add(['unpost', clock, id, fatal, exc_name(x)])
                spy._probe([id])
                raise
            spy._add(['unpost', clock, id, fatal, r])
            spy._probe([id])
            return r

        def pendingEventTime(id, *args, **kw):
            clock = spy._clock()
            try:
                r = o_query(id, *args, **kw)
            except BaseException as x:
                spy._add(['query', clock, id, exc_name(x), 'user'])
                raise
            spy._add(['query', clock, id, r, 'user'])
            return r

        def runPendingEvents(t, *args, **kw):
            spy._n_until += 1
            if spy._n_until > spy.max_run_until:
                raise Stuck('runPendingEvents called more than %d times in one run' % spy.max_run_until)
            spy._add(['run-until', spy._clock(), t])
            exc = None
            n = None
            try:
                n = o_rpe(t, *args, **kw)
                return n
            except BaseException as x:
                exc = exc_name(x)
                raise
            finally:
                spy.log.append(['run-until-exit', t, n, exc])

        def simulationEnded(res=None, *args, **kw):
            spy._probe(spy._unprobed)
            del spy._unprobed[:]
            spy._probe(list(spy._ids))
            from epydemic import Dynamics
            try:        # private state, read for the report and as a second opinion on the sweep above; None if it cannot be read
                pending = sorted(([i, ev[0], ev[4]] for i, ev in d._postedEventFinder.items()), key=lambda x: (x[1], str(x[0])))
            except Exception:
                pending = None
            spy._add(['end', d.metadata().get(Dynamics.TIME), spy._clock(), pending])
            return o_ended(res, *args, **kw)

        d.setUp = setUp
        d.postEvent = postEvent
        d.postRepeatingEvent = postRepeatingEvent
        d.unpostEvent = unpostEvent
        d.pendingEventTime = pendingEventTime
        d.runPendingEvents = runPendingEvents
        d.simulationEnded = simulationEnded
        return self
