"""C19: addition-deletion keeps its population bookkeeping exact.

Runs AddDelete alone, combined with SIR by multiple inheritance and in a named ProcessSequence with
SIR (the two combinations the repository documents: the classes are loaded from the repository's
own test/test_adddeletesir.py, which carries the cookbook recipe verbatim) under both dynamics with a
scripted random source, and observes after every event: the all-nodes locus, the network, every
node's compartment, the disease's loci, the node created by `add` and every addEdge call it made.

A share of the cases runs a SUB-CLASS of the population process whose deletion kernel (the documented extension point:
override AddDelete.delete) goes through the bulk interface of Process, which doc/process.rst defines in terms of the basic
methods so that sub-classes (AddDelete, the compartmented models) need only override those: see KERNELS.

Tie B: the same run on Model/AddDelete.v over Model/Kernel.v (Tie/C19.v).
D: the property restated on the observations, independent of the Coq model."""
import importlib.util
import itertools
import os

import networkx

from vlib import coqlit as L
from vlib.core import Harness
from vlib.oracle import Oracle, install
from harness import kscript
from harness.kcommon import c_elem

F11 = 'sequence-combination:SI-locus-misses-new-edges'
COMBOS = ('alone', 'inherit', 'inherit_rev', 'sequence')


class OutOfScope(Exception):
    """`add` was about to run with fewer than c other nodes (the property says nothing; the code does not return)"""


class AddLivelock(Exception):
    pass


# ---------------------------------------------------------------- deletion kernels through the bulk interface
# doc/adddelete.rst: other behaviours are obtained by overriding AddDelete.add / AddDelete.delete.  doc/process.rst: the bulk
# methods (removeNodesFrom, removeEdgesFrom ...) are defined in terms of the basic ones (removeNode, removeEdge), "so sub-classes
# need only override those" - AddDelete overrides removeNode to keep its all-nodes locus in step, a compartmented model
# overrides removeNode / removeEdge to keep its loci in step.
#   bulk1        self.removeNodesFrom([n]): by that definition exactly removeNode(n), so the stock model applies
#   household    n and the neighbours it would leave isolated, in one removeNodesFrom call (several nodes leave in one event)
#   edges_first  self.removeEdgesFrom(the edges at n) and then removeNode(n): the same network and loci as removeNode(n)
KERNELS = ('bulk1', 'household', 'edges_first')


def household(n, nodes, edges):
    """who the household kernel removes: n, then its neighbours of degree 1, in the order the network lists them"""
    deg = {}
    for (a, b) in edges:
        deg[a] = deg.get(a, 0) + 1
        deg[b] = deg.get(b, 0) + 1
    nb = {b if a == n else a for (a, b) in edges if n in (a, b)}
    return [n] + [m for m in nodes if m in nb and m != n and deg.get(m, 0) == 1]


def with_kernel(base, kernel):
    """the sub-class of a population class with the given deletion kernel (None: the class itself)"""
    if kernel is None:
        return base
    if kernel == 'bulk1':
        def delete(self, t, n):
            self.removeNodesFrom([n])
    elif kernel == 'household':
        def delete(self, t, n):
            g = self.network()
            self.removeNodesFrom([n] + [m for m in g.neighbors(n) if m != n and g.degree(m) == 1])
    elif kernel == 'edges_first':
        def delete(self, t, n):
            self.removeEdgesFrom(list(self.network().edges(n)))
            self.removeNode(n)
    else:
        raise ValueError(kernel)
    return type('%s_%s' % (base.__name__, kernel), (base,), {'delete': delete})


# ---------------------------------------------------------------- the documented combinations

_loaded = {}


def combination_classes():
    """DynamicSIR and CompartmentedAddDelete as the repository carries them (test/test_adddeletesir.py);
    verbatim copies of the cookbook recipe if that file cannot be loaded."""
    if _loaded:
        return _loaded
    import epydemic
    from epydemic import SIR, AddDelete
    root = os.path.dirname(os.path.dirname(os.path.abspath(epydemic.__file__)))
    path = os.path.join(root, 'test', 'test_adddeletesir.py')
    src = 'repository'
    try:
        spec = importlib.util.spec_from_file_location('verif_repo_test_adddeletesir', path)
        m = importlib.util.module_from_spec(spec)
        spec.loader.exec_module(m)
        dyn, cad = m.DynamicSIR, m.CompartmentedAddDelete
    except Exception:
        src = 'fallback'

        class DynamicSIR(SIR, AddDelete):
            N = 'networkSize'

            def addNewNode(self, **kwds):
                n = super().addNewNode(**kwds)
                self.setCompartment(n, SIR.SUSCEPTIBLE)
                return n

            def removeNode(self, n):
                self.changeCompartment(n, SIR.REMOVED)
                super().removeNode(n)

        class CompartmentedAddDelete(AddDelete):
            N = 'networkSize'
            DISEASE = 'diseaseModel'

            def addNewNode(self, **kwds):
                n = super().addNewNode(**kwds)
                self.container()[self.DISEASE].setCompartment(n, SIR.SUSCEPTIBLE)
                return n

            def removeNode(self, n):
                self.container()[self.DISEASE].changeCompartment(n, SIR.REMOVED)
                super().removeNode(n)
        dyn, cad = DynamicSIR, CompartmentedAddDelete

    class RevDynamicSIR(AddDelete, SIR):
        """the other base-class order, with the same two overrides"""

        def addNewNode(self, **kwds):
            n = super().addNewNode(**kwds)
            self.setCompartment(n, SIR.SUSCEPTIBLE)
            return n

        def removeNode(self, n):
            self.changeCompartment(n, SIR.REMOVED)
            super().removeNode(n)
    _loaded.update(DynamicSIR=dyn, CompartmentedAddDelete=cad, RevDynamicSIR=RevDynamicSIR, source=src)
    return _loaded


# ---------------------------------------------------------------- generation

def gen_graph(rnd, n):
    kind = rnd.choice(['empty', 'path', 'star', 'complete', 'cycle', 'random', 'random'])
    names = list(range(n))
    style = rnd.randrange(4)
    if style == 1:
        names = list(range(1, n + 1))                       # order + 1 is free at the start
    elif style == 2:
        names = sorted(rnd.sample(range(0, 2 * n + 3), n))  # order + 1, order + 2 ... may be taken
    g = networkx.Graph()
    g.add_nodes_from(names)
    if kind == 'path':
        g.add_edges_from((names[i], names[i + 1]) for i in range(n - 1))
    elif kind == 'star':
        g.add_edges_from((names[0], names[i]) for i in range(1, n))
    elif kind == 'complete':
        g.add_edges_from(itertools.combinations(names, 2))
    elif kind == 'cycle':
        g.add_edges_from((names[i], names[(i + 1) % n]) for i in range(n) if n > 2)
    elif kind == 'random':
        p = rnd.choice([0.3, 0.6])
        for a, b in itertools.combinations(names, 2):
            if rnd.random() < p:
                g.add_edge(*((a, b) if rnd.random() < 0.5 else (b, a)))
    return {'nodes': list(g.nodes()), 'edges': [list(e) for e in g.edges()], 'kind': kind}


def gen_case(rnd, combo=None, dynamics=None, regime=None, more=None, kernel=None):
    combo = combo or rnd.choice(['alone', 'alone', 'inherit', 'inherit', 'inherit_rev', 'sequence', 'sequence'])
    dynamics = dynamics or rnd.choice(['stochastic', 'stochastic', 'synchronous'])
    regime = regime or rnd.choice(['growth', 'decay', 'mixed', 'mixed', 'mixed', 'mixed', 'static'])
    c = rnd.randrange(0, 4)
    if regime == 'decay':
        n = rnd.randrange(0, 9)
    else:
        n = rnd.randrange(max(c, 0), 9)            # at least c others for the first addition
        if n == 0 and rnd.random() < 0.7:
            n = rnd.randrange(1, 9)                 # an empty all-nodes locus never fires anything
    sync = dynamics == 'synchronous'
    hi = [0.5, 1.0, 1.0] if sync else [0.5, 1.0, 2.0]
    if regime == 'growth':
        pa, pd = rnd.choice(hi), 0.0
    elif regime == 'decay':
        pa, pd = 0.0, rnd.choice([1.0, 2.0, 4.0] if not sync else [1.0])
    elif regime == 'static':
        pa, pd = 0.0, 0.0         # both rates zero: the population only changes through other components, the locus still mirrors it
    else:
        pa, pd = rnd.choice(hi), rnd.choice(hi)
    if regime == 'decay':
        maxtime = rnd.choice([6.0, 10.0]) if not sync else float(n + 3)
    else:
        maxtime = rnd.choice([2.0, 3.0, 5.0]) if not sync else rnd.choice([3.0, 5.0, 7.0])
    case = {'combo': combo, 'dynamics': dynamics, 'regime': regime, 'graph': gen_graph(rnd, n), 'c': c,
            'pAdd': pa, 'pDelete': pd, 'maxtime': maxtime, 'seed': rnd.randrange(1 << 30),
            'pv': {'pSeed': rnd.choice([0.0, 0.25, 0.5, 0.5, 1.0]), 'pInfect': rnd.choice([0.0, 0.25, 0.5, 1.0]),
                   'pRemove': rnd.choice([0.0, 0.25, 0.5])}}
    # histories: the SAME process and dynamics objects are run again (each run starts from a fresh copy of the
    # prototype network); a run with deletions first, runs with additions after it
    if more is None:
        more = rnd.random() < 0.3 and n >= 1
    if more:
        if regime == 'growth':
            case['regime'] = regime = rnd.choice(['decay', 'mixed'])
            case['pAdd'] = 0.0 if regime == 'decay' else rnd.choice(hi)
            case['pDelete'] = rnd.choice([1.0, 2.0] if not sync else [1.0])
            case['maxtime'] = (rnd.choice([3.0, 6.0]) if not sync else rnd.choice([3.0, 5.0]))
        case['more'] = []
        for _ in range(rnd.choice([1, 1, 2])):
            c2 = rnd.randrange(0, min(3, n) + 1)
            case['more'].append({'c': c2, 'pAdd': rnd.choice(hi), 'pDelete': rnd.choice([0.0, 0.0, 0.5, 1.0]),
                                 'maxtime': rnd.choice([2.0, 3.0]) if not sync else rnd.choice([3.0, 4.0]),
                                 'seed': rnd.randrange(1 << 30)})
    # a deletion kernel through the bulk interface (drawn last: the cases without one are what they were); only where
    # deletions happen; the sequence recipe does not route removeEdge to the disease, so edges_first is not its business
    if kernel is None and case['pDelete'] > 0 and rnd.random() < 0.3:
        kernel = rnd.choice(['bulk1', 'household', 'household', 'edges_first'])
    if kernel == 'edges_first' and combo == 'sequence':
        kernel = 'bulk1'
    if kernel is not None:
        case['kernel'] = kernel
    return case


# ---------------------------------------------------------------- running the implementation

def run_case(case):
    import epyc
    import epydemic as ep
    from epydemic import Dynamics, SynchronousDynamics, ProcessSequence, SIR, AddDelete, Process
    import epydemic.stochasticdynamics as sd
    cls = combination_classes()
    combo = case['combo']
    kernel = case.get('kernel')
    g = networkx.Graph()
    g.add_nodes_from(case['graph']['nodes'])
    g.add_edges_from([tuple(e) for e in case['graph']['edges']])
    params = {}
    pv = case['pv']
    disease = None
    via_disease = False
    if combo == 'alone':
        pop = with_kernel(AddDelete, kernel)()
        top = pop
        procs = [pop]
    else:
        params.update({SIR.P_INFECTED: pv['pSeed'], SIR.P_INFECT: pv['pInfect'], SIR.P_REMOVE: pv['pRemove']})
        if combo == 'inherit':
            pop = with_kernel(cls['DynamicSIR'], kernel)()
            top = disease = pop
            procs = [pop]
        elif combo == 'inherit_rev':
            pop = with_kernel(cls['RevDynamicSIR'], kernel)()
            top = disease = pop
            procs = [pop]
        else:
            cad = with_kernel(cls['CompartmentedAddDelete'], kernel)
            disease = SIR()
            pop = cad()
            top = ProcessSequence({cad.DISEASE: disease, 'adddelete': pop})
            procs = [disease, pop]
            via_disease = getattr(cad, 'addEdge') is not Process.addEdge     # does the recipe route edges?
    dcls = ep.StochasticDynamics if case['dynamics'] == 'stochastic' else ep.SynchronousDynamics
    dyn = dcls(top, g)
    index = {id(p): i for i, p in enumerate(procs)}
    compvar = disease.COMPARTMENT if disease is not None else None
    state = {'in_add': None}

    def lociview():
        return {k: list(l) for k, l in dyn.loci().items()}

    def comps():
        net = dyn.network()
        if compvar is None:
            return {}
        return {n: net.nodes[n].get(compvar) for n in net.nodes()}

    def lindex(l):
        for i, x in enumerate(dyn.loci().values()):
            if x is l:
                return i
        return -1

    # every addEdge call made on the population process (add calls self.addEdge)
    orig_add_edge = pop.addEdge

    def add_edge(n, m, **kw):
        if state['in_add'] is not None:
            state['in_add']['calls'].append((n, m))
        return orig_add_edge(n, m, **kw)
    pop.addEdge = add_edge

    def one_run(rp):
        top.setMaximumTime(rp['maxtime'])
        orc = Oracle(seed=rp['seed'])
        rec = kscript.Recorder()
        entries, snaps, layout = [], [], {'procs': [], 'loci': []}

        def wrap(k, locus, ef):
            fn = getattr(ef, '__name__', str(ef))

            def w(t, e):
                net = dyn.network()
                en = {'k': k, 'fn': fn, 't': t, 'e': e, 'member': e in locus, 'd0': len(rec.draws), 'calls': [],
                      'nodes_before': list(net.nodes()), 'edges_before': [tuple(x) for x in net.edges()]}
                if fn == 'add':
                    others = len(pop.locus(AddDelete.NODES))
                    if others < rp['c']:
                        raise OutOfScope('%d other nodes, degree %d' % (others, rp['c']))
                    state['in_add'] = en
                entries.append(en)
                try:
                    return ef(t, e)
                finally:
                    state['in_add'] = None
                    en['d1'] = len(rec.draws)
            w.__name__ = fn
            return w

        started = {}

        def sim_started(params_):
            started['rand'] = len(orc.values('random'))
            k = 0
            for p in top.allProcesses():
                evs = []
                for attr, kind in (('_perElementEvents', 'elem'), ('_perLocusEvents', 'fixed')):
                    new = []
                    for (l, pr, ef, name) in getattr(p, attr):
                        evs.append({'k': k, 'kind': kind, 'li': lindex(l), 'p': pr, 'fn': getattr(ef, '__name__', str(ef))})
                        new.append((l, pr, wrap(k, l, ef), name))
                        k += 1
                    setattr(p, attr, new)
                layout['procs'].append(evs)
            for nm, l in dyn.loci().items():
                if isinstance(l, ep.CompartmentedEdgeLocus):
                    layout['loci'].append([nm, 'edge', l._left, l._right])
                elif isinstance(l, ep.CompartmentedNodeLocus):
                    layout['loci'].append([nm, 'node', l._compartment])
                else:
                    layout['loci'].append([nm, 'plain'])
            net = dyn.network()
            started.update(comps=comps(), loci=lociview(), nodes=list(net.nodes()), edges=[tuple(e) for e in net.edges()])
        dyn.simulationStarted = sim_started

        def tap(t, p, name, e):
            net = dyn.network()
            snaps.append({'t': t, 'pi': index.get(id(p), -1), 'e': e, 'nodes': list(net.nodes()), 'edges': [tuple(x) for x in net.edges()],
                          'comps': comps(), 'loci': lociview(), 'entry': len(entries) - 1})
            if len(snaps) > 120:
                raise kscript.Budget('run exceeds the harness budget')
        dyn.eventFired = tap
        final = {}

        def ended(res):
            net = dyn.network()
            final.update(nodes=list(net.nodes()), edges=[tuple(e) for e in net.edges()], comps=comps(), loci=lociview())
        dyn.simulationEnded = ended

        # DrawSet.draw: record the rank, and stop a draw loop that does not end
        install(orc)
        kscript.install_draw_recorder(rec)
        recording_draw = ep.DrawSet.draw

        def guarded_draw(self):
            en = state['in_add']
            if en is not None and len(rec.draws) - en['d0'] > 400:
                raise AddLivelock('more than 400 draws inside one add')
            return recording_draw(self)
        ep.DrawSet.draw = guarded_draw
        saved_math = sd.math
        sd.math = kscript.LogShim(rec)
        exc = None
        rc = None
        try:
            rc = dyn.set(dict(params, **{AddDelete.P_ADD: rp['pAdd'], AddDelete.P_DELETE: rp['pDelete'], AddDelete.DEGREE: rp['c']})).run(fatal=True)
        except Exception as e:
            exc = type(e).__name__ + ': ' + str(e)
        finally:
            sd.math = saved_math
            kscript.uninstall_draw_recorder()
        md = (rc or {}).get(epyc.Experiment.METADATA, {}) if rc else {}
        res = (rc or {}).get(epyc.Experiment.RESULTS, {}) if rc else {}
        inside = set()
        for en in entries:
            if en['fn'] == 'add':
                inside.update(range(en['d0'], en.get('d1', en['d0'])))
        obs = {'exception': exc, 'entries': entries, 'snaps': snaps, 'layout': layout, 'started': started, 'final': final,
               'via_disease': via_disease, 'classes': cls['source'],
               'results': {k: v for k, v in res.items() if isinstance(v, (int, float))} if isinstance(res, dict) else {},
               'time': md.get(Dynamics.TIME), 'events': md.get(Dynamics.EVENTS), 'steps': md.get(SynchronousDynamics.TIMESTEPS_WITH_EVENTS, 0),
               'rands': [e[1] for e in orc.values('random')], 'lns': list(rec.logs),
               'draws': [d[1] for i, d in enumerate(rec.draws) if i not in inside],
               'adraws': [d[1] for i, d in enumerate(rec.draws) if i in inside],
               'codes': {SIR.SUSCEPTIBLE: 1, SIR.INFECTED: 2, SIR.REMOVED: 3}, 'c': rp['c'], 'maxtime': rp['maxtime'], 'proto_nodes': list(g.nodes())}
        if exc and (exc.startswith('Budget') or exc.startswith('OutOfScope')):
            obs['skipped'] = exc.split(':')[0]
        obs['stats'] = {'additions': sum(1 for en in entries if en['fn'] == 'add'), 'deletions': sum(1 for en in entries if en['fn'] == 'delete'),
                        'disease_events': sum(1 for en in entries if en['fn'] not in ('add', 'delete')),
                        'draws_inside_add': len(obs['adraws']), 'redraws_inside_add': max(0, len(obs['adraws']) - rp['c'] * sum(1 for en in entries if en['fn'] == 'add')),
                        'runs_down_to_empty_network': int(bool(final) and not final.get('nodes') and bool(case['graph']['nodes'])),
                        'dropped_out_of_scope': int(obs.get('skipped') == 'OutOfScope'), 'dropped_budget': int(obs.get('skipped') == 'Budget')}
        return obs

    runs = []
    for rp in [case] + list(case.get('more', [])):
        o = one_run(rp)
        if o.get('skipped') and runs:
            break                                  # keep the completed runs of the history
        runs.append(o)
        if o.get('skipped') or o['exception']:
            break
    out = {'runs': runs, 'stats': {}}
    for o in runs:
        for k, v in o['stats'].items():
            out['stats'][k] = out['stats'].get(k, 0) + v
    out['stats']['second_and_later_runs'] = len(runs) - 1
    if kernel:
        out['stats']['cases_with_delete_kernel:' + kernel] = 1
        if kernel == 'household':
            several = 0
            for o in runs:
                prev = len((o.get('started') or {}).get('nodes') or [])
                for s in o['snaps']:
                    if o['entries'][s['entry']]['fn'] == 'delete' and prev - len(s['nodes']) > 1:
                        several += 1
                    prev = len(s['nodes'])
            out['stats']['household_deletions_of_several_nodes'] = several
    if runs[0].get('skipped'):
        out['skipped'] = runs[0]['skipped']
    return out


# ---------------------------------------------------------------- D

def und(e):
    a, b = e
    return (a, b) if a <= b else (b, a)


def direct_run(case, obs):
    from epydemic import SIR
    if obs.get('skipped'):
        return []
    combo = case['combo']
    kernel = case.get('kernel')
    label = combo + ('+' + kernel if kernel else '')
    if obs['exception']:
        sig = 'add-draw-loop-did-not-terminate' if obs['exception'].startswith('AddLivelock') else 'run-raised:' + obs['exception'].split(':')[0]
        return [{'signature': sig + ':' + label, 'detail': obs['exception']}]
    v = []

    def bad(sig, **detail):
        v.append({'signature': sig + ':' + label, 'detail': detail})
    c = obs['c']
    st = obs['started']
    prev_nodes, prev_edges = list(st['nodes']), {und(e) for e in st['edges']}
    if len(obs['snaps']) != len(obs['entries']):
        bad('event-function-entries-and-taps-differ', entries=len(obs['entries']), taps=len(obs['snaps']))
        return v
    # at the start
    if sorted(st['nodes']) != sorted(obs['proto_nodes']):
        bad('run-does-not-start-from-the-prototype-network', nodes=st['nodes'], prototype=obs['proto_nodes'])
    if sorted(st['loci'].get('allnodes', [])) != sorted(st['nodes']):
        bad('locus-differs-from-node-set', at='start', locus=st['loci'].get('allnodes'), nodes=st['nodes'])
    adds = dels = 0
    untracked = set()          # edges made by add in a combination in which the disease is not told
    points = [(None, {'nodes': st['nodes'], 'edges': st['edges'], 'comps': st['comps'], 'loci': st['loci'], 't': 0.0})]
    points += [(obs['entries'][s['entry']], s) for s in obs['snaps']]
    for en, s in points:
        nodes, edges = list(s['nodes']), {und(e) for e in s['edges']}
        where = {'t': s['t'], 'event': en and en['fn'], 'element': en and en['e']}
        if en is not None:
            # (1) the locus is the node set
            loc = s['loci'].get('allnodes', [])
            if sorted(loc) != sorted(nodes) or len(set(nodes)) != len(nodes):
                bad('locus-differs-from-node-set', locus=loc, nodes=nodes, **where)
            if en['fn'] == 'add':
                adds += 1
                new = [n for n in nodes if n not in prev_nodes]
                if len(new) != 1 or len(nodes) != len(prev_nodes) + 1 or any(n not in nodes for n in prev_nodes):
                    bad('add-did-not-add-exactly-one-unused-name', before=prev_nodes, after=nodes, **where)
                else:
                    i = new[0]
                    nb = [b if a == i else a for (a, b) in edges if i in (a, b)]
                    others = len(prev_nodes)
                    if (i, i) in edges:
                        bad('new-node-linked-to-itself', node=i, **where)
                    if sorted(set(nb) - {i}) != sorted(nb) or len(nb) != c or any(j not in prev_nodes for j in nb):
                        if others >= c:
                            bad('new-node-degree-is-not-c', node=i, neighbours=nb, c=c, others=others, **where)
                    if {e for e in edges if i not in e} != prev_edges:
                        bad('add-changed-other-edges', before=sorted(prev_edges), after=sorted(edges), **where)
                    if sorted(und(e) for e in en['calls']) != sorted(e for e in edges if i in e):
                        bad('new-edges-are-not-the-addEdge-calls', calls=en['calls'], **where)
                    if combo != 'alone' and s['comps'].get(i) != SIR.SUSCEPTIBLE:
                        bad('new-node-not-susceptible', node=i, compartment=s['comps'].get(i), **where)
                    if combo == 'sequence' and not obs['via_disease']:
                        untracked |= {e for e in edges if i in e}
            elif en['fn'] == 'delete':
                n = en['e']
                # who leaves: the node (the stock kernel, bulk1, edges_first); with it the neighbours it leaves isolated (household)
                gone = household(n, prev_nodes, prev_edges) if kernel == 'household' else [n]
                dels += len(gone)
                if n not in prev_nodes or sorted(nodes) != sorted(x for x in prev_nodes if x not in gone):
                    bad('delete-did-not-remove-exactly-its-node', node=n, leaving=gone, before=prev_nodes, after=nodes, **where)
                if edges != {e for e in prev_edges if e[0] not in gone and e[1] not in gone}:
                    bad('delete-did-not-remove-exactly-the-incident-edges', node=n, leaving=gone, before=sorted(prev_edges), after=sorted(edges), **where)
            else:
                if sorted(nodes) != sorted(prev_nodes) or edges != prev_edges:
                    bad('disease-event-changed-the-network', **where)
        # (2) the coupled model's compartments and loci
        if combo != 'alone':
            comp = s['comps']
            lost = {n: comp.get(n) for n in nodes if comp.get(n) not in (SIR.SUSCEPTIBLE, SIR.INFECTED, SIR.REMOVED)}
            if lost:
                bad('node-without-compartment', nodes=lost, **where)
            true_i = sorted(n for n in nodes if comp.get(n) == SIR.INFECTED)
            if sorted(s['loci'].get(SIR.INFECTED, [])) != true_i:
                bad('disease-locus-differs-from-truth:I', locus=s['loci'].get(SIR.INFECTED), truth=true_i, **where)
            true_si = set()
            for (a, b) in edges:
                for x, y in ((a, b), (b, a)):
                    if comp.get(x) == SIR.SUSCEPTIBLE and comp.get(y) == SIR.INFECTED:
                        true_si.add((x, y))
            si = [tuple(e) for e in s['loci'].get(SIR.SI, [])]
            if set(si) != true_si or len(set(si)) != len(si):
                missing, extra = true_si - set(si), set(si) - true_si
                if combo == 'sequence' and not extra and len(set(si)) == len(si) and missing and all(und(e) in untracked for e in missing):
                    v.append({'signature': F11, 'detail': dict(where, SI=si, truth=sorted(true_si), missing=sorted(missing))})
                else:
                    bad('disease-locus-differs-from-truth:SI', locus=si, truth=sorted(true_si), **where)
        prev_nodes, prev_edges = nodes, edges
        # an edge that left the network is not "untracked" any more
        untracked &= edges
    fin = obs['final']
    if fin:
        if len(fin['nodes']) != len(st['nodes']) + adds - dels:
            bad('final-order-arithmetic', initial=len(st['nodes']), adds=adds, deletes=dels, final=len(fin['nodes']))
        if sorted(fin['loci'].get('allnodes', [])) != sorted(fin['nodes']):
            bad('locus-differs-from-node-set', at='end', locus=fin['loci'].get('allnodes'), nodes=fin['nodes'])
        ns = obs['results'].get('networkSize')
        if ns is not None and ns != len(fin['nodes']):
            bad('reported-network-size-wrong', reported=ns, order=len(fin['nodes']))
        # "nodes enter and leave that model's compartments consistently": the coupled model reports, per compartment, the
        # number of nodes of the FINAL network that are in it (deleted nodes are in none)
        if combo != 'alone' and fin.get('comps') is not None:
            for c in (SIR.SUSCEPTIBLE, SIR.INFECTED, SIR.REMOVED):
                rep = obs['results'].get(c)
                truth = sum(1 for n in fin['nodes'] if fin['comps'].get(n) == c)
                if rep is not None and rep != truth:
                    bad('reported-compartment-size-wrong', compartment=c, reported=rep, truth=truth, order=len(fin['nodes']),
                        deletions=dels, combination=combo)
                    break
    seen = {}
    for x in v:
        seen.setdefault(x['signature'], x)
    return list(seen.values())


def direct(case, obs):
    """D on every run of the history (the same objects run again), first signature of each kind kept"""
    if obs.get('skipped'):
        return []
    seen = {}
    for ri, o in enumerate(obs['runs']):
        for x in direct_run(case, o):
            x = dict(x)
            x['detail'] = {'run': ri, 'of': len(obs['runs']), 'what': x.get('detail')}
            seen.setdefault(x['signature'], x)
    return list(seen.values())


# ---------------------------------------------------------------- rendering for Tie/C19.v

BAD = ('{| c_cfg := {| ac_combo := Alone; ac_deg := 0%nat; ac_tbl := []; ac_li := 0%nat; ac_off := 0%nat; ac_S := 1%Z; ac_R := 3%Z |}; '
       'c_procs := []; c_nloci := 0%nat; c_nodes := []; c_edges := []; c_init := []; c_maxtime := 0; c_sync := false; c_fuel := 0%nat; c_rands := []; '
       'c_lns := []; c_draws := []; c_adraws := []; o_snaps := []; o_handlers := []; o_taps := []; o_final_loci := []; o_time := 0; '
       'o_events := 0%nat; o_steps := 0%nat; o_ok := false |}')


def to_coq_run(case, obs):
    from epydemic import SIR
    if obs.get('skipped'):
        return None
    if obs['exception'] is not None or obs['time'] is None or not obs['started'] or len(obs['snaps']) != len(obs['entries']):
        return BAD
    combo = case['combo']
    if case.get('kernel') == 'household':
        # the model's delete removes one node: a run in which one event took several is judged by D alone (counted); a run
        # in which every household was the node itself made exactly the calls of bulk1, i.e. removeNode(n) by the documented
        # definition of removeNodesFrom, and is compared like any other
        prev = len(obs['started']['nodes'])
        for s in obs['snaps']:
            if obs['entries'][s['entry']]['fn'] == 'delete' and prev - len(s['nodes']) > 1:
                return None
            prev = len(s['nodes'])
    code = obs['codes']
    lay = obs['layout']
    names = [l[0] for l in lay['loci']]
    li = names.index('allnodes')
    dis = [j for j, l in enumerate(lay['loci']) if l[1] != 'plain']
    if dis and dis != list(range(dis[0], dis[0] + len(dis))):
        return BAD
    off = dis[0] if dis else 0
    tbl = []
    for j in dis:
        l = lay['loci'][j]
        tbl.append('(NodeLocus %s)' % L.z(code[l[2]]) if l[1] == 'node' else '(EdgeLocus %s %s)' % (L.z(code[l[2]]), L.z(code[l[3]])))
    cmb = {'alone': 'Alone', 'inherit': 'Inherit', 'inherit_rev': 'Inherit'}.get(combo) or '(Sequence %s)' % L.b(obs['via_disease'])
    cfg = '{| ac_combo := %s; ac_deg := %s; ac_tbl := %s; ac_li := %s; ac_off := %s; ac_S := %s; ac_R := %s |}' % (
        cmb, L.nat(max(0, obs['c'])), L.lst(tbl), L.nat(li), L.nat(off), L.z(code[SIR.SUSCEPTIBLE]), L.z(code[SIR.REMOVED]))

    def pk(fn):
        if fn == 'add':
            return 'PAdd'
        if fn == 'delete':
            return 'PDelete'
        if fn == 'infect':
            return '(PDisease (HLeft %s true None))' % L.z(code[SIR.INFECTED])
        if fn == 'remove':
            return '(PDisease (HNode %s))' % L.z(code[SIR.REMOVED])
        raise KeyError(fn)
    procs = []
    for evs in lay['procs']:
        procs.append(L.lst(['{| ae_elem := %s; ae_locus := %s; ae_p := %s; ae_kind := %s |}' % (
            L.b(e['kind'] == 'elem'), L.nat(e['li']), L.q(e['p']), pk(e['fn'])) for e in evs]))
    st = obs['started']
    init = [(n, code[st['comps'][n]]) for n in st['nodes'] if st['comps'].get(n) in code] if combo != 'alone' else []
    dnames = [names[j] for j in dis]

    def osnap(en, s, prev_nodes):
        if en['fn'] == 'add':
            new = [n for n in s['nodes'] if n not in prev_nodes]
            i = new[0] if len(new) == 1 else -1
            kind = '(KAdd %s %s)' % (L.z(i), L.lst([m if n == i else n for (n, m) in en['calls']], L.z))
        elif en['fn'] == 'delete':
            kind = '(KDelete %s)' % L.z(en['e'])
        else:
            kind = '(KDisease %s %s)' % (L.nat(en['k']), c_elem(en['e']))
        comp = ['(%s, %s)' % (L.z(n), L.opt(code.get(s['comps'].get(n)), L.z)) for n in s['nodes']]
        return ('{| os_kind := %s; os_all := %s; os_nodes := %s; os_edges := %s; os_comp := %s; os_loci := %s |}' % (
            kind, L.lst(s['loci'].get('allnodes', []), L.z), L.lst(s['nodes'], L.z), L.lst(s['edges'], L.zpair), L.lst(comp),
            L.lst([L.lst(s['loci'][nm], c_elem) for nm in dnames])))
    snaps = []
    prev = st['nodes']
    for s in obs['snaps']:
        snaps.append(osnap(obs['entries'][s['entry']], s, prev))
        prev = s['nodes']
    handlers = ['(%s, %s, %s, %s)' % (L.nat(en['k']), L.q(en['t']), c_elem(en['e']), L.b(en['member'])) for en in obs['entries']]
    taps = ['(%s, %s, false, %s)' % (L.q(s['t']), L.nat(max(0, s['pi'])), c_elem(s['e'])) for s in obs['snaps']]
    fin = obs['final']
    return ('{| c_cfg := %s; c_procs := %s; c_nloci := %s; c_nodes := %s; c_edges := %s; c_init := %s; c_maxtime := %s; c_sync := %s; c_fuel := %s; '
            'c_rands := %s; c_lns := %s; c_draws := %s; c_adraws := %s; o_snaps := %s; o_handlers := %s; o_taps := %s; o_final_loci := %s; '
            'o_time := %s; o_events := %s; o_steps := %s; o_ok := true |}') % (
        cfg, L.lst(procs), L.nat(len(names)), L.lst(st['nodes'], L.z), L.lst(st['edges'], L.zpair), L.lst(init, L.zpair),
        L.q(obs['maxtime']), L.b(case['dynamics'] == 'synchronous'),
        L.nat(int(obs['maxtime']) + 2 if case['dynamics'] == 'synchronous' else len(obs['rands']) - st['rand'] + 2),
        L.lst(obs['rands'][st['rand']:], L.q), L.lst(obs['lns'], L.q), L.lst([max(0, d) for d in obs['draws']], L.nat),
        L.lst([max(0, d) for d in obs['adraws']], L.nat), L.lst(snaps), L.lst(handlers), L.lst(taps),
        L.lst([L.lst(fin['loci'][nm], c_elem) for nm in names]), L.q(obs['time']), L.nat(obs['events']), L.nat(obs.get('steps') or 0))


def to_coq(case, obs):
    """one term per run: the model is restarted from the network each run started with"""
    if obs.get('skipped'):
        return None
    ts = [to_coq_run(case, o) for o in obs['runs'] if not o.get('skipped')]
    ts = [t for t in ts if t is not None]
    return L.lst(ts) if ts else None


class H(Harness):
    ID = 'C19'
    ANCHOR_FILES = ['epydemic/adddelete.py', 'epydemic/process.py', 'epydemic/compartmentedmodel.py', 'epydemic/stochasticdynamics.py']
    TIE_IMPORT = 'From EpyV Require Import Model.Kernel Model.Loci Model.Compart Model.AddDelete Tie.C19.\nOpen Scope Q_scope.'
    CHECK_FN = 'EpyV.Tie.C19.check_runs'
    QUICK_N = 1000
    THOROUGH_N = 4000
    CASE_TIMEOUT = 20
    ALLOWED_AXIOMS = set()
    RULE = ('whole runs of AddDelete alone / DynamicSIR(SIR, AddDelete) and the reverse base order / ProcessSequence{SIR, CompartmentedAddDelete} '
            '(classes loaded from /repo/test/test_adddeletesir.py) on networks of 0-8 nodes (empty, path, star, complete, cycle, random; names 0.., 1.. or '
            'scattered so that order+1 is sometimes taken), degree c in 0-3, pure growth / pure decay to the empty network / mixed rates, dyadic '
            'SIR parameters incl. 0 and 1, stochastic and synchronous dynamics, scripted random source; 30 % of the cases with deletions run a sub-class whose '
            'delete kernel goes through the bulk interface (removeNodesFrom([n]); n with the neighbours it leaves isolated in one removeNodesFrom; '
            'removeEdgesFrom(edges at n) then removeNode(n) - not in the sequence recipe), each also directed per combination and dynamics; household runs in '
            'which one event removed several nodes are judged by D only; runs in which add would start with fewer than '
            'c other nodes are outside the property and dropped; non-trivial = at least one addition or deletion; distinct by the whole case')
    TRUSTED = ['Coq 8.16.1 kernel incl. vm_compute', 'harness/c19.py (wrapping of the registered event functions, eventFired tap, addEdge calls of the population process, DrawSet.draw ranks)',
               'networkx Graph (add_node, remove_node, add_edge, edges) modelled as node list + undirected edge list',
               'the layout (order of loci and events, what each disease locus tracks, whether the recipe routes addEdge to the disease) is read off the live objects of each run']
    ASSUMPTIONS = ['node names are Python ints', 'DrawSet enumerates in ascending order and draw returns the element of the recorded rank (C09)',
                   'the draw loop of add terminates only if the random source eventually yields c distinct other nodes (C19_add_progress); with fewer than c other nodes it never returns']

    def gen_cases(self, tier, rnd, n):
        out = []
        # directed: every combination x dynamics x regime first, then random
        for combo in COMBOS:
            for dynamics in ('stochastic', 'synchronous'):
                for regime in ('growth', 'decay', 'mixed', 'static'):
                    out.append(gen_case(rnd, combo, dynamics, regime))
        # ... every deletion kernel through the bulk interface, in every combination it applies to
        for combo in COMBOS:
            for dynamics in ('stochastic', 'synchronous'):
                for kernel in KERNELS:
                    if not (kernel == 'edges_first' and combo == 'sequence'):
                        out.append(gen_case(rnd, combo, dynamics, rnd.choice(['decay', 'mixed', 'mixed']), kernel=kernel))
        directed = len(out)
        while len(out) < n:
            out.append(gen_case(rnd))
        return out[:max(n, directed)]

    def exhaustive_cases(self, tier):
        # the witness of F11 / C19_sequence_refuted: complete graph on 4 infected nodes, additions only
        out = []
        g = {'nodes': [0, 1, 2, 3], 'edges': [list(e) for e in itertools.combinations(range(4), 2)], 'kind': 'complete'}
        for combo in COMBOS:
            out.append({'combo': combo, 'dynamics': 'stochastic', 'regime': 'growth', 'graph': g, 'c': 2, 'pAdd': 1.0, 'pDelete': 0.0,
                        'maxtime': 1.5, 'seed': 7, 'pv': {'pSeed': 1.0, 'pInfect': 0.0, 'pRemove': 0.0}})
        return out

    def execute(self, case):
        return run_case(case)

    def direct(self, case, obs):
        return direct(case, obs)

    def to_coq(self, case, obs):
        return to_coq(case, obs)

    def nontrivial(self, case, obs):
        if obs.get('skipped') or any(o.get('exception') for o in obs['runs']):
            return None
        n = sum(1 for o in obs['runs'] for en in o['entries'] if en['fn'] in ('add', 'delete'))
        return str(sorted(case.items(), key=str)) if n >= 1 else None

    def sample_view(self, case, obs):
        return {'case': case, 'skipped': obs.get('skipped'),
                'runs': [{'events': [(en['fn'], en['e'], en.get('calls')) for en in o.get('entries', [])][:8],
                          'final_nodes': (o.get('final') or {}).get('nodes')} for o in obs.get('runs', [])]}
