"""C20: pulse-coupled oscillators always have exactly one scheduled firing.

Tie B: whole runs of PulseCoupledOscillator under both dynamics with scripted initial states; the
numeric maps (decimal round(x, 5), phaseToState, stateToPhase) are NOT taken from the implementation:
the harness records the ARGUMENT of every call and recomputes the value from the formula; those values
are the oracle of Model/Pulse.v.  Compared by vm_compute (Tie/C20.v): the argument of every numeric
call (the model computes them exactly), the event id and pending time of every node after set-up and
after every event, the FIRED taps, the firing log, the final phases, time and event count.

D: the property restated on the implementation's observables only (no model): after set-up and after
every event each node has exactly one live posted event and its 'event' attribute names it; it is due
at most one period (+5e-6) after the current time; the node that fired is due one period later; the log
is non-decreasing and matches the FIRED taps one to one; final phases in [0, 1]; on complete networks
the number of distinct pending times never increases and the largest group never shrinks, sampled
whenever no node is due at the current time (i.e. after every batch of same-time firings)."""
import itertools
import math
from fractions import Fraction

import networkx

from vlib import coqlit as L
from vlib.core import Harness
from vlib.oracle import Oracle, install, uninstall

PREC = 5
SLACK = 5e-6


# ---------------------------------------------------------------- the formulas, from the paper / docstrings
def f_state(b, phi):            # f (2.15)
    return (1 / b) * math.log(1 + (math.exp(b) - 1) * phi)


def f_phase(b, u):              # g (2.14)
    return (math.exp(b * u) - 1) / (math.exp(b) - 1)


def make_graph(desc):
    g = networkx.Graph()
    g.add_nodes_from(desc['nodes'])
    g.add_edges_from([tuple(e) for e in desc['edges']])
    return g


def gen_graph(rnd, kind=None, lo=2, hi=8):
    n = rnd.randrange(lo, hi + 1)
    kind = kind or rnd.choice(['complete', 'complete', 'cycle', 'star', 'random', 'random', 'loops'])
    labels = list(range(n))
    if rnd.random() < 0.3:
        rnd.shuffle(labels)                      # node order of the network differs from numeric order
    edges = []
    if kind == 'complete':
        edges = list(itertools.combinations(range(n), 2))
    elif kind == 'cycle':
        edges = [(i, (i + 1) % n) for i in range(n)] if n > 2 else [(0, 1)]
    elif kind == 'star':
        edges = [(0, i) for i in range(1, n)]
    else:
        p = rnd.choice([0.3, 0.5, 0.8])
        edges = [e for e in itertools.combinations(range(n), 2) if rnd.random() < p]
        if kind == 'loops':
            edges += [(i, i) for i in range(n) if rnd.random() < 0.4]
    return {'kind': kind, 'nodes': labels, 'edges': [list(e) for e in edges]}


# ---------------------------------------------------------------- running the implementation
class Budget(Exception):
    pass


def run_case(case, budget=140):
    import epyc
    import epydemic
    from epydemic import PulseCoupledOscillator, StochasticDynamics, SynchronousDynamics, Dynamics

    g = make_graph(case['graph'])
    nodes = list(g.nodes())
    calls = []        # numeric calls in call order: [kind, argument(s), what the implementation returned]
    orders = []       # per fired event: the nodes handed to cascade, in order
    fired_calls = []  # (t, n) of every entry of the event function

    class Probe(PulseCoupledOscillator):
        def normalisePhase(self, phi):
            r = super().normalisePhase(phi)
            calls.append(['N', phi, r])
            return r

        def setFiringTime(self, n, et):
            calls.append(['T', et, n])
            return super().setFiringTime(n, et)

        def phaseToState(self, phi):
            r = super().phaseToState(phi)
            calls.append(['S', phi, r])
            return r

        def stateToPhase(self, u):
            r = super().stateToPhase(u)
            calls.append(['G', u, r])
            return r

        def cascade(self, t, n, m):
            orders[-1].append(m)
            return super().cascade(t, n, m)

        def fired(self, t, n):
            orders.append([])
            fired_calls.append([t, n])
            return super().fired(t, n)

    proc = Probe()
    proc.setMaximumTime(case['maxtime'])
    cls = StochasticDynamics if case['dynamics'] == 'stochastic' else SynchronousDynamics
    dyn = cls(proc, g)
    orc = Oracle(seed=0, script={'random': list(case['states'])}, strict=True)
    snaps = []
    taps = []

    def snapshot(tag):
        gg = proc.network()
        finder = dyn._postedEventFinder
        per = []
        for n in nodes:
            i = gg.nodes[n].get(proc.NODE_EVENT_ID, None)
            try:
                pt = proc.pendingEventTime(i) if i is not None else None
            except KeyError:
                pt = None
            live = sorted(k for k, ev in finder.items() if ev[4] == n)
            per.append({'node': n, 'id': i, 'pending': pt, 'live_ids': live})
        snaps.append({'tag': tag, 'now': dyn.currentSimulationTime(), 'nodes': per, 'finder': len(finder),
                      'heap_live': sum(1 for ev in dyn._postedEvents if ev[3] is not None),
                      'log_t': list(proc._firingTimes), 'log_n': list(proc._firingNodes), 'ncalls': len(calls)})

    def tap(t, p, name, e):
        taps.append([t, name, e, p is proc])
        snapshot('event')
        if len(taps) > budget:
            raise Budget('more than %d events' % budget)
    dyn.eventFired = tap
    orig_setup = proc.setUp

    def setup(params):
        orig_setup(params)
        snapshot('setup')
    proc.setUp = setup

    params = {PulseCoupledOscillator.PERIOD: case['period'], PulseCoupledOscillator.B: case['b'],
              PulseCoupledOscillator.COUPLING: case['coupling']}
    install(orc)
    exc = None
    rc = None
    try:
        rc = dyn.set(params).run(fatal=True)
    except Budget as e:
        exc = 'Budget: ' + str(e)
    except Exception as e:  # observable behaviour: recorded, judged by D and by the tie
        exc = type(e).__name__ + ': ' + str(e)
    finally:
        uninstall()
    res = (rc or {}).get(epyc.Experiment.RESULTS, {}) if rc else {}
    md = (rc or {}).get(epyc.Experiment.METADATA, {}) if rc else {}
    obs = {
        'exception': exc, 'calls': calls, 'orders': orders, 'fired_calls': fired_calls, 'snaps': snaps, 'taps': taps,
        'randoms_used': len(orc.values('random')),
        'firing_times': res.get(PulseCoupledOscillator.FIRING_TIMES), 'firing_nodes': res.get(PulseCoupledOscillator.FIRING_NODES),
        'phases': res.get(PulseCoupledOscillator.PHASES),
        'time': md.get(Dynamics.TIME), 'events': md.get(Dynamics.EVENTS),
        'final_now': dyn.currentSimulationTime() if rc else None,
        'fired_name': PulseCoupledOscillator.FIRED,
    }
    if exc and exc.startswith('Budget'):
        obs['skipped'] = True
    return obs
