"""C20: pulse-coupled oscillators always have exactly one scheduled firing.

Tie B: whole runs of PulseCoupledOscillator under both dynamics with scripted initial states.  The numeric
maps are NOT taken from the implementation: a recording subclass notes the ARGUMENT of every call of
normalisePhase / phaseToState / stateToPhase / setFiringTime and the harness recomputes round(x, 5), f and g
from the formulas; those values are the oracle of Model/Pulse.v.  The one exception is the time a firing is
posted for: the model is given the posted time observed through pendingEventTime and Tie/C20.v checks that it is
not before the caller's time (the theorems' hypothesis) and within 1e-9 of the PERIOD of the exact argument, on
both sides (the repaired setFiringTime, F13, posts the argument itself; an absolute slack such as the former 5e-6
lets a rounding of the time through that is whole phase quanta of a short period).  The tie also checks the one
hypothesis C20_sync_absorbing_partial makes of round(): an argument that is exactly 1 rounds to 1.
Compared by vm_compute: the argument of every numeric call (the model computes them exactly in Q), the event
id and pending time of every node after set-up and after every event, the FIRED taps, the firing log, the
final phases, time and event count, and the boolean invariant on the model's final queue.

D: the property restated on the implementation's observables only (no model): after set-up and after every
event each node has exactly one live posted event (scan of dyn._postedEventFinder and of the heap) and its
'event' attribute names it; it is due at most one period after the current time; the node that fired is due
one period later (both to 1e-9 of the period, see time_slack); the log is non-decreasing and matches the FIRED
taps one to one; final phases in [0, 1]; on complete networks the number of distinct phases (as
getPhase(normalise=True) rounds them, and as exact pending times) never increases and the largest group never
shrinks, sampled whenever no node is due at the current time (i.e. after every batch of same-time firings).
A run cut off by the event budget is judged by nothing; obs['stats'] counts them (budget_cut).

Several populations (case['pops'], run_multi / direct_multi): two or three differently named PulseCoupledOscillator
instances (at most one unnamed) in ONE ProcessSequence over the same network, each with its own decorated parameters.  The
populations keep their own state on the nodes and do not interact, so the property holds of each: D judges every clause
PER POPULATION (pending entries of the queue attributed to the process object that posted them, the event id under that
population's own node attribute, log and final phases from its own decorated results, its own FIRED taps), the at-every-
instant clauses also after the OTHER populations' events.  The Coq model runs one population on a queue of its own, so
these cases are not compared with it (counted: not_compared_with_model).

Earlier runs on the SAME process and dynamics objects (case['before'], case['prerun']) come before the observed run:
whole runs on ANOTHER network (dyn.setNetworkGenerator between the runs: other order, other node set, other edges), and
runs that are abandoned inside set-up after the oscillators posted their firings (epyc calls tearDown() only when
setUp() completed).  The observed run is judged exactly as a first run is: nothing an earlier run left in the
objects is allowed to reach it."""
import itertools
import logging
import math
from fractions import Fraction

import networkx

from vlib import coqlit as L
from vlib.core import Harness
from vlib.oracle import Oracle, ScriptExhausted, install, uninstall

PREC = 5


# ---------------------------------------------------------------- the formulas, from the paper / docstrings
def f_state(b, phi):            # f (2.15)
    return (1 / b) * math.log(1 + (math.exp(b) - 1) * phi)


def f_phase(b, u):              # g (2.14)
    return (math.exp(b * u) - 1) / (math.exp(b) - 1)


def make_graph(desc):
    g = networkx.Graph()
    g.add_nodes_from(desc['nodes'])
    g.add_edges_from([tuple(e) for e in desc['edges']])
    return g


def gen_graph(rnd, kind=None, lo=2, hi=8):
    n = rnd.randrange(lo, hi + 1)
    kind = kind or rnd.choice(['complete', 'complete', 'cycle', 'star', 'random', 'random', 'loops'])
    labels = list(range(n))
    if rnd.random() < 0.3:
        rnd.shuffle(labels)                      # node order of the network differs from numeric order
    edges = []
    if kind == 'complete':
        edges = list(itertools.combinations(range(n), 2))
    elif kind == 'cycle':
        edges = [(i, (i + 1) % n) for i in range(n)] if n > 2 else [(0, 1)][:n - 1]
    elif kind == 'star':
        edges = [(0, i) for i in range(1, n)]
    else:
        p = rnd.choice([0.3, 0.5, 0.8])
        edges = [e for e in itertools.combinations(range(n), 2) if rnd.random() < p]
        if kind == 'loops':
            edges += [(i, i) for i in range(n) if rnd.random() < 0.4]
    return {'kind': kind, 'nodes': labels, 'edges': [list(e) for e in edges]}


# ---------------------------------------------------------------- running the implementation
class Budget(Exception):
    pass


class Abandoned(Exception):
    """raised by the harness's wrapper around the process' setUp, after the original returned: the run ends inside set-up"""


def make_probe(calls, orders, fired_calls):
    """the recording sub-class: notes the ARGUMENT of every numeric call in `calls`, the nodes handed to cascade per fired
    event in `orders`, every entry of the event function in `fired_calls` (one set of lists per population)"""
    from epydemic import PulseCoupledOscillator

    class Probe(PulseCoupledOscillator):
        def normalisePhase(self, phi):
            r = super().normalisePhase(phi)
            calls.append(['N', phi, r])
            return r

        def setFiringTime(self, n, et):
            rec = ['T', et, n, None]
            calls.append(rec)
            r = super().setFiringTime(n, et)
            try:        # the time the event was posted for, through the public API
                rec[3] = self.pendingEventTime(self.network().nodes[n][self.NODE_EVENT_ID])
            except KeyError:
                pass
            return r

        def phaseToState(self, phi):
            r = super().phaseToState(phi)
            calls.append(['S', phi, r])
            return r

        def stateToPhase(self, u):
            r = super().stateToPhase(u)
            calls.append(['G', u, r])
            return r

        def cascade(self, t, n, m):
            orders[-1].append(m)
            return super().cascade(t, n, m)

        def fired(self, t, n):
            orders.append([])
            fired_calls.append([t, n])
            return super().fired(t, n)
    return Probe


def run_case(case, budget=140):
    import epyc
    import epydemic
    from epydemic import PulseCoupledOscillator, StochasticDynamics, SynchronousDynamics, Dynamics

    g = make_graph(case['graph'])
    nodes = list(g.nodes())
    calls = []        # numeric calls in call order: [kind, argument(s), what the implementation returned]
    orders = []       # per fired event: the nodes handed to cascade, in order
    fired_calls = []  # (t, n) of every entry of the event function

    Probe = make_probe(calls, orders, fired_calls)

    inst = case.get('inst')
    proc = Probe(inst) if inst is not None else Probe()
    proc.setMaximumTime(case['maxtime'])
    cls = StochasticDynamics if case['dynamics'] == 'stochastic' else SynchronousDynamics
    dyn = cls(proc, g)

    class RecOracle(Oracle):
        def random(self):
            v = super().random()
            calls.append(['R', 0.0, v])
            return v
    orc = RecOracle(seed=0, script={'random': list(case['states'])}, strict=True)
    snaps = []
    taps = []

    def snapshot(tag):
        gg = proc.network()
        finder = dyn._postedEventFinder
        per = []
        for n in nodes:
            i = gg.nodes[n].get(proc.NODE_EVENT_ID, None)
            try:
                pt = proc.pendingEventTime(i) if i is not None else None
            except KeyError:
                pt = None
            live = sorted(k for k, ev in finder.items() if ev[4] == n)
            per.append({'node': n, 'id': i, 'pending': pt, 'live_ids': live})
        snaps.append({'tag': tag, 'now': dyn.currentSimulationTime(), 'nodes': per, 'finder': len(finder),
                      'heap_live': sum(1 for ev in dyn._postedEvents if ev[3] is not None),
                      'log_t': list(proc._firingTimes), 'log_n': list(proc._firingNodes), 'ncalls': len(calls)})

    def tap(t, p, name, e):
        taps.append([t, name, e, p is proc])
        snapshot('event')
        if len(taps) > budget:
            raise Budget('more than %d events' % budget)
    dyn.eventFired = tap
    orig_setup = proc.setUp

    stop = [None]         # how the run in progress ends: None (observed run), 'earlier' (whole run), 'after-setup'

    def setup(params):
        orig_setup(params)
        if stop[0] == 'after-setup':
            raise Abandoned('set-up abandoned after the process was set up')
        if stop[0] is None:
            snapshot('setup')
    proc.setUp = setup

    own = {PulseCoupledOscillator.PERIOD: case['period'], PulseCoupledOscillator.B: case['b'],
           PulseCoupledOscillator.COUPLING: case['coupling']}
    if inst is None:
        params = dict(own)
    else:
        # a named instance reads its own (decorated) parameters; the plain names carry other values for somebody else
        params = dict(case.get('decoy') or {})
        proc.setParameters(params, own)
    key = proc.decoratedNameInInstance(PulseCoupledOscillator.FIRING_TIMES)
    keyn = proc.decoratedNameInInstance(PulseCoupledOscillator.FIRING_NODES)

    def earlier_run(spec):
        """a run on the SAME objects before the observed one.  spec: states (the scripted initial states), graph (another
        network, handed over with setNetworkGenerator; None = the case's own), stop: None = a whole run, whose results must
        stay what they were when it returned; 'after-setup' = the harness's wrapper around the process' setUp raises after the
        original returned; 'in-setup' = the scripted states run out while the phases are initialised (the states are fewer
        than the nodes).  Either way the run ends inside set-up, so epyc does not call tearDown().  fatal: how run() is called."""
        how = spec.get('stop')
        fatal = spec.get('fatal', True)
        dyn.setNetworkGenerator(make_graph(spec['graph']) if spec.get('graph') else g)
        stop[0] = 'after-setup' if how == 'after-setup' else 'earlier'
        etaps = []

        def etap(t, p, name, e):
            etaps.append([t, e])
            if len(etaps) > budget:
                raise Budget('more than %d events' % budget)
        dyn.eventFired = etap
        install(Oracle(seed=0, script={'random': list(spec['states'])}, strict=True))
        rec = {'stop': how, 'other_network': bool(spec.get('graph')), 'exception': None, 'expected_end': False, 'budget_cut': False}
        if not fatal:
            logging.disable(logging.CRITICAL)          # epyc logs the exception it swallows
        try:
            prc = dyn.set(params).run(fatal=fatal)
            e = prc.get(epyc.Experiment.METADATA, {}).get(epyc.Experiment.EXCEPTION) if not fatal else None
            if e is not None:
                raise e
            pres = prc.get(epyc.Experiment.RESULTS, {})
            rec.update(taps=etaps, times_obj=pres.get(key), nodes_obj=pres.get(keyn),
                       times_then=list(pres.get(key) or []), nodes_then=list(pres.get(keyn) or []))
        except Budget:
            rec['budget_cut'] = True
        except (Abandoned, ScriptExhausted) as e:
            rec['expected_end'] = how is not None
            rec['exception'] = type(e).__name__ + ': ' + str(e)
        except Exception as e:
            rec['exception'] = type(e).__name__ + ': ' + str(e)
        finally:
            uninstall()
            if not fatal:
                logging.disable(logging.NOTSET)
        if how is not None and rec['exception'] is None and not rec['budget_cut']:
            raise RuntimeError('harness: a run that was to be abandoned in set-up completed')
        return rec

    before = list(case.get('before') or [])
    if case.get('prerun'):
        # an earlier run on the SAME objects and the same network (other initial states)
        before.append({'states': list(case['prerun'])})
    earlier = [earlier_run(spec) for spec in before]
    if before:
        del calls[:], orders[:], fired_calls[:], snaps[:], taps[:]
        dyn.setNetworkGenerator(g)
        dyn.eventFired = tap
        stop[0] = None
    install(orc)
    exc = None
    rc = None
    try:
        rc = dyn.set(params).run(fatal=True)
    except Budget as e:
        exc = 'Budget: ' + str(e)
    except Exception as e:  # observable behaviour: recorded, judged by D and by the tie
        exc = type(e).__name__ + ': ' + str(e)
    finally:
        uninstall()
    res = (rc or {}).get(epyc.Experiment.RESULTS, {}) if rc else {}
    if inst is not None:
        res = {proc.undecoratedName(k) if isinstance(k, str) else k: v for k, v in res.items()}
    md = (rc or {}).get(epyc.Experiment.METADATA, {}) if rc else {}
    for rec in earlier:
        # what the earlier run returned, as it is now
        if 'taps' in rec:
            rec['times_now'] = list(rec.pop('times_obj') or [])
            rec['nodes_now'] = list(rec.pop('nodes_obj') or [])
    obs = {
        'earlier': earlier,
        'exception': exc, 'calls': calls, 'orders': orders, 'fired_calls': fired_calls, 'snaps': snaps, 'taps': taps,
        'randoms_used': len(orc.values('random')),
        'firing_times': res.get(PulseCoupledOscillator.FIRING_TIMES), 'firing_nodes': res.get(PulseCoupledOscillator.FIRING_NODES),
        'phases': res.get(PulseCoupledOscillator.PHASES),
        'time': md.get(Dynamics.TIME), 'events': md.get(Dynamics.EVENTS),
        'final_now': dyn.currentSimulationTime() if rc else None,
        'fired_name': PulseCoupledOscillator.FIRED,
    }
    # a run cut off by the event budget is judged by nothing: counted, so that a change that makes cases drop out shows
    cut = bool(exc and exc.startswith('Budget'))
    if cut:
        obs['skipped'] = True
    obs['stats'] = {'budget_cut': int(cut), 'events_tapped': len(taps),
                    'earlier_whole_runs_on_another_network': sum(1 for r in earlier if r['other_network'] and 'taps' in r),
                    'earlier_runs_abandoned_in_setup': sum(1 for r in earlier if r['expected_end']),
                    'earlier_runs_budget_cut': sum(1 for r in earlier if r['budget_cut']),
                    'complete_network': int(is_complete(case)), 'one_node': int(len(nodes) == 1),
                    'period_off_1e-6_grid': int(round(case['period'], 6) != case['period'])}
    return obs


# ---------------------------------------------------------------- several populations over one network
def sub_case(case, j):
    """population j of a several-population case as a one-population case (what D judges it by)"""
    pop = case['pops'][j]
    return {'graph': case['graph'], 'dynamics': case['dynamics'], 'maxtime': case['maxtime'], 'period': pop['period'],
            'b': pop['b'], 'coupling': pop['coupling'], 'states': pop['states'], 'inst': pop.get('inst')}


def run_multi(case, budget=220):
    """case['pops']: differently named populations (at most one unnamed) composed in ONE ProcessSequence over the same
    network, each with its own (decorated) parameters and its own scripted initial states.  Every population keeps its
    own state on the nodes (stateVariable() appends the instance name), so they do not interact, and each is observed by
    itself: the pending entries of the queue are attributed to the process object that posted them (the entry carries
    it), the recorded event id is read under that population's own NODE_EVENT_ID, the firing log and the final phases
    come from that population's own (decorated) results, and the taps are split by the process they name.  A snapshot of
    every population is taken once the whole sequence is set up and after EVERY event, whoever fired (tag 'event' for the
    population that fired, 'other' for the rest)."""
    import epyc
    from epydemic import PulseCoupledOscillator, StochasticDynamics, SynchronousDynamics, Dynamics, ProcessSequence

    g = make_graph(case['graph'])
    nodes = list(g.nodes())
    pops = case['pops']
    recs = [{'calls': [], 'orders': [], 'fired_calls': [], 'snaps': [], 'taps': []} for _ in pops]
    procs = []
    for pop, rec in zip(pops, recs):
        cls = make_probe(rec['calls'], rec['orders'], rec['fired_calls'])
        procs.append(cls(pop['inst']) if pop.get('inst') is not None else cls())
    keys = case.get('keys')
    seq = ProcessSequence(dict(zip(keys, procs))) if keys else ProcessSequence(list(procs))
    seq.setMaximumTime(case['maxtime'])
    dyn = (StochasticDynamics if case['dynamics'] == 'stochastic' else SynchronousDynamics)(seq, g)
    params = dict(case.get('decoy') or {})
    for pop, proc in zip(pops, procs):
        proc.setParameters(params, {PulseCoupledOscillator.PERIOD: pop['period'], PulseCoupledOscillator.B: pop['b'],
                                    PulseCoupledOscillator.COUPLING: pop['coupling']})
    script = [x for pop in pops for x in pop['states']]          # set-up runs in sequence order
    orc = Oracle(seed=0, script={'random': script}, strict=True)
    taps_all, totals = [], []

    def snapshot(j, tag):
        proc, rec = procs[j], recs[j]
        gg = proc.network()
        finder = dyn._postedEventFinder
        per = []
        for n in nodes:
            i = gg.nodes[n].get(proc.NODE_EVENT_ID, None)
            try:
                pt = proc.pendingEventTime(i) if i is not None else None
            except KeyError:
                pt = None
            live = sorted(k for k, ev in finder.items() if ev[2] is proc and ev[4] == n)
            per.append({'node': n, 'id': i, 'pending': pt, 'live_ids': live})
        rec['snaps'].append({'tag': tag, 'now': dyn.currentSimulationTime(), 'nodes': per,
                             'finder': sum(1 for ev in finder.values() if ev[2] is proc),
                             'heap_live': sum(1 for ev in dyn._postedEvents if ev[3] is not None and ev[2] is proc),
                             'log_t': list(proc._firingTimes), 'log_n': list(proc._firingNodes), 'ncalls': len(rec['calls'])})

    def everybody(who):
        # the pending FIRINGS, whoever posted them
        totals.append([sum(1 for ev in dyn._postedEventFinder.values() if ev[5] == PulseCoupledOscillator.FIRED),
                       sum(1 for ev in dyn._postedEvents if ev[3] is not None and ev[5] == PulseCoupledOscillator.FIRED)])
        for j in range(len(procs)):
            snapshot(j, 'setup' if who is None else 'event' if j == who else 'other')

    def tap(t, p, name, e):
        who = [j for j, q in enumerate(procs) if q is p]
        who = who[0] if who else -1
        taps_all.append([t, name, e, who])
        if who >= 0:
            recs[who]['taps'].append([t, name, e, True])
        everybody(who)
        if len(taps_all) > budget:
            raise Budget('more than %d events' % budget)
    dyn.eventFired = tap
    orig_setup = seq.setUp

    def setup(ps):
        orig_setup(ps)
        everybody(None)
    seq.setUp = setup

    install(orc)
    exc = None
    rc = None
    try:
        rc = dyn.set(params).run(fatal=True)
    except Budget as e:
        exc = 'Budget: ' + str(e)
    except Exception as e:  # observable behaviour: recorded, judged by D
        exc = type(e).__name__ + ': ' + str(e)
    finally:
        uninstall()
    res = (rc or {}).get(epyc.Experiment.RESULTS, {}) if rc else {}
    md = (rc or {}).get(epyc.Experiment.METADATA, {}) if rc else {}
    per_pop = []
    for proc, rec in zip(procs, recs):
        own = {k: res.get(proc.decoratedNameInInstance(k)) for k in (PulseCoupledOscillator.FIRING_TIMES, PulseCoupledOscillator.FIRING_NODES,
                                                                     PulseCoupledOscillator.PHASES)}
        per_pop.append({'earlier': [], 'exception': exc, 'calls': rec['calls'], 'orders': rec['orders'], 'fired_calls': rec['fired_calls'],
                        'snaps': rec['snaps'], 'taps': rec['taps'], 'event_attribute': proc.NODE_EVENT_ID,
                        'firing_times': own[PulseCoupledOscillator.FIRING_TIMES], 'firing_nodes': own[PulseCoupledOscillator.FIRING_NODES],
                        'phases': own[PulseCoupledOscillator.PHASES], 'fired_name': PulseCoupledOscillator.FIRED})
    obs = {'exception': exc, 'pops': per_pop, 'taps_all': taps_all, 'totals': totals, 'randoms_used': len(orc.values('random')),
           'time': md.get(Dynamics.TIME), 'events': md.get(Dynamics.EVENTS), 'fired_name': PulseCoupledOscillator.FIRED}
    cut = bool(exc and exc.startswith('Budget'))
    if cut:
        obs['skipped'] = True
    obs['stats'] = {'budget_cut': int(cut), 'events_tapped': len(taps_all), 'several_populations_over_one_network': 1,
                    'several_populations:one_unnamed': int(any(pop.get('inst') is None for pop in pops)),
                    'several_populations:three': int(len(pops) == 3),
                    'several_populations:more_than_one_fired': int(sum(1 for r in recs if r['taps']) > 1),
                    'complete_network': int(is_complete(case)), 'one_node': int(len(nodes) == 1)}
    return obs


def direct_multi(case, obs):
    """D for several populations over one network: the property, population by population (they do not interact), plus:
    every tap is the firing of one of the populations and the pending firings on the queue are theirs (one per node and
    population in all)"""
    out = []
    if obs.get('skipped'):
        return out
    if obs['exception'] is not None:
        return [{'signature': 'exception:several-populations', 'detail': {'exception': obs['exception']}}]
    k = len(case['pops'])
    nn = len(case['graph']['nodes'])
    names = [pop.get('inst') for pop in case['pops']]
    for j in range(k):
        seen = set()
        for v in direct(sub_case(case, j), obs['pops'][j]):
            if v['signature'] in seen:
                continue                 # the first of each kind per population
            seen.add(v['signature'])
            out.append({'signature': v['signature'] + ':several-populations',
                        'detail': dict(v.get('detail') or {}, population=j, instance=names[j], populations=names,
                                       event_attribute=obs['pops'][j].get('event_attribute'))})
    for tp in obs['taps_all']:
        if tp[3] < 0 or tp[1] != obs['fired_name']:
            out.append({'signature': 'foreign-event:several-populations', 'detail': {'tap': tp}})
            break
    for i, tot in enumerate(obs['totals']):
        if tot != [k * nn, k * nn]:
            out.append({'signature': 'live-entries-total:several-populations',
                        'detail': {'snap': i - 1, 'finder': tot[0], 'heap_live': tot[1], 'populations': names, 'nodes': nn}})
            break
    return out


# ---------------------------------------------------------------- oracle values, recomputed from the recorded arguments
def oracle_value(case, call):
    k, arg = call[0], call[1]
    if k == 'N':
        return round(arg, PREC)
    if k == 'T':
        # the model is given the time observed and Tie/C20.v checks that it is the argument (to 1e-9 of the period) and
        # not before the caller's time
        if call[3] is None:
            raise ValueError('no posted time')
        return call[3]
    if k == 'S':
        return f_state(case['b'], arg)
    if k == 'G':
        return f_phase(case['b'], arg)
    if k == 'R':
        return call[2]
    raise ValueError(call)


KIND = {'N': 'RN', 'T': 'RT', 'S': 'RS', 'G': 'RG', 'R': 'RR'}


def c_cfg(case):
    g = make_graph(case['graph'])
    adj = L.lst(['(%s, %s)' % (L.z(n), L.lst(list(networkx.neighbors(g, n)), L.z)) for n in g.nodes()])
    return ('{| pc_nodes := %s; pc_adj := %s; pc_period := %s; pc_coupling := %s; pc_maxtime := %s; pc_observe := true |}'
            % (L.lst(list(g.nodes()), L.z), adj, L.q(case['period']), L.q(case['coupling']), L.q(case['maxtime'])))


def fl(x):
    """a binary64 value as a Coq primitive float literal (exact)"""
    x = float(x)
    if x != x or x in (float('inf'), float('-inf')):
        raise ValueError('not finite')
    return '(%s)%%float' % x.hex()


def to_coq(case, obs):
    t = to_coq_term(case, obs)
    if isinstance(obs.get('stats'), dict):
        obs['stats']['not_compared_with_model'] = int(t is None)
    return t


def to_coq_term(case, obs):
    if obs.get('skipped'):
        return None
    ok = obs['exception'] is None and obs['time'] is not None and obs['phases'] is not None
    snaps = []
    for s in obs['snaps']:
        for p in s['nodes']:
            if p['id'] is None or not (0 <= p['id'] < 5000):
                ok = False
                continue
            snaps.append('(%s, %s)' % (L.nat(p['id']), L.opt(p['pending'], fl)))
    try:
        answers = L.lst([fl(oracle_value(case, c)) for c in obs['calls']])
        args = L.lst([fl(c[1]) for c in obs['calls']])
    except (ValueError, OverflowError, ZeroDivisionError):
        return None
    kinds = ''.join(c[0] for c in obs['calls'])
    kinds = L.lst([L.string(kinds[i:i + 1000]) for i in range(0, len(kinds), 1000)])
    fired = [tp for tp in obs['taps'] if tp[1] == obs['fired_name']]
    return ('{| f_cfg := %s; f_sync := %s; f_kinds := %s; f_answers := %s; f_args := %s; f_orders := %s; f_snaps := %s; '
            'f_taps := %s; f_ftimes := %s; f_fnodes := %s; f_phases := %s; f_time := %s; f_events := %s; f_ok := %s |}') % (
        c_cfg(case), L.b(case['dynamics'] == 'synchronous'), kinds, answers, args,
        L.lst([L.lst(o, L.z) for o in obs['orders']]), L.lst(snaps),
        L.lst(['(%s, %s)' % (fl(tp[0]), L.z(tp[2])) for tp in fired]),
        L.lst(obs['firing_times'] or [], fl), L.lst(obs['firing_nodes'] or [], L.z), L.lst(obs['phases'] or [], fl),
        fl(obs['time'] if ok else 0), L.nat(obs['events'] if ok else 0), L.b(ok))


# ---------------------------------------------------------------- D: the property on the implementation's observables
def is_complete(case):
    g = make_graph(case['graph'])
    n = g.number_of_nodes()
    return all(sum(1 for m in g.neighbors(v) if m != v) == n - 1 for v in g.nodes())


def groups(values):
    c = {}
    for v in values:
        c[v] = c.get(v, 0) + 1
    return len(c), max(c.values())


def code_phase(pt, now, period):
    """the phase as getPhase(t, n, normalise=True) defines it, from the pending time"""
    phi = max(min(round(1 - (pt - now) / period, PREC), 1.0), 0.0)
    return 0.0 if phi == 1.0 else phi + 0.0


def time_slack(period, at):
    """what 'exactly one period' allows a binary64 time near `at`: 1e-9 of the PERIOD (not of the time, and not an
    absolute amount: a shift that is small against the clock can still be whole phase quanta of a short period), and
    never less than two units in the last place of the time itself, which no way of adding the period can avoid"""
    return max(1e-9 * abs(period), 2 * math.ulp(at))


def direct(case, obs):
    out = []

    def bad(sig, **detail):
        out.append({'signature': sig, 'detail': detail})
    if obs.get('skipped'):
        return out
    if obs['exception'] is not None:
        bad('exception', exception=obs['exception'])
        return out
    for k, er in enumerate(obs.get('earlier') or []):
        if er['exception'] and not er['expected_end']:
            # a whole run on the same objects (on this or another network) raised, or set-up ended otherwise than arranged
            bad('exception-in-earlier-run', run=k, exception=er['exception'], other_network=er['other_network'])
        if 'taps' in er:
            # the log an earlier run on the same objects reported: one entry per FIRED tap of THAT run, then and now
            tt = [x[0] for x in er['taps']]
            tn = [x[1] for x in er['taps']]
            if er['times_then'] != tt or er['nodes_then'] != tn:
                bad('firing-log-not-the-taps:earlier-run', run=k, log=er['times_then'], taps=tt)
            elif er['times_now'] != tt or er['nodes_now'] != tn:
                bad('results-of-an-earlier-run-changed-by-a-later-run', run=k, reported=tt[:8], now=er['times_now'][:8])
    period = case['period']
    nodes = make_graph(case['graph']).nodes()
    nn = len(nodes)
    taps = obs['taps']
    complete = is_complete(case)
    last_sample = None
    ev = -1
    for s in obs['snaps']:
        now = s['now']
        if s['tag'] == 'event':
            ev += 1
            t, name, e, mine = taps[ev]
            if name != obs['fired_name'] or not mine:
                bad('foreign-event', tap=taps[ev])
        # exactly one pending firing per node, named by its 'event' attribute
        for p in s['nodes']:
            if p['id'] is None or p['pending'] is None:
                bad('no-pending-event', snap=ev, node=p['node'], id=p['id'])
            elif p['live_ids'] != [p['id']]:
                bad('live-entries-not-one', snap=ev, node=p['node'], id=p['id'], live=p['live_ids'])
            elif not (p['pending'] <= now + period + time_slack(period, now + period)):
                bad('due-later-than-one-period', snap=ev, node=p['node'], pending=p['pending'], now=now, period=period)
        if s['finder'] != nn or s['heap_live'] != nn:
            bad('live-entries-total', snap=ev, finder=s['finder'], heap_live=s['heap_live'], nodes=nn)
        # the node that fired is due one period later; the log follows the taps
        if s['tag'] == 'event':
            me = [p for p in s['nodes'] if p['node'] == e]
            if len(me) != 1 or me[0]['pending'] is None or abs(me[0]['pending'] - (t + period)) > time_slack(period, t + period):
                bad('refire-not-one-period-later', snap=ev, node=e, t=t, period=period, pending=me[0]['pending'] if me else None)
            if len(s['log_t']) != ev + 1 or len(s['log_n']) != ev + 1:
                bad('log-length', snap=ev, times=len(s['log_t']), nodes=len(s['log_n']))
            elif s['log_t'][-1] != t or s['log_n'][-1] != e:
                bad('log-entry-differs-from-tap', snap=ev, log=[s['log_t'][-1], s['log_n'][-1]], tap=[t, e])
            if now != t:
                bad('clock-differs-from-event-time', snap=ev, now=now, t=t)
        # synchrony is absorbing on complete networks: sampled when no node is due now (between batches)
        if complete and all(p['pending'] is not None for p in s['nodes']):
            pend = [p['pending'] for p in s['nodes']]
            if s['tag'] != 'other' and (all(pt != now for pt in pend) or s['tag'] == 'setup'):
                k, big = groups([code_phase(pt, now, period) for pt in pend])
                kp, bigp = groups(pend)
                if last_sample is not None:
                    if k > last_sample[0] or kp > last_sample[2]:
                        bad('distinct-phases-increased', snap=ev, before=last_sample, after=[k, big, kp, bigp])
                    if big < last_sample[1] or bigp < last_sample[3]:
                        bad('largest-group-shrank', snap=ev, before=last_sample, after=[k, big, kp, bigp])
                last_sample = [k, big, kp, bigp]
    if ev + 1 != len(taps):
        bad('taps-without-snapshot', taps=len(taps), snaps=ev + 1)
    ft, fn, ph = obs['firing_times'], obs['firing_nodes'], obs['phases']
    if ft is None or fn is None or ph is None:
        bad('results-missing')
        return out
    if len(ft) != len(fn) or len(ft) != len(taps):
        bad('results-lengths', times=len(ft), nodes=len(fn), taps=len(taps))
    elif [[a, b] for a, b in zip(ft, fn)] != [[tp[0], tp[2]] for tp in taps]:
        bad('results-differ-from-taps')
    if any(ft[i] > ft[i + 1] for i in range(len(ft) - 1)):
        bad('firing-times-decrease', times=ft)
    if len(ph) != nn or any(not (0.0 <= x <= 1.0) for x in ph):
        bad('final-phase-out-of-range', phases=ph)
    return out


# ---------------------------------------------------------------- generator
# the last three periods of the first line lie off the 1e-6 and 1e-7 grids too (F13 one and two places finer)
PERIODS = [1.0, 1.0, 2.0, 0.5, 0.7, 1.3, 0.25, 3.0, 0.12345, 0.123451234, 0.700003, 0.001003, 2.3333333333,
           0.0123454, 0.00100037, 0.00400044]
SYNC_PERIODS = [1.0, 2.0, 0.5, 0.7, 1.3, 3.0, 0.700003, 2.3333333333]
OFFGRID_PERIODS = [0.123451234, 0.001003, 0.0300049, 0.700003, 0.0123454, 0.00100037, 0.00400044]
BS = [1.0, 1.0, 2.0, 0.5, 3.0, 5.0]
COUPLINGS = [0.125, 0.05, 0.3, 0.007, 1.0, 0.0, 0.5, -0.05]
# the wide pools: very small / very large periods, dissipation negative, tiny and large, couplings above 1, strongly
# negative, just below 1 and tiny.  Dissipation 0.01, 0.1 and 1e-6 are values at which phaseToState(1.0) is not 1.0 in
# binary64 (0.99999999999999 / 1.0000000000000007 / 0.99999999996).
WIDE_PERIODS = [1e-7, 7.0, 1000.0, 0.0123454, 0.00100037, 0.00400044]
WIDE_SYNC_PERIODS = [7.0, 0.3, 1.0]
WIDE_BS = [-3.0, -1.0, 0.01, 1e-6, 10.0, 30.0, 0.1]
WIDE_COUPLINGS = [2.0, -1.0, 0.999, 1e-9, -0.3]
DYADIC = 1 << 20
# dissipations at which phaseToState(1.0) != 1.0 in binary64, with negative couplings (F18: cascade() tested the STATE
# for "already synchronised", did not recognise a node due now and bumped it back out of its group)
INEXACT_BS = [0.01, 0.1, 1e-6]
NEG_COUPLINGS = [-0.05, -0.3, -0.007, -0.5, -0.999]


def offgrid_period(rnd):
    """a period of 0.001-0.02 with nine decimals: off every coarser decimal grid, so that a time rounded to 6, 7 or 8
    places is a visible fraction of a phase quantum (1e-5 of the period) away from where it belongs"""
    return rnd.randrange(1000000, 20000000) * 1e-9 + 1e-9 * rnd.choice([0.37, 0.5, 0.81])


def gen_case(rnd, tier='quick'):
    wide = rnd.random() < 0.3            # values outside the everyday pools (each drawn separately below)
    if wide and rnd.random() < 0.5:
        graph = gen_graph(rnd, None, *rnd.choice([(1, 10), (1, 1), (9, 10)]))
        if len(graph['nodes']) == 1 and graph['kind'] == 'loops' and rnd.random() < 0.5:
            graph['edges'] = [[0, 0]]
    else:
        graph = gen_graph(rnd)
    n = len(graph['nodes'])
    dynamics = rnd.choice(['stochastic', 'synchronous'])
    period = rnd.choice(PERIODS)
    if dynamics == 'synchronous':
        period = rnd.choice(SYNC_PERIODS)
    if wide and rnd.random() < 0.5:
        period = rnd.choice(WIDE_SYNC_PERIODS if dynamics == 'synchronous' else WIDE_PERIODS)
    cycles = rnd.choice([1.5, 2.5, 4.0, 6.0])
    while n * cycles > 24 and cycles > 1.5:
        cycles -= 1.0
    maxtime = period * cycles
    if dynamics == 'synchronous':
        maxtime = float(max(2, math.ceil(maxtime)))
    mode = rnd.randrange(6)
    states = []
    for i in range(n):
        if mode == 0 and states and rnd.random() < 0.5:
            states.append(rnd.choice(states))                 # synchronised from the start
        elif mode == 1 and rnd.random() < 0.3:
            states.append(rnd.choice([0.0, 0.5, 1 - 2.0 ** -20, 2.0 ** -20, 1 - 2.0 ** -30]))
        elif mode == 2 and states:
            states.append(min(1 - 2.0 ** -20, max(0.0, states[0] + rnd.randrange(-8, 9) * 2.0 ** -14)))   # nearly synchronised
        else:
            states.append(rnd.randrange(0, DYADIC) / float(DYADIC))
    b = rnd.choice(WIDE_BS) if wide and rnd.random() < 0.5 else rnd.choice(BS)
    coupling = rnd.choice(WIDE_COUPLINGS) if wide and rnd.random() < 0.5 else rnd.choice(COUPLINGS)
    case = {'graph': graph, 'period': period, 'b': b, 'coupling': coupling,
            'maxtime': maxtime, 'dynamics': dynamics, 'states': states}
    if rnd.random() < 0.3:
        case['inst'] = rnd.choice(['fireflies', 'a', 'x.1'])
        if rnd.random() < 0.6:
            from epydemic import PulseCoupledOscillator as PCO
            case['decoy'] = {PCO.PERIOD: rnd.choice([0.25, 3.0, 1.0]), PCO.B: rnd.choice([0.5, 1.0, 4.0]), PCO.COUPLING: rnd.choice([0.0, 1.0, 0.3])}
    if rnd.random() < 0.16:
        # synchronised groups on a complete network with a period off the decimal grids (F13, and the same defect one
        # or more places finer): a posting time that is rounded at all splits the groups
        g = gen_graph(rnd, 'complete', 2, 5)
        k = len(g['nodes'])
        base = [rnd.randrange(0, DYADIC) / float(DYADIC) for _ in range(2)]
        case.update(graph=g, dynamics='stochastic',
                    period=offgrid_period(rnd) if rnd.random() < 0.35 else rnd.choice(OFFGRID_PERIODS),
                    states=[rnd.choice(base) for _ in range(k)])
        if rnd.random() < 0.7:
            case.update(b=rnd.choice(BS), coupling=rnd.choice([0.125, 0.05, 0.3, 0.007, 0.5]))
        case['maxtime'] = case['period'] * rnd.choice([2.5, 4.0])
    elif rnd.random() < 0.07:
        # equal groups on a small complete network, a dissipation at which f(1.0) != 1.0 and a negative coupling (F18)
        g = gen_graph(rnd, 'complete', 2, 4)
        k = len(g['nodes'])
        base = [rnd.randrange(0, DYADIC) / float(DYADIC) for _ in range(2)]
        dyn = rnd.choice(['stochastic', 'synchronous'])
        per = rnd.choice(SYNC_PERIODS if dyn == 'synchronous' else PERIODS)
        mt = per * rnd.choice([2.5, 4.0])
        case.update(graph=g, dynamics=dyn, period=per, b=rnd.choice(INEXACT_BS), coupling=rnd.choice(NEG_COUPLINGS),
                    states=[rnd.choice(base) for _ in range(k)],
                    maxtime=float(max(2, math.ceil(mt))) if dyn == 'synchronous' else mt)
    if rnd.random() < 0.4:
        case['before'] = gen_before(rnd, case)
    elif rnd.random() < 0.25:
        case['prerun'] = [rnd.randrange(0, DYADIC) / float(DYADIC) for _ in range(len(case['states']))]
    return case


BEFORE_PATTERNS = [['other'], ['other'], ['other'], ['other', 'other'], ['stop'], ['stop'], ['stop'], ['other', 'stop'],
                   ['stop', 'other'], ['stop', 'stop']]


def other_graph(rnd, graph):
    """another network for an earlier run on the same objects: other node order, other node set (more nodes, fewer, or as
    many), other edges; sparse ones for a complete network, so that the neighbourhoods differ on the nodes the two share"""
    n = len(graph['nodes'])
    how = rnd.choice(['larger', 'larger', 'same', 'same', 'smaller'])
    if how == 'larger' and n < 10:
        lo, hi = n + 1, min(n + 3, 11)
    elif how == 'smaller' and n > 2:
        lo, hi = max(1, n - 3), n - 1
    else:
        lo, hi = n, n
    kind = rnd.choice(['cycle', 'star', 'random', 'random', 'complete', 'loops'])
    if graph['kind'] == 'complete' and rnd.random() < 0.6:
        kind = rnd.choice(['cycle', 'star', 'random'])
    g = gen_graph(rnd, kind, lo, hi)
    if rnd.random() < 0.5:
        g['nodes'] = list(reversed(g['nodes']))
    return g


def gen_before(rnd, case):
    """earlier runs on the same process and dynamics objects: whole runs on another network, and runs abandoned inside
    set-up once (some of) the oscillators have posted their firings - on the case's own network or on another one"""
    out = []
    for what in rnd.choice(BEFORE_PATTERNS):
        spec = {}
        n = len(case['states'])
        if what == 'other' or rnd.random() < 0.3:
            spec['graph'] = other_graph(rnd, case['graph'])
            n = len(spec['graph']['nodes'])
        if what == 'stop':
            spec['stop'] = 'in-setup' if n >= 2 and rnd.random() < 0.35 else 'after-setup'
            spec['fatal'] = rnd.random() < 0.7
            if spec['stop'] == 'in-setup':
                n = rnd.randrange(1, n)            # the scripted states run out after this many nodes
        spec['states'] = [rnd.randrange(0, DYADIC) / float(DYADIC) for _ in range(n)]
        out.append(spec)
    return out


POP_NAMES = ['fast', 'slow', 'a', 'b', 'x.1', 'fireflies']
PERIOD_RATIOS = [1.0, 1.0, 0.5, 2.0, 1.5, 0.75, 3.0, 1.25]


def gen_states(rnd, n):
    mode = rnd.randrange(4)
    states = []
    for i in range(n):
        if mode == 0 and states and rnd.random() < 0.5:
            states.append(rnd.choice(states))                 # synchronised from the start
        elif mode == 1 and rnd.random() < 0.3:
            states.append(rnd.choice([0.0, 0.5, 1 - 2.0 ** -20, 2.0 ** -20]))
        else:
            states.append(rnd.randrange(0, DYADIC) / float(DYADIC))
    return states


def gen_multi(rnd):
    """two or three differently named populations (at most one of them unnamed) in one ProcessSequence (a list, or a dict
    under keys of its own) over ONE network, each with its own period (within a factor 3 of the others, sometimes the same),
    dissipation, coupling and initial states; with named populations only, the plain parameter names sometimes carry
    other values for nobody"""
    from epydemic import PulseCoupledOscillator as PCO
    graph = gen_graph(rnd, None, *rnd.choice([(2, 6), (2, 6), (1, 3), (5, 8)]))
    n = len(graph['nodes'])
    dynamics = rnd.choice(['stochastic', 'synchronous'])
    k = rnd.choice([2, 2, 2, 3])
    names = rnd.sample(POP_NAMES, k)
    if rnd.random() < 0.4:
        names[rnd.randrange(k)] = None
    base = rnd.choice(SYNC_PERIODS if dynamics == 'synchronous' else PERIODS + OFFGRID_PERIODS)
    pops = []
    for name in names:
        wide = rnd.random() < 0.2
        pops.append({'inst': name, 'period': base * rnd.choice(PERIOD_RATIOS) if pops else base,
                     'b': rnd.choice(WIDE_BS) if wide and rnd.random() < 0.5 else rnd.choice(BS),
                     'coupling': rnd.choice(WIDE_COUPLINGS) if wide and rnd.random() < 0.5 else rnd.choice(COUPLINGS),
                     'states': gen_states(rnd, n)})
    if rnd.random() < 0.2:
        # the same oscillators twice: same period and initial states, so both populations fire a node at the same time
        pops[1].update(period=pops[0]['period'], states=list(pops[0]['states']))
    # about 50 firings in all
    rate = sum(n / pop['period'] for pop in pops)
    maxtime = min(rnd.choice([1.5, 2.5, 4.0]) * max(pop['period'] for pop in pops), 50.0 / rate)
    maxtime = max(maxtime, 1.25 * min(pop['period'] for pop in pops))
    if dynamics == 'synchronous':
        maxtime = float(max(2, math.ceil(maxtime)))
    case = {'graph': graph, 'dynamics': dynamics, 'maxtime': maxtime, 'pops': pops}
    if rnd.random() < 0.3:
        case['keys'] = rnd.sample(['p', 'q', 'r', 'oscillators'], k)
    if None not in names and rnd.random() < 0.4:
        case['decoy'] = {PCO.PERIOD: rnd.choice([0.25, 3.0, 1.0]), PCO.B: rnd.choice([0.5, 1.0, 4.0]), PCO.COUPLING: rnd.choice([0.0, 1.0, 0.3])}
    return case


class H(Harness):
    ID = 'C20'
    ANCHOR_FILES = ['epydemic/pulsecoupled.py', 'epydemic/networkdynamics.py']
    TIE_IMPORT = 'From Coq Require Import Floats.\nFrom EpyV Require Import Model.Kernel Model.Pulse Tie.C20.\nOpen Scope Q_scope.'
    CHECK_FN = 'EpyV.Tie.C20.check_fcase'
    QUICK_N = 200
    THOROUGH_N = 4000
    CASE_TIMEOUT = 30
    ALLOWED_AXIOMS = set()
    RULE = ('whole runs of PulseCoupledOscillator on networks of 2-8 nodes (complete, cycle, star, random, random with self-loops; '
            'node order sometimes not numeric), periods incl. non-dyadic ones and ones off the 1e-5, 1e-6 and 1e-7 grids (0.123451234, '
            '0.001003, 0.0123454, 0.00100037, 0.00400044), dissipation 0.5-5, couplings incl. 0, 1 and a negative one, StochasticDynamics '
            'and SynchronousDynamics, scripted initial states (random dyadic, equal groups, nearly equal, 0, almost 1 incl. 1-2^-30); '
            '30 % of the cases draw from wide pools: 1, 9 or 10 nodes (one node also with a self-loop), periods 1e-7, 7, 1000, '
            'dissipation -3, -1, 0.01, 0.1, 1e-6, 10, 30, couplings 2, -1, -0.3, 0.999, 1e-9; a stream (16 %) of synchronised groups on '
            'complete networks of 2-5 nodes with off-grid periods, a third of them random 9-decimal periods in 0.001-0.02 (F13 and the '
            'same defect at finer roundings); a stream (7 %) of equal groups on K2-K4 with a dissipation at which phaseToState(1.0) != 1.0 '
            '(0.01, 0.1, 1e-6) and a negative coupling, both dynamics (F18); corpus witnesses of F13 and F18; all 8 graphs on 3 labelled '
            'nodes x both dynamics x 3 state patterns exhaustively; 40 % of the generated cases come after 1-2 earlier runs on the SAME process and dynamics objects: whole runs '
            'on another network (setNetworkGenerator between the runs; 1-11 nodes, more, fewer or as many as the case\'s, other order and edges, sparse ones before a complete '
            'network) and runs abandoned inside set-up after the firings were posted (the wrapper around the process\' setUp raises after the original, or the scripted states '
            'run out part-way; run(fatal=True) and run(fatal=False); own or another network), a further 15 % after one whole run on the same network; '
            'a quarter as many cases again run two or three differently named populations (at most one unnamed) in one ProcessSequence (list or dict) over ONE '
            'network of 1-8 nodes, each with its own decorated period (within a factor 3, sometimes equal with equal states), dissipation, coupling and scripted states, '
            'plus 8 directed ones (named/named, unnamed first, unnamed last, three; K4 stochastic and C5 synchronous): D per population, not compared with the model; '
            'non-trivial = at least 3 firings and at least one cascade that moved a node (several populations: at least two of them fired); distinct by the whole case')
    TRUSTED = ['Coq 8.16.1 kernel incl. vm_compute',
               'harness/c20.py and vlib (scripted rng.random, recording of the arguments of the numeric maps, reading of '
               'dyn._postedEventFinder / _postedEvents and of the node attribute for D)',
               'the values of decimal round(x, 5), exp and log are computed by CPython from the recorded arguments (oracle values of the model)']
    ASSUMPTIONS = ['C20_sync_absorbing_partial assumes that the pending time a bumped node that is not itself due now moves to is a function '
                   'of the event time and its old pending time alone, that a node that has just fired is left where it is (phase 0 maps '
                   'to itself), and that round(x, 5) of exactly 1 is 1 (checked on every run by the tie); that a node due now is passed '
                   'over is proved (C20_due_now_passed_over); D checks the conclusion on every complete-network case',
                   'period > 0 and dissipation != 0 (otherwise the code divides by zero or posts into the past)',
                   'the time a firing is posted for is observed (pendingEventTime) and checked per run to be not before the caller time and '
                   'within 1e-9 of the period of the exact argument; the theorems assume only caller time <= it <= a monotone bound of the argument']

    def gen_cases(self, tier, rnd, n):
        # the one-population cases first (harness/c04.py draws from gen_case too: it is left as it is), then a quarter as
        # many several-population cases (D only: the model runs one population)
        return [gen_case(rnd, tier) for _ in range(n)] + [gen_multi(rnd) for _ in range(max(8, n // 4))]

    def exhaustive_cases(self, tier):
        out = []
        pairs = [(0, 1), (0, 2), (1, 2)]
        for mask in range(8):
            edges = [list(p) for i, p in enumerate(pairs) if mask >> i & 1]
            for dyn in ('stochastic', 'synchronous'):
                for states in ([0.25, 0.25, 0.25], [0.125, 0.5, 0.875], [0.0, 0.5, 0.5]):
                    out.append({'graph': {'kind': 'all3', 'nodes': [0, 1, 2], 'edges': edges}, 'period': 1.0, 'b': 1.0,
                                'coupling': 0.25, 'maxtime': 3.0, 'dynamics': dyn, 'states': states})
        # two and three populations over one network: both named / one unnamed (first or last), both dynamics
        k4 = {'kind': 'complete', 'nodes': [0, 1, 2, 3], 'edges': [list(e) for e in itertools.combinations(range(4), 2)]}
        c5 = {'kind': 'cycle', 'nodes': [0, 1, 2, 3, 4], 'edges': [[i, (i + 1) % 5] for i in range(5)]}
        for names in (['fast', 'slow'], [None, 'slow'], ['fast', None], ['a', 'b', 'c']):
            for dyn, graph in (('stochastic', k4), ('synchronous', c5)):
                nn = len(graph['nodes'])
                pops = [{'inst': nm, 'period': [1.0, 3.0, 1.5][j], 'b': [1.5, 3.0, 1.0][j], 'coupling': [0.04, 0.1, 0.25][j],
                         'states': [((3 * i + 5 * j + 1) % 16) / 16.0 for i in range(nn)]} for j, nm in enumerate(names)]
                out.append({'graph': graph, 'dynamics': dyn, 'maxtime': 4.0, 'pops': pops})
        return out

    def execute(self, case):
        return run_multi(case) if case.get('pops') else run_case(case)

    def direct(self, case, obs):
        return direct_multi(case, obs) if case.get('pops') else direct(case, obs)

    def to_coq(self, case, obs):
        if case.get('pops'):
            # Model/Pulse.v runs ONE population on a queue of its own (event ids, event count): several populations over one
            # network are judged by D alone, and counted
            if isinstance(obs.get('stats'), dict):
                obs['stats']['not_compared_with_model'] = 1
            return None
        return to_coq(case, obs)

    def nontrivial(self, case, obs):
        if obs.get('skipped') or obs.get('exception'):
            return None
        if case.get('pops'):
            if len(obs['taps_all']) >= 3 and sum(1 for po in obs['pops'] if po['taps']) >= 2:
                return str(sorted(case.items(), key=str))
            return None
        moved = sum(1 for c in obs['calls'] if c[0] == 'T') - len(case['states']) - len(obs['taps'])
        if len(obs['taps']) >= 3 and moved >= 1:
            return str(sorted(case.items(), key=str))
        return None

    def sample_view(self, case, obs):
        if case.get('pops'):
            return {'case': case, 'taps': (obs.get('taps_all') or [])[:6],
                    'firing_nodes': [po.get('firing_nodes') for po in obs.get('pops', [])], 'phases': [po.get('phases') for po in obs.get('pops', [])]}
        return {'case': case, 'taps': (obs.get('taps') or [])[:6], 'firing_nodes': obs.get('firing_nodes'), 'phases': obs.get('phases')}
