"""C18: ShuffleK rewiring preserves every node's degree.
Tie B: run ShuffleK.build through a real dynamics with numpy.random.shuffle and rng.integers served by the
scripted oracle; record, in the order they happen, every shuffled edge list and every DrawSet.draw outcome
(as the position of the returned element in node-list order + the size of the set) and every
remove_edges_from/add_edges_from pair; the Coq model (Model/Shuffle.v) replays the same choices and must
perform the same swaps and end in the same network.
D: the property restated directly on the implementation's observables."""
import itertools
import math
from fractions import Fraction

import networkx

from vlib import coqlit as L
from vlib.core import Harness
from vlib.oracle import Oracle, install

BUDGET = 260          # random choices (shuffles + draws) a build may make before it is cut
FUEL_MAX = 4500


class Budget(Exception):
    pass


def norm(e):
    a, b = e
    return (a, b) if a <= b else (b, a)


def make_graph(rnd, n, kind):
    """a simple graph on n nodes; returns (nodes, edges) with nodes 0..n-1"""
    es = set()
    if kind == 'complete':
        es = set(itertools.combinations(range(n), 2))
    elif kind == 'path':
        es = {(i, i + 1) for i in range(n - 1)}
    elif kind == 'cycle':
        es = {norm((i, (i + 1) % n)) for i in range(n)}
    elif kind == 'star':
        es = {(0, i) for i in range(1, n)}
    elif kind == 'twocycles':
        k = n // 2
        es = {norm((i, (i + 1) % k)) for i in range(k)} | {norm((k + i, k + (i + 1) % (n - k))) for i in range(n - k)}
        es = {e for e in es if e[0] != e[1]}
    elif kind == 'lollipop':
        k = max(3, n // 2)
        es = set(itertools.combinations(range(k), 2)) | {(i, i + 1) for i in range(k - 1, n - 1)}
    elif kind == 'regular':
        d = rnd.choice([2, 3, 4])
        if d >= n or (n * d) % 2:
            d = 2
        es = {norm(e) for e in networkx.random_regular_graph(d, n, seed=rnd.randrange(1 << 30)).edges()}
    else:
        p = rnd.choice([0.2, 0.35, 0.5, 0.7])
        es = {(a, b) for a, b in itertools.combinations(range(n), 2) if rnd.random() < p}
    return sorted(es)


def relabel(rnd, n, es, how):
    """other labels / node order / edge orientation: the property and the model are label-agnostic"""
    if how == 'plain':
        lab = list(range(n))
    elif how == 'offset':
        lab = [10 + 3 * i for i in range(n)]
    else:
        lab = rnd.sample(range(-5, 40), n)
    order = list(range(n))
    if how != 'plain':
        rnd.shuffle(order)
    nodes = [lab[i] for i in order]
    edges = [(lab[a], lab[b]) if rnd.random() < 0.5 else (lab[b], lab[a]) for a, b in es]
    if how != 'plain':
        rnd.shuffle(edges)
    return nodes, edges


FS = [0.0, 0.1, 0.5, 1.0, 1.7, 0.25, 2.0]


class H(Harness):
    ID = 'C18'
    ANCHOR_FILES = ['epydemic/shuffle.py', 'epydemic/drawset.py']
    TIE_IMPORT = 'From EpyV Require Import Model.Shuffle Tie.C18.'
    CHECK_FN = 'EpyV.Tie.C18.check_case'
    QUICK_N = 700
    THOROUGH_N = 7000
    CASE_TIMEOUT = 20
    ALLOWED_AXIOMS = set()
    RULE = ('simple networks of 4-12 nodes (complete/path/cycle/star/two cycles/lollipop/random regular/G(n,p); plain, offset or '
            'scrambled integer labels, both edge orientations), f in {0, 0.1, 0.25, 0.5, 1, 1.7, 2}; shuffles and rng.integers from '
            'the scripted oracle (seeded, plus exhaustive integer scripts on three small graphs); builds that make more than %d '
            'random choices are cut and excluded (counted as incomplete), as are inputs on which float int(M*f) differs from exact '
            'floor(M*f) (counted as dropped); a case is non-trivial when at least one swap happened; distinct by (edges, f, swaps)' % BUDGET)
    TRUSTED = ['Coq 8.16.1 kernel incl. vm_compute',
               'harness/c18.py and vlib (scripted shuffle/integers; DrawSet.draw is wrapped and its result handed to the model as '
               '(position in node order, size of the set): the model does not re-derive the draw from rng.integers, that is C09)',
               'networkx Graph copy/has_edge/degree/neighbors/remove_edges_from/add_edges_from/edges modelled as an undirected edge list']
    ASSUMPTIONS = ['DrawSet.draw returns an element of the set (C09); list(g.edges) lists every edge once',
                   'int(M*f) in binary64 equals floor(M*f) on the generated inputs (checked per case; differing cases are dropped and counted)']

    # ------------------------------------------------------------------ cases
    def _mk(self, nodes, edges, f, seed, script=None):
        return {'nodes': list(nodes), 'edges': [list(e) for e in edges], 'f': f, 'seed': seed, 'script': script}

    def gen_cases(self, tier, rnd, n):
        out = []
        kinds = ['complete', 'path', 'cycle', 'star', 'twocycles', 'lollipop', 'regular', 'regular', 'gnp', 'gnp', 'gnp', 'gnp']
        self.dropped = 0
        while len(out) < n:
            nn = rnd.randrange(4, 13)
            es = make_graph(rnd, nn, rnd.choice(kinds))
            nodes, edges = relabel(rnd, nn, es, rnd.choice(['plain', 'offset', 'scramble']))
            f = rnd.choice(FS)
            M = len(edges)
            if int(M * f) != math.floor(Fraction(M) * Fraction(f)):
                self.dropped += 1
                continue
            c = self._mk(nodes, edges, f, rnd.randrange(1 << 30))
            c['dropped_before'] = self.dropped
            self.dropped = 0
            if rnd.random() < 0.25:
                # history: ShuffleK as the first stage of a sequence whose later stage fails in build() on ANOTHER network
                # (the same nodes joined differently); epyc tears no such run down; then the observed run on the same objects
                other = list(itertools.combinations(nodes, 2))
                rnd.shuffle(other)
                c['earlier_edges'] = [list(e) for e in other[:max(M, 3)]]
            out.append(c)
        return out

    def exhaustive_cases(self, tier):
        # every script of the first L values of rng.integers (taken modulo the range asked for) on small graphs
        out = []
        shapes = [
            ([0, 1, 2, 3, 4], [(0, 1), (1, 2), (2, 3), (3, 4), (4, 0)], 0.5),                   # C5: one degree class
            ([0, 1, 2, 3, 4], [(0, 1), (1, 2), (2, 3), (3, 4)], 0.5),                           # P5: two classes
            ([0, 1, 2, 3, 4, 5], [(0, 1), (1, 2), (2, 0), (3, 4), (4, 5), (2, 3)], 0.5),        # triangle + tail: singleton classes
        ]
        L_ = 5 if tier == 'quick' else 7
        for nodes, edges, f in shapes:
            for sc in itertools.product(range(3), repeat=L_):
                out.append(self._mk(nodes, edges, f, 7, script=list(sc)))
        return out

    # ------------------------------------------------------------------ implementation
    def execute(self, case):
        import epydemic
        from epydemic import ShuffleK, StochasticDynamics, DrawSet
        nodes = list(case['nodes'])
        events = []
        swaps = []
        rec = {'on': False, 'pending': None}

        class RecGraph(networkx.Graph):
            def remove_edges_from(self, ebunch):
                ebunch = list(ebunch)
                if rec['on']:
                    rec['pending'] = [tuple(e) for e in ebunch]
                super().remove_edges_from(ebunch)

            def add_edges_from(self, ebunch, **kw):
                ebunch = list(ebunch)
                if rec['on']:
                    swaps.append((rec['pending'], [tuple(e) for e in ebunch]))
                    rec['pending'] = None
                super().add_edges_from(ebunch, **kw)

        class RecShuffleK(ShuffleK):
            def build(self, params):
                rec['on'] = True
                try:
                    super().build(params)
                finally:
                    rec['on'] = False

        g = RecGraph()
        g.add_nodes_from(nodes)
        g.add_edges_from([tuple(e) for e in case['edges']])
        proto_nodes = list(g.nodes()); proto_edges = list(g.edges())

        script = {'integers': list(case['script'])} if case.get('script') else None
        orc = install(Oracle(seed=case['seed'], script=script))
        orc_shuffle = orc.shuffle

        def tick():
            if len(events) >= BUDGET:
                raise Budget()

        def shuffle(lst):
            tick()
            orc_shuffle(lst)
            events.append(('shuf', [tuple(e) for e in lst]))

        import numpy
        numpy.random.shuffle = shuffle
        orig_draw = DrawSet.draw

        def draw(self):
            tick()
            e = orig_draw(self)
            elems = set(iter(self))
            enum = [x for x in nodes if x in elems]
            events.append(('draw', enum.index(e) if e in enum else len(enum), len(elems)))
            return e

        DrawSet.draw = draw
        if case.get('earlier_edges'):
            class Later(epydemic.Process):
                fail = True

                def build(self, params):
                    super().build(params)
                    if self.fail:
                        raise RuntimeError('a later stage fails in build()')
            later = Later()
            g0 = RecGraph()
            g0.add_nodes_from(nodes)
            g0.add_edges_from([tuple(e) for e in case['earlier_edges']])
            dyn = StochasticDynamics(epydemic.ProcessSequence([RecShuffleK(), later]), g0)
            try:
                dyn.set({ShuffleK.REWIRE_FRACTION: 1.0}).run(fatal=True)
            except Budget:
                pass
            except Exception:
                pass
            later.fail = False
            dyn.setNetworkGenerator(g)
            del events[:]
            del swaps[:]
            rec['pending'] = None
        else:
            dyn = StochasticDynamics(RecShuffleK(), g)
        end = {}
        dyn.simulationEnded = lambda res: end.update(nodes=list(dyn.network().nodes()), edges=list(dyn.network().edges()),
                                                     cls=type(dyn.network()).__name__)
        exc = None
        incomplete = False
        try:
            dyn.set({ShuffleK.REWIRE_FRACTION: case['f']}).run(fatal=True)
        except Budget:
            incomplete = True
        except Exception as e:  # observable behaviour
            exc = type(e).__name__ + ': ' + str(e)
        finally:
            DrawSet.draw = orig_draw
            numpy.random.shuffle = orc.shuffle
        M = len(proto_edges)
        nshuf = sum(1 for e in events if e[0] == 'shuf')
        fuel = nshuf * M + 1
        if fuel > FUEL_MAX:
            incomplete = True
        obs = {'exception': exc, 'incomplete': incomplete, 'events': events, 'fuel': fuel,
               'g_nodes': proto_nodes, 'g_edges': proto_edges,
               'nodes': end.get('nodes'), 'edges': end.get('edges'), 'swaps': swaps,
               'proto_nodes': list(g.nodes()), 'proto_edges': list(g.edges()),
               'stats': {'incomplete': int(incomplete), 'completed': int(not incomplete and exc is None),
                         'swaps': 0 if incomplete else len(swaps), 'refills': 0 if incomplete else max(0, nshuf - 1),
                         'draws': 0 if incomplete else sum(1 for e in events if e[0] == 'draw'),
                         'dropped_float_floor': case.get('dropped_before', 0)}}
        return obs

    # ------------------------------------------------------------------ D
    def direct(self, case, obs):
        if obs['incomplete']:
            return []          # the property speaks about completed builds only
        if obs['exception'] or obs['edges'] is None:
            return [{'signature': 'build-raised', 'detail': obs['exception']}]
        v = []
        E0l = [norm(tuple(e)) for e in case['edges']]
        E0 = set(E0l)
        E1l = [norm(e) for e in obs['edges']]
        E1 = set(E1l)
        M = len(E0l)
        f = case['f']
        if sorted(obs['nodes']) != sorted(case['nodes']):
            v.append({'signature': 'nodes-changed', 'detail': obs['nodes']})
        if len(E1l) != M:
            v.append({'signature': 'edge-count', 'detail': '%d edges before, %d after' % (M, len(E1l))})
        deg0 = {n: 0 for n in case['nodes']}
        for a, b in E0l:
            deg0[a] += 1; deg0[b] += 1
        deg1 = {n: 0 for n in case['nodes']}
        for a, b in E1l:
            deg1[a] = deg1.get(a, 0) + 1; deg1[b] = deg1.get(b, 0) + 1
        if deg0 != deg1:
            v.append({'signature': 'degree-changed', 'detail': {str(n): [deg0.get(n), deg1.get(n)] for n in set(deg0) | set(deg1) if deg0.get(n) != deg1.get(n)}})
        if any(a == b for a, b in E1l):
            v.append({'signature': 'self-loop', 'detail': [e for e in E1l if e[0] == e[1]]})
        if len(E1) != len(E1l):
            v.append({'signature': 'parallel-edge', 'detail': None})
        bound = 2 * math.floor(Fraction(M) * Fraction(f))
        if len(E0 - E1) > bound:
            v.append({'signature': 'edge-difference-bound', 'detail': '%d original edges missing, bound %d (M=%d, f=%r)' % (len(E0 - E1), bound, M, f)})
        if f == 0 and E0 != E1:
            v.append({'signature': 'changed-for-f-0', 'detail': sorted(E0 ^ E1)})
        if obs['proto_nodes'] != obs['g_nodes'] or obs['proto_edges'] != obs['g_edges']:
            v.append({'signature': 'prototype-modified', 'detail': None})
        return v

    # ------------------------------------------------------------------ tie B
    def to_coq(self, case, obs):
        if obs['incomplete']:
            return None
        zp = lambda es: L.lst(es, L.zpair)
        evs = []
        for e in obs['events']:
            if e[0] == 'shuf':
                evs.append('Shuf %s' % zp(e[1]))
            else:
                evs.append('Draw %s %s' % (L.nat(e[1]), L.nat(e[2])))
        bad = obs['exception'] or obs['edges'] is None
        quads = []
        for rem, add in obs['swaps']:
            # remove [(a,b),(c,d)], add [(a,d),(c,b)]
            if rem is None or len(rem) != 2 or len(add) != 2 or add != [(rem[0][0], rem[1][1]), (rem[1][0], rem[0][1])]:
                bad = True
                break
            quads.append('(%s, %s, %s, %s)' % (L.z(rem[0][0]), L.z(rem[0][1]), L.z(rem[1][0]), L.z(rem[1][1])))
        if bad:
            nodes, edges, quads = [], [(-1, -1)], []      # the model never raises: an observation that cannot match
        else:
            nodes, edges = obs['nodes'], obs['edges']
        return ('{| c_nodes := %s; c_edges := %s; c_f := %s; c_evs := %s; c_fuel := %s; o_nodes := %s; o_edges := %s; '
                'o_swaps := %s; o_proto := %s |}') % (
            L.lst(obs['g_nodes'], L.z), zp(obs['g_edges']), L.q(case['f']), L.lst(evs), L.nat(obs['fuel']),
            L.lst(nodes, L.z), zp(edges), L.lst(quads), zp(obs['proto_edges']))

    def nontrivial(self, case, obs):
        if obs['incomplete'] or obs['exception'] or not obs['swaps']:
            return None
        return (tuple(map(tuple, case['edges'])), case['f'], str(obs['swaps']))

    def sample_view(self, case, obs):
        return {'case': case, 'incomplete': obs.get('incomplete'), 'swaps': obs.get('swaps'), 'edges_after': obs.get('edges'),
                'n_events': len(obs.get('events') or [])}
