"""C06, last clause: on small networks the one-step and absorption laws of the shipped models under
synchronous dynamics equal the exactly computed ones.

Implementation side (exact, no statistics).  The random source is scripted so that every trial of a
timestep either succeeds (r = 0.0, and r <= p for every p > 0) or fails (r = 1 - 2^-40 > p for every
dyadic p < 1).  For a start state X (reached from a seed state by a scripted prefix of earlier steps)
all 2^n patterns of outcomes of the n trials of the next step are run through
SynchronousDynamics.do; a pattern has weight prod(p_i or 1 - p_i) with p_i the probability of the
event the i-th trial belongs to, read off the implementation's own registration and locus sizes;
patterns of weight 0 are not run.  Grouping by the resulting compartment assignment gives the exact
one-step law of the implementation from X, as Fractions.

Specification side (spec_law), derived from the property text and the registration order only, on
compartment maps (no loci, no DrawSets):
  every element in a locus at the START of the step undergoes each per-element event registered on the
  locus independently with the event's probability; the chosen events then fire in registration order
  (all chosen infections, then all chosen removals, ...), an element that has left its locus by its
  turn being skipped (C05).  Consequences, per model:
  SIR   (infect on SI edges, then remove on I nodes): an S node with k I-neighbours becomes I with
        probability 1-(1-pInfect)^k (the first chosen edge fires, the others find the node no longer S and
        are skipped); an I node becomes R with pRemove.  A node infected in this step is not removed in
        it (it was not in the I locus when the tranche was drawn); an I node chosen for removal still
        infects in this step, because infections fire first.  All nodes independent: product form.
  SIRS  as SIR, then resuscept on R nodes: an R node becomes S with pResuscept; independent.
  SEIR  (infectAsymptomatic on SE edges, infect on SI edges, symptoms on E nodes, remove on I nodes):
        S -> E with 1-(1-pA)^kE (1-pI)^kI, E -> I with pSymptoms, I -> R with pRemove; product form.
  SIS   registers recover BEFORE infect: the chosen recoveries fire first, and a chosen edge (s, i) whose
        infectious end recovered in this step has left the SI locus and is skipped.  So: a set Rec of I
        nodes recovers (each independently with pRecover), and then an S node with k neighbours in
        I \\ Rec becomes I with 1-(1-pInfect)^k: a mixture over Rec of product forms, NOT a product form.
  Opinion (affect on GP edges, stifle on PPT edges): an ignorant node with k spreader neighbours becomes a
        spreader with 1-(1-pAffect)^k.  The PPT locus holds each spreader-spreader edge ONCE, in an orientation
        fixed by the history of the run (MultiCompartmentedEdgeLocus.matches), so the set of PPT elements at
        the start of the step is part of the start state: it is taken from the implementation's locus and a
        spreader a becomes a stifler with 1-(1-pStifle)^(number of PPT elements whose left end is a).
        If GP and PPT are both empty the process is at equilibrium and no step runs.
The number of trials of the step is in every case the number of elements of the loci that have an event
of positive probability.

Absorbing law (SIR, SEIR: monotone, so the chain is a DAG apart from self-loops): the implementation's
kernel is built by breadth-first search from a seed state, every row by the enumeration above; the
specification's kernel by breadth-first search with spec_law; rows, trial counts and the absorption
distributions (over final compartment counts), computed from either kernel by exact recursion, must be equal."""
import itertools
from fractions import Fraction

F_FAIL = 1.0 - 2.0 ** -40
MODELS = ('SIR', 'SIS', 'SIRS', 'SEIR', 'Opinion')
MAX_TRIALS = 10
PAD = 12


def short(c):
    return str(c).split('.')[-1]


# ---------------------------------------------------------------- specification
def _pow1m(p, k):
    return (1 - p) ** k


def _product(per_node):
    """per_node: list of dicts comp -> prob.  Returns dict tuple(comps) -> prob."""
    law = {(): Fraction(1)}
    for d in per_node:
        nxt = {}
        for st, w in law.items():
            for c, q in d.items():
                if q != 0:
                    nxt[st + (c,)] = nxt.get(st + (c,), 0) + w * q
        law = nxt
    return law


def _two(c_new, q, c_old):
    d = {}
    if q != 0:
        d[c_new] = q
    if q != 1:
        d[c_old] = 1 - q
    return d


def spec_law(model, nodes, edges, pv, state, ppt=None):
    """state: tuple of short compartment names in the order of nodes.  Returns (law, ntrials)."""
    P = {k: Fraction(v) for k, v in pv.items()}
    comp = dict(zip(nodes, state))
    nb = {n: [] for n in nodes}
    for a, b in edges:
        if a != b:
            nb[a].append(b)
            nb[b].append(a)

    def cnt(n, cs):
        return sum(1 for m in nb[n] if comp[m] in cs)
    ntr = 0
    if model in ('SIR', 'SIRS'):
        pi, pr, prs = P['pInfect'], P['pRemove'], P['pAux']
        per = []
        for n in nodes:
            c = comp[n]
            if c == 'S':
                k = cnt(n, ('I',))
                ntr += k if pi > 0 else 0
                per.append(_two('I', 1 - _pow1m(pi, k), 'S'))
            elif c == 'I':
                ntr += 1 if pr > 0 else 0
                per.append(_two('R', pr, 'I'))
            elif model == 'SIRS':
                ntr += 1 if prs > 0 else 0
                per.append(_two('S', prs, 'R'))
            else:
                per.append({'R': Fraction(1)})
        return _product(per), ntr
    if model == 'SEIR':
        pa, pi, ps, pr = P['pAux'], P['pInfect'], P.get('pSym', P['pRemove']), P['pRemove']
        per = []
        for n in nodes:
            c = comp[n]
            if c == 'S':
                ke, ki = cnt(n, ('E',)), cnt(n, ('I',))
                ntr += (ke if pa > 0 else 0) + (ki if pi > 0 else 0)
                per.append(_two('E', 1 - _pow1m(pa, ke) * _pow1m(pi, ki), 'S'))
            elif c == 'E':
                ntr += 1 if ps > 0 else 0
                per.append(_two('I', ps, 'E'))
            elif c == 'I':
                ntr += 1 if pr > 0 else 0
                per.append(_two('R', pr, 'I'))
            else:
                per.append({'R': Fraction(1)})
        return _product(per), ntr
    if model == 'SIS':
        pi, prc = P['pInfect'], P['pRemove']
        inf = [n for n in nodes if comp[n] == 'I']
        ntr += len(inf) if prc > 0 else 0
        ntr += sum(cnt(n, ('I',)) for n in nodes if comp[n] == 'S') if pi > 0 else 0
        law = {}
        for mask in itertools.product((False, True), repeat=len(inf)):
            w = Fraction(1)
            for m in mask:
                w *= prc if m else 1 - prc
            if w == 0:
                continue
            rec = {n for n, m in zip(inf, mask) if m}
            per = []
            for n in nodes:
                if comp[n] == 'S':
                    k = sum(1 for m in nb[n] if comp[m] == 'I' and m not in rec)
                    per.append(_two('I', 1 - _pow1m(pi, k), 'S'))
                elif n in rec:
                    per.append({'S': Fraction(1)})
                else:
                    per.append({'I': Fraction(1)})
            for st, q in _product(per).items():
                law[st] = law.get(st, 0) + w * q
        return law, ntr
    if model == 'Opinion':
        pa, ps = P['pInfect'], P['pRemove']
        ppt = [tuple(e) for e in (ppt or [])]
        gp = sum(cnt(n, ('P',)) for n in nodes if comp[n] == 'G')
        if gp == 0 and len(ppt) == 0:
            return {tuple(state): Fraction(1)}, 0
        ntr += (gp if pa > 0 else 0) + (len(ppt) if ps > 0 else 0)
        per = []
        for n in nodes:
            c = comp[n]
            if c == 'G':
                per.append(_two('P', 1 - _pow1m(pa, cnt(n, ('P',))), 'G'))
            elif c == 'P':
                k = sum(1 for e in ppt if e[0] == n)
                per.append(_two('T', 1 - _pow1m(ps, k), 'P'))
            else:
                per.append({'T': Fraction(1)})
        return _product(per), ntr
    raise KeyError(model)


# ---------------------------------------------------------------- implementation, by enumeration
class Runner:
    def __init__(self, case):
        from harness import compart
        self.compart = compart
        self.case = case
        self.nodes = list(case['graph']['nodes'])
        self.runs = 0
        # initialCompartments: r <= 1 - pSeed gives the susceptible compartment, anything above the seed one
        self.init = [F_FAIL if n in case['seeds'] else 0.0 for n in self.nodes]

    def run(self, after_init, steps):
        c = {'model': self.case['model'], 'dynamics': 'synchronous', 'graph': self.case['graph'], 'pv': self.case['pv'],
             'seed': 1, 'inst': None, 'seq': False, 'maxtime': float(steps + 1), 'vacc': [], 'prerun': False,
             'script': {'random': self.init + list(after_init) + [F_FAIL] * PAD}}
        self.runs += 1
        obs = self.compart.run_case(c)
        if obs['exception']:
            raise ImplError(obs['exception'])
        st = tuple(short(obs['final']['comps'][n]) for n in self.nodes)
        used = len(obs['rands']) - len(self.init)
        return obs, st, used

    def step_row(self, prefix, k):
        """The exact one-step law from the state reached by k steps with the scripted values prefix.
        Returns dict with the start state, trial probabilities, law {state: Fraction}, an example pattern per state."""
        obs0, start, used0 = self.run(prefix, k)
        info = {'start': start, 'problems': []}
        if used0 != len(prefix):
            info['problems'].append(['prefix-consumption', used0, len(prefix)])
        loci = obs0['final']['loci']
        info['loci'] = {short(nm): [list(e) if isinstance(e, tuple) else e for e in els] for nm, els in loci.items()}
        regs = [r for r in obs0['registration'].get(0, []) if r['kind'] == 'elem']
        if any(r['kind'] != 'elem' for r in obs0['registration'].get(0, [])):
            info['problems'].append(['fixed-rate-event-registered'])
        tp = []
        for r in regs:
            size = len(loci[r['locus']])
            if size > 0 and r['p'] > 0.0:
                tp += [Fraction(r['p'])] * size
        info['trial_p'] = tp
        # probe: all trials fail
        obs1, st1, used1 = self.run(list(prefix) + [F_FAIL] * len(tp), k + 1)
        n = used1 - len(prefix)
        info['ntrials'] = n
        if n != len(tp):
            info['problems'].append(['trials-differ-from-locus-sizes', n, len(tp)])
            return info
        if n > MAX_TRIALS:
            info['too_big'] = True
            return info
        law, example = {}, {}
        for pat in itertools.product((0, 1), repeat=n):
            w = Fraction(1)
            for b, p in zip(pat, tp):
                w *= p if b else 1 - p
            if w == 0:
                continue
            vals = [0.0 if b else F_FAIL for b in pat]
            obs, st, used = self.run(list(prefix) + vals, k + 1)
            if used != len(prefix) + n:
                info['problems'].append(['consumption-depends-on-outcomes', list(pat), used - len(prefix), n])
            law[st] = law.get(st, 0) + w
            example.setdefault(st, vals)
        info['law'] = law
        info['example'] = example
        return info


class ImplError(Exception):
    pass


def fr(x):
    return [x.numerator, x.denominator]


def law_json(law):
    return {''.join(s) if all(len(c) == 1 for c in s) else '|'.join(s): fr(q) for s, q in sorted(law.items())}


def execute_step(case):
    """case: model, graph, pv, seeds, pathbits, k (number of earlier steps).  The prefix is found step by step."""
    R = Runner(case)
    bits = list(case.get('pathbits', []))
    prefix = []
    kdone = 0
    for j in range(case.get('k', 0)):
        # trials of step j+1: run with a long enough tail of scripted outcomes and see how many were consumed
        tail = [0.0 if b else F_FAIL for b in bits[:PAD]]
        obs, st, used = R.run(prefix + tail, j + 1)
        m = used - len(prefix)
        if m > PAD or m < 0:
            break
        prefix = prefix + tail[:m]
        bits = bits[m:] + bits[:m]
        kdone = j + 1
    try:
        info = R.step_row(prefix, kdone)
    except ImplError as e:
        return {'law_kind': 'step', 'exception': str(e)}
    out = {'law_kind': 'step', 'exception': None, 'start': list(info['start']), 'loci': info['loci'], 'problems': info['problems'],
           'ntrials': info.get('ntrials'), 'trial_p': [fr(p) for p in info.get('trial_p', [])], 'prefix': prefix, 'k': kdone,
           'runs': R.runs, 'stats': {'law_runs': R.runs}}
    if info.get('too_big') or 'law' not in info:
        out['skipped'] = True
        return out
    out['law'] = law_json(info['law'])
    out['example'] = {(''.join(s) if all(len(c) == 1 for c in s) else '|'.join(s)): v for s, v in info['example'].items()}
    out['_law'] = info['law']
    return out


def execute_absorb(case):
    R = Runner(case)
    try:
        first = R.step_row([], 0)
    except ImplError as e:
        return {'law_kind': 'absorb', 'exception': str(e)}
    seed_state = first['start']
    kernel, trials, problems, where = {}, {}, [], {seed_state: ([], 0)}
    queue = [seed_state]
    cap_states, cap_runs = case.get('cap_states', 150), case.get('cap_runs', 12000)
    skipped = False
    while queue:
        x = queue.pop(0)
        prefix, k = where[x]
        try:
            info = first if (x == seed_state and not kernel) else R.step_row(prefix, k)
        except ImplError as e:
            return {'law_kind': 'absorb', 'exception': str(e)}
        if info['start'] != x:
            problems.append(['state-not-reproduced', list(x), list(info['start'])])
        problems += info['problems']
        if info.get('too_big') or 'law' not in info or len(kernel) >= cap_states or R.runs > cap_runs:
            skipped = True
            break
        kernel[x] = info['law']
        trials[x] = info['ntrials']
        for y in sorted(info['law']):
            if y not in where:
                where[y] = (list(prefix) + info['example'][y], k + 1)
                queue.append(y)
    out = {'law_kind': 'absorb', 'exception': None, 'seed_state': list(seed_state), 'problems': problems, 'runs': R.runs,
           'states': len(kernel), 'stats': {'law_runs': R.runs, 'law_states': len(kernel)}}
    if skipped:
        out['skipped'] = True
        return out
    out['kernel'] = {''.join(x): law_json(row) for x, row in sorted(kernel.items())}
    out['trials'] = {''.join(x): n for x, n in sorted(trials.items())}
    out['prefixes'] = {''.join(x): where[x][0] for x in sorted(kernel)}
    out['_kernel'] = kernel
    out['_trials'] = trials
    return out


# ---------------------------------------------------------------- absorption, by exact recursion
def absorption(kernel, x0):
    """kernel: state -> {state: Fraction}, acyclic apart from self-loops.  Returns {absorbing state: Fraction}."""
    memo = {}
    active = set()

    def go(x):
        if x in memo:
            return memo[x]
        if x in active:
            raise ValueError('cycle through %r' % (x,))
        active.add(x)
        row = kernel[x]
        stay = row.get(x, Fraction(0))
        if stay == 1:
            res = {x: Fraction(1)}
        else:
            res = {}
            for y, q in row.items():
                if y == x:
                    continue
                for z, a in go(y).items():
                    res[z] = res.get(z, 0) + q / (1 - stay) * a
        active.discard(x)
        memo[x] = res
        return res
    return go(x0)


def sizes(dist):
    """distribution of the final compartment counts"""
    out = {}
    for st, q in dist.items():
        key = ','.join('%s%d' % (c, sum(1 for x in st if x == c)) for c in sorted(set(st)))
        out[key] = out.get(key, 0) + q
    return out


def spec_kernel(model, nodes, edges, pv, x0, cap=2000):
    kernel, trials = {}, {}
    queue = [tuple(x0)]
    seen = {tuple(x0)}
    while queue:
        x = queue.pop(0)
        law, n = spec_law(model, nodes, edges, pv, x)
        kernel[x] = law
        trials[x] = n
        for y in sorted(law):
            if y not in seen:
                seen.add(y)
                queue.append(y)
        if len(kernel) > cap:
            raise ValueError('state space too large')
    return kernel, trials


# ---------------------------------------------------------------- direct oracles
def _diff(a, b):
    keys = sorted(set(a) | set(b))
    return {''.join(k): [fr(Fraction(a.get(k, 0))), fr(Fraction(b.get(k, 0)))] for k in keys if a.get(k, 0) != b.get(k, 0)}


def direct_step(case, obs):
    model = case['model']
    if obs.get('exception'):
        return [{'signature': 'law-run-raised:' + model, 'detail': obs['exception']}]
    v = []
    for p in obs.get('problems', []):
        v.append({'signature': 'law:%s:%s' % (p[0], model), 'detail': {'problem': p, 'start': obs.get('start'), 'prefix': obs.get('prefix')}})
    if obs.get('skipped') or '_law' not in obs and 'law' not in obs:
        return v
    nodes = list(case['graph']['nodes'])
    ppt = obs['loci'].get('PPT')
    law, n = spec_law(model, nodes, case['graph']['edges'], case['pv'], tuple(obs['start']), ppt=ppt)
    impl = obs.get('_law')
    if impl is None:        # replayed from JSON
        impl = {tuple(k.split('|')) if '|' in k else tuple(k): Fraction(a, b) for k, (a, b) in obs['law'].items()}
    if n != obs['ntrials']:
        v.append({'signature': 'one-step-trial-count-differs:' + model,
                  'detail': {'start': obs['start'], 'prefix': obs['prefix'], 'implementation': obs['ntrials'], 'expected': n}})
    d = _diff(impl, law)
    if d:
        ex = {k: obs.get('example', {}).get(k) for k in d}
        v.append({'signature': 'one-step-law-differs:' + model,
                  'detail': {'start': obs['start'], 'loci': obs['loci'], 'prefix_script': obs['prefix'], 'steps_before': obs['k'],
                             'state: [implementation, expected]': d, 'pattern_reaching_state (0.0 = success)': ex}})
    tot = sum(impl.values())
    if tot != 1:
        v.append({'signature': 'one-step-law-mass-not-1:' + model, 'detail': {'mass': fr(tot)}})
    return v


def direct_absorb(case, obs):
    model = case['model']
    if obs.get('exception'):
        return [{'signature': 'law-run-raised:' + model, 'detail': obs['exception']}]
    v = []
    for p in obs.get('problems', []):
        v.append({'signature': 'law:%s:%s' % (p[0], model), 'detail': {'problem': p}})
    if obs.get('skipped'):
        return v
    kernel = obs.get('_kernel')
    trials = obs.get('_trials')
    if kernel is None:
        kernel = {tuple(x): {tuple(y): Fraction(a, b) for y, (a, b) in row.items()} for x, row in obs['kernel'].items()}
        trials = {tuple(x): n for x, n in obs['trials'].items()}
    nodes = list(case['graph']['nodes'])
    x0 = tuple(obs['seed_state'])
    sk, st = spec_kernel(model, nodes, case['graph']['edges'], case['pv'], x0)
    if set(sk) != set(kernel):
        v.append({'signature': 'reachable-states-differ:' + model,
                  'detail': {'only_implementation': sorted(''.join(x) for x in set(kernel) - set(sk)),
                             'only_expected': sorted(''.join(x) for x in set(sk) - set(kernel))}})
    for x in sorted(set(sk) & set(kernel)):
        d = _diff(kernel[x], sk[x])
        if d:
            v.append({'signature': 'one-step-law-differs:' + model,
                      'detail': {'start': ''.join(x), 'prefix_script': obs.get('prefixes', {}).get(''.join(x)), 'state: [implementation, expected]': d}})
            break
    for x in sorted(set(sk) & set(kernel)):
        if trials[x] != st[x]:
            v.append({'signature': 'one-step-trial-count-differs:' + model,
                      'detail': {'start': ''.join(x), 'implementation': trials[x], 'expected': st[x]}})
            break
    try:
        a_impl = absorption(kernel, x0)
        a_spec = absorption(sk, x0)
    except (ValueError, KeyError) as e:
        v.append({'signature': 'absorption-not-computable:' + model, 'detail': str(e)})
        return v
    d = _diff(a_impl, a_spec)
    ds = _diff({(k,): q for k, q in sizes(a_impl).items()}, {(k,): q for k, q in sizes(a_spec).items()})
    if d or ds:
        v.append({'signature': 'absorption-law-differs:' + model,
                  'detail': {'seed_state': ''.join(x0), 'final state: [implementation, expected]': d, 'final sizes': ds}})
    if sum(a_impl.values()) != 1:
        v.append({'signature': 'absorption-mass-not-1:' + model, 'detail': fr(sum(a_impl.values()))})
    return v


# ---------------------------------------------------------------- cases
DY = [0.125, 0.25, 0.5, 0.5, 0.75, 1.0]


def gen_pv(rnd):
    return {'pSeed': 0.5, 'pInfect': rnd.choice(DY), 'pRemove': rnd.choice(DY + [0.0]), 'pAux': rnd.choice(DY + [0.0]), 'pSym': rnd.choice(DY),
            'tInf': 1.0, 'eff': 0.0, 'off': 0.0}


def small_graph(rnd, lo, hi):
    from harness import compart
    return compart.gen_graph(rnd, lo=lo, hi=hi, kinds=['path', 'star', 'complete', 'cycle', 'random', 'tri_tail'])


def gen_step_cases(rnd, n):
    out = []
    for i in range(n):
        model = MODELS[i % len(MODELS)]
        g = small_graph(rnd, 2, 5 if rnd.random() < 0.5 else 4)
        nodes = g['nodes']
        seeds = [x for x in nodes if rnd.random() < 0.4] or [rnd.choice(nodes)]
        out.append({'law': 'step', 'model': model, 'graph': g, 'pv': gen_pv(rnd), 'seeds': seeds,
                    'k': rnd.choice([0, 0, 1, 1, 2, 3]), 'pathbits': [rnd.randrange(2) for _ in range(48)]})
    return out


def gen_absorb_cases(rnd, tier):
    out = []
    shapes = [('SIR', {'nodes': [0, 1, 2], 'edges': [[0, 1], [1, 2]], 'kind': 'path'}, [0]),
              ('SIR', {'nodes': [0, 1, 2], 'edges': [[0, 1], [1, 2], [0, 2]], 'kind': 'complete'}, [1]),
              ('SIR', {'nodes': [0, 1, 2, 3], 'edges': [[0, 1], [0, 2], [0, 3]], 'kind': 'star'}, [1]),
              ('SIR', {'nodes': [0, 1, 2, 3], 'edges': [[0, 1], [1, 2], [2, 3], [3, 0]], 'kind': 'cycle'}, [0, 2]),
              ('SEIR', {'nodes': [0, 1, 2], 'edges': [[0, 1], [1, 2]], 'kind': 'path'}, [1]),
              ('SEIR', {'nodes': [0, 1, 2], 'edges': [[0, 1], [1, 2], [0, 2]], 'kind': 'complete'}, [0])]
    shapes += [('SIR', {'nodes': [0, 1, 2, 3], 'edges': [[a, b] for a in range(4) for b in range(a + 1, 4)], 'kind': 'complete'}, [0])]
    if tier != 'quick':
        shapes += [
                   ('SIR', {'nodes': [0, 1, 2, 3], 'edges': [[0, 1], [1, 2], [2, 3]], 'kind': 'path'}, [1]),
                   ('SEIR', {'nodes': [0, 1, 2, 3], 'edges': [[0, 1], [0, 2], [0, 3]], 'kind': 'star'}, [0]),
                   ('SEIR', {'nodes': [0, 1, 2, 3], 'edges': [[0, 1], [1, 2], [2, 3], [3, 0]], 'kind': 'cycle'}, [0])]
        shapes = shapes + [(m, small_graph(rnd, 3, 4), None) for m in ('SIR', 'SIR', 'SEIR', 'SEIR')]
    for model, g, seeds in shapes:
        if seeds is None:
            seeds = [rnd.choice(g['nodes'])]
        pv = gen_pv(rnd)
        if pv['pRemove'] == 0.0:
            pv['pRemove'] = 0.5          # otherwise nothing is ever absorbed
        out.append({'law': 'absorb', 'model': model, 'graph': g, 'pv': pv, 'seeds': seeds})
    return out
