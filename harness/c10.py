"""C10: every run starts from a clean slate and prototypes are never modified.
Tie A (extra_obligations): every `self.x = ...` assignment of the anchored classes, collected from the
current source by `ast`, must be classified in Model/Lifecycle.v's field inventory and every per-run
field must still be assigned by the method that the model resets it in (checked by Coq).
Tie B: sequences of 2-6 runs on ONE experiment object (changing parameters, processes that post events,
equilibrium cut-offs with events still queued, an exception injected in the generator, in reset, build,
set-up, at the k-th event handler, in results collection, in tear-down; generator limits 0-3; fatal or
swallowed) against Model/Lifecycle.v: calls made, status, quota, the event stream at simulationStarted.
D: at every simulationStarted the complete state (clock, queue, finder, id counter, loci, process event
tables and own fields, working network with all attributes) and then the whole remaining run (every
event, results) must equal those of a FRESH experiment object given the same random source; the
prototype graph must equal a deep copy taken before; the quota.  Next to these differential clauses there are ABSOLUTE ones
(class- or module-level history is seen by the fresh object too): the parameters handed to _generate are this run's own,
the working network at simulationStarted is the prototype's value (plus what this run's processes wrote), a new object
with attribute dictionaries of its own; at every simulationStarted the harness writes a sentinel into every attribute
dictionary of the working network, which must show up neither in the prototype nor in a later working network.
A second stream ('ops') drives the generator directly: a word over generate / next / for-iteration / set / run against the
limit, the freshness of every network handed out and the parameters it is generated from."""
import ast
import copy
import os

import networkx

from vlib import coqlit as L
from vlib import core
from vlib.core import Harness
from vlib.oracle import Oracle, install
from harness import kscript, kcommon, compart

INJECT = ['generate', 'reset', 'build', 'build_late', 'procsetup', 'procsetup_late', 'results', 'teardown']
FAIL_COQ = {'generate': 'FGenerate', 'reset': 'FReset', 'build': 'FBuild', 'build_late': 'FBuild', 'procsetup': 'FProcSetUp',
            'procsetup_late': 'FProcSetUp', 'results': 'FResults', 'teardown': 'FProcTearDown'}
TAGS = {'setup': 'TSetUp', 'gen1': '(TGenerate true)', 'gen0': '(TGenerate false)', 'reset': 'TReset', 'build': 'TBuild',
        'procsetup': 'TProcSetUp', 'started': 'TStarted', 'results': 'TResults', 'ended': 'TEnded', 'procteardown': 'TProcTearDown',
        'torndown': 'TTornDown'}

ANCHORED = ['networkexperiment.py', 'networkdynamics.py', 'process.py', 'processsequence.py', 'compartmentedmodel.py', 'monitor.py',
            'standard_generators.py', 'generator.py', 'percolate.py']


class Injected(Exception):
    pass


def collect_fields():
    """(class, attribute) -> methods that assign it through `self.attribute = ...` (also += and annotated)"""
    import epydemic
    import epyc.experiment
    files = [os.path.join(os.path.dirname(epydemic.__file__), f) for f in ANCHORED] + [epyc.experiment.__file__]
    out = {}
    for f in files:
        tree = ast.parse(open(f).read())
        for cls in [n for n in ast.walk(tree) if isinstance(n, ast.ClassDef)]:
            for fn in [n for n in cls.body if isinstance(n, ast.FunctionDef)]:
                for n in ast.walk(fn):
                    if isinstance(n, ast.Assign):
                        tg = n.targets
                    elif isinstance(n, (ast.AugAssign, ast.AnnAssign)):
                        tg = [n.target]
                    else:
                        continue
                    flat = []
                    for x in tg:
                        flat += list(x.elts) if isinstance(x, (ast.Tuple, ast.List)) else [x]
                    for x in flat:
                        if isinstance(x, ast.Attribute) and isinstance(x.value, ast.Name) and x.value.id == 'self':
                            out.setdefault((cls.name, x.attr), set()).add(fn.name)
    return out


class Control:
    """shared between the wrappers of one experiment object"""
    def __init__(self):
        self.calls = []
        self.armed = None
        self.handlers = 0
        self.fired = False
        self.generated = 0          # calls of _generate that returned
        self.yielded = 0            # networks handed out: by generate() inside a run, or to the harness by generate()/next()
        self.direct = False         # the harness itself is calling the generator (stream 'ops')
        self.genparams = None
        self.genparams_d = None
        self.nets = []              # every working network of this object so far (kept alive: identities stay unique)

    def arm(self, inj):
        self.calls = []
        self.armed = inj
        self.handlers = 0
        self.fired = False

    def hit(self, what):
        if self.armed == what:
            self.fired = True
            raise Injected(str(what))


def build_experiment(case, limit):
    """a new experiment object for the case: returns (dyn, ctl, leaves, proto)"""
    import epydemic as ep
    ctl = Control()
    rec = kscript.Recorder()

    class Injector(ep.Process):
        def __init__(self, late):
            super().__init__()
            self.late = late

        def reset(self):
            if not self.late:
                ctl.hit('reset')
            super().reset()

        def build(self, params):
            super().build(params)
            ctl.hit('build_late' if self.late else 'build')
            self.network().order()            # a process that reads its network

        def setUp(self, params):
            super().setUp(params)
            ctl.hit('procsetup_late' if self.late else 'procsetup')

        def tearDown(self):
            if not self.late:
                ctl.hit('teardown')
            super().tearDown()

        def results(self):
            if not self.late:
                ctl.hit('results')
            return super().results()

    class VarScript(kscript.ScriptProcess):
        """a ScriptProcess whose table is selected by the experimental parameter 'variant'"""
        def __init__(self, pi):
            super().__init__(pi, None, rec)

        def reset(self):
            super().reset()
            self.rec.ids.clear()
            del self.rec.obs[:]

        def build(self, params):
            self.table = case['tables'][params['variant']]
            super().build(params)

        def _guard(self, h):
            def g(t, e):
                ctl.handlers += 1
                ctl.hit(('event', ctl.handlers))
                return h(t, e)
            return g

        def event_handler(self, j, ev):
            return self._guard(super().event_handler(j, ev))

        def posted_handler(self, prog):
            return self._guard(super().posted_handler(prog))

    leaves = [Injector(False)]
    if case['family'] == 'script':
        leaves += [VarScript(pi) for pi in range(case['nprocs'])]
    else:
        for ty in case['procs']:
            if ty == 'monitor':
                leaves.append(ep.Monitor())
            elif ty == 'percolate':
                leaves.append(ep.Percolate())
            else:
                leaves.append(compart.models()[ty]())
    leaves.append(Injector(True))
    top = ep.ProcessSequence(leaves)
    top.setMaximumTime(case['maxtime'])
    proto = compart.make_graph(case['graph'])
    for n in proto.nodes():
        proto.nodes[n]['label'] = 'n%s' % n
        proto.nodes[n]['tags'] = ['t', n]                 # a mutable value (networkx copies attribute dicts shallowly: no clause on it)
    for a, b in proto.edges():
        proto.edges[a, b]['w'] = a + b
        proto.edges[a, b]['via'] = [a, b]
    proto.graph['title'] = 'prototype'                    # graph-level attributes
    proto.graph['meta'] = ['m', proto.order()]
    # the generator is observed through a SUBCLASS (class-level overrides): instance-level wrappers would travel with a
    # copy of the object and call back into the original, hiding what a copied generator does to the quota
    base = ep.FixedNetwork
    if case['family'] == 'generated':
        # a random-network ensemble as the experiment's generator: every run must work on a network generated from
        # THIS run's parameters only (the prototype clauses do not apply: proto stays an unused dummy)
        base = {'ER': ep.ERNetwork, 'BA': ep.BANetwork, 'PLC': ep.PLCNetwork}[case['generator']]

    class Counting(base):
        def generate(self):
            g = super().generate()
            ctl.calls.append('gen1' if g is not None else 'gen0')
            if g is not None and not ctl.direct:
                ctl.yielded += 1
            return g

        def _generate(self, params):
            ctl.hit('generate')
            ctl.genparams = repr(sorted(params.items(), key=repr))      # what this run's network is generated from
            ctl.genparams_d = dict(params)
            g = super()._generate(params)
            ctl.generated += 1
            return g
    if case.get('frozen') and case['family'] != 'generated':
        proto = networkx.freeze(proto)          # a read-only reference network is a legal prototype too
    if case['family'] == 'generated':
        gen = Counting(dict(case['ctor_params']), limit=limit) if case.get('ctor_params') is not None else Counting(limit=limit)
    else:
        gen = Counting(proto, limit=limit)
    dcls = ep.StochasticDynamics if case['dynamics'] == 'stochastic' else ep.SynchronousDynamics
    plain = case.get('plain') if case['family'] != 'generated' else None
    if plain == 'ctor':
        dyn = dcls(top, proto)                  # a literal network where a generator is expected
    elif plain == 'setter':
        dyn = dcls(top, networkx.path_graph(9))
        dyn.setNetworkGenerator(proto)          # ... replacing the one given at construction
    else:
        dyn = dcls(top, gen)
    gen = dyn.networkGenerator()

    # ---- observation wrappers (instance attributes; the classes stay untouched)
    def wrap(obj, name, tag, after=False):
        orig = getattr(obj, name)

        def w(*a, **k):
            if not after:
                ctl.calls.append(tag)
            r = orig(*a, **k)
            if after:
                ctl.calls.append(tag)
            return r
        setattr(obj, name, w)
    wrap(dyn, 'setUp', 'setup')
    wrap(top, 'reset', 'reset')
    wrap(top, 'build', 'build')
    wrap(top, 'setUp', 'procsetup')
    wrap(top, 'results', 'results')
    wrap(top, 'tearDown', 'procteardown')
    wrap(dyn, 'tearDown', 'torndown', after=True)
    return dyn, ctl, leaves, proto, top, gen


def graph_value(g):
    return copy.deepcopy({'nodes': {n: dict(d) for n, d in g.nodes(data=True)},
                          'edges': {tuple(sorted((a, b))): dict(d) for a, b, d in g.edges(data=True)},
                          'graph': dict(g.graph)})


def own_dicts(g, proto):
    """no attribute dictionary of g is an attribute dictionary of proto (what Graph.copy() promises; values may be shared)"""
    if g is proto:
        return False
    if g.graph is proto.graph:
        return False
    if any(g.nodes[n] is proto.nodes[n] for n in g.nodes() if n in proto.nodes):
        return False
    return not any(g.edges[a, b] is proto.edges[a, b] for a, b in g.edges() if proto.has_edge(a, b))


def probed(gv):
    """the harness's sentinel is present in a graph value"""
    return ('_probe' in gv['graph'] or any('_probe' in d for d in gv['nodes'].values())
            or any('_probe' in d for d in gv['edges'].values()))


def write_probe(g, mark):
    for n in g.nodes():
        g.nodes[n]['_probe'] = mark
    for a, b in g.edges():
        g.edges[a, b]['_probe'] = mark
    g.graph['_probe'] = mark


def sub(a, b):
    return all(k in b and b[k] == a[k] for k in a)


def is_copy_of(net, pv, exact, edges_may_go):
    """net (a graph value) is the prototype's value pv; if not exact, plus attributes written by the run's own processes
    and (Percolate) minus edges"""
    if exact:
        return net == pv
    return (set(net['nodes']) == set(pv['nodes']) and all(sub(pv['nodes'][n], net['nodes'][n]) for n in pv['nodes'])
            and (set(net['edges']) <= set(pv['edges']) if edges_may_go else set(net['edges']) == set(pv['edges']))
            and all(sub(pv['edges'][e], net['edges'][e]) for e in net['edges'] if e in pv['edges'])
            and sub(pv['graph'], net['graph']))


def param_leak(handed, own, universe):
    """the parameters handed to _generate against the parameter point they must come from: a missing or changed key, or a
    key of ANOTHER parameter point of this case (keys the library itself may add, like the topology marker, are no leak)"""
    if handed is None:
        return None
    bad = {k: [handed.get(k, '<missing>'), own[k]] for k in own if k not in handed or handed[k] != own[k]}
    bad.update({k: [handed[k], '<absent>'] for k in handed if k not in own and k in universe})
    return bad or None


def key_universe(case):
    u = set()
    for r in case['runs']:
        u |= set(r['params'])
    for op in case.get('ops') or []:
        if op[0] == 'set':
            u |= set(op[1])
    u |= set(case.get('ctor_params') or {})
    return u


def snapshot(dyn, leaves, proto, params):
    import epydemic as ep
    finder = dyn._postedEventFinder
    net = dyn.network()
    procs = []
    for p in leaves:
        d = {'elem': [(l.name(), pr, name) for (l, pr, ef, name) in getattr(p, '_perElementEvents', [])],
             'fixed': [(l.name(), pr, name) for (l, pr, ef, name) in getattr(p, '_perLocusEvents', [])]}
        if isinstance(p, ep.CompartmentedModel):
            d['compartments'] = dict(p._compartments)
            d['effects'] = {c: len(v) for c, v in p._effects.items()}
        if isinstance(p, ep.Monitor):
            d['series'] = copy.deepcopy(p._timeSeries)
        procs.append(d)
    return {'clock': dyn._simulationTime, 'eventid': dyn._eventId,
            'queue': sorted((ev[0], ev[1], ev[1] in finder, ev[5]) for ev in dyn._postedEvents),
            'finder': sorted(finder.keys()),
            'loci': {n: list(l) for n, l in dyn._loci.items()},
            'procloci': sorted(sorted(d.keys()) for d in dyn._processLoci.values()),
            'procs': procs, 'net': graph_value(net) if net is not None else None,
            'net_distinct': net is not proto, 'topology': params.get('topology'),
            'net_own_dicts': net is None or own_dicts(net, proto),
            'results_empty': dyn._results == {}, 'metadata_keys': sorted(dyn._metadata.keys())}


def one_run(dyn, ctl, leaves, proto, gen, case, j, run):
    """run number j on the given object; returns the observation of this run"""
    import epyc
    index = {id(p): i for i, p in enumerate(leaves)}
    inj = run['inject']
    ctl.arm(tuple(inj) if isinstance(inj, list) else inj)
    params = dict(run['params'])
    obs = {'started': None, 'taps': [], 'results': None, 'budget': False, 'genparams_d': None}
    ctl.direct = False
    ctl.genparams = None
    ctl.genparams_d = None

    def started(params_):
        ctl.calls.append('started')
        obs['started'] = snapshot(dyn, leaves, proto, params_)
        obs['started']['generator_params'] = getattr(ctl, 'genparams', None)
        net = dyn.network()
        obs['started']['net_new'] = not any(net is x for x in ctl.nets)
        obs['genparams_d'] = None if ctl.genparams_d is None else dict(ctl.genparams_d)
        if net is not None:
            ctl.nets.append(net)
            write_probe(net, 'run%d' % j)        # must never be seen again: not in the prototype, not by a later run
    dyn.simulationStarted = started

    def ended(res):
        ctl.calls.append('ended')
    dyn.simulationEnded = ended

    def tap(t, p, name, e):
        obs['taps'].append((t, index.get(id(p), -1), name, e))
        if case['family'] != 'script':
            ctl.hit(('event', len(obs['taps'])))
        if len(obs['taps']) > 300:
            obs['budget'] = True
            raise kscript.Budget('run exceeds the harness budget')
    dyn.eventFired = tap
    install(Oracle(seed=case['seed'] + j))
    if case['family'] == 'generated':
        import random as _random
        import numpy as _numpy
        _random.seed(case['seed'] + j)           # networkx's and numpy's own global sources, which the ensembles draw from
        _numpy.random.seed((case['seed'] + j) % (1 << 32))
    raised = None
    rc = None
    try:
        rc = dyn.set(params).run(fatal=run['fatal'])
    except Injected as e:
        raised = 'Injected'
    except kscript.Budget:
        raised = 'Budget'
    except Exception as e:
        raised = type(e).__name__ + ': ' + str(e)
    md = dyn.metadata()
    obs.update({'calls': list(ctl.calls), 'fired': ctl.fired, 'raised': raised,
                'status': md.get(epyc.Experiment.STATUS), 'exception': type(md.get(epyc.Experiment.EXCEPTION)).__name__ if md.get(epyc.Experiment.EXCEPTION) is not None else None,
                'remaining': getattr(gen, '_remaining', None), 'generated': ctl.generated, 'yielded': ctl.yielded,
                'left_queue': len(dyn._postedEvents), 'left_finder': len(dyn._postedEventFinder),
                'time': md.get('epydemic.monitor.time'), 'events': md.get('epydemic.monitor.events'),
                'results': repr(sorted((rc or {}).get(epyc.Experiment.RESULTS, {}).items(), key=repr)) if rc else None,
                'report_params': sorted((rc or {}).get(epyc.Experiment.PARAMETERS, {}).keys()) if rc else None,
                'proto': graph_value(proto)})
    obs['_rc'] = rc
    return obs


class H(Harness):
    ID = 'C10'
    ANCHOR_FILES = ['epydemic/networkexperiment.py', 'epydemic/networkdynamics.py', 'epydemic/process.py', 'epydemic/compartmentedmodel.py',
                    'epydemic/monitor.py', 'epydemic/standard_generators.py', 'epydemic/generator.py', 'epydemic/percolate.py']
    TIE_IMPORT = 'From EpyV Require Import Model.Kernel Model.Lifecycle Tie.C10.'
    CHECK_FN = 'EpyV.Tie.C10.check_case'
    QUICK_N = 330
    THOROUGH_N = 1650
    CASE_TIMEOUT = 40
    ALLOWED_AXIOMS = set()
    RULE = ('sequences of 2-6 runs on one experiment object; 60% ScriptProcess sequences (1-2 processes, table selected by the parameter '
            '"variant" out of 2-3 tables: loci, per-element and fixed-rate events, set-up actions that post, post repeating, un-post and '
            'query, handlers that post) and 40% shipped processes (SIR, SIS, SIR_FixedRecovery, optional Monitor and Percolate) with '
            'disease parameters changing from run to run; every run independently Ok or with an exception injected in the generator, in '
            'reset, at the start or the end of build, at the start or the end of set-up, at the entry of the k-th event handler (k=1..8), '
            'in results collection or in tear-down, fatal or swallowed; generator limit none/0/1/2/3; both dynamics; plus an exhaustive '
            'block: for two fixed scenarios an exception at the k-th event for every k up to past the end of the run, followed by a clean '
            'run; 8% of the fixed-network cases hand the experiment a literal networkx Graph (constructor, or setNetworkGenerator replacing another '
            'network) instead of a generator (D only); prototypes carry node, edge and graph-level attributes, some with list values, 20% are frozen; '
            'plus a stream of n/5 cases driving the generator directly (FixedNetwork 50%, ER/BA/PLC 50%, limit none/0/1/2/3): a word of 3-8 '
            'operations over generate(), next(), a for-loop over the generator (left after 1, 2 or 5 networks), set(params) with changing key sets '
            'and runs of the experiment that owns the generator (D only); non-trivial = at least one injected failure actually fired and a later '
            'run reached simulationStarted, or (generator stream) the limit was reached')
    TRUSTED = ['Coq 8.16.1 kernel incl. vm_compute', 'harness/c10.py (instance-level wrappers for the call trace, snapshots through private attributes), '
               'harness/kscript.py, vlib/oracle.py', 'networkx Graph.copy modelled as allocation of a new object with the same value']
    ASSUMPTIONS = ['user processes keep per-run state only in fields that their reset() re-initialises (true of the shipped classes by the '
                   'field inventory; ScriptProcess test processes reset their recorder in reset())',
                   'user code reaches networks only through dynamics.network()/setNetwork()']

    # ------------------------------------------------------------- generation
    def gen_cases(self, tier, rnd, n):
        return [self.gen_case(rnd) for _ in range(n)] + [self.gen_ops_case(rnd) for _ in range(max(1, n // 5))]

    def gen_ops_case(self, rnd):
        """the generator driven directly: a word over generate / next / for-iteration / set(params) / run"""
        fam = rnd.choices(['script', 'shipped', 'generated'], [15, 35, 50])[0]
        case = self.gen_case(rnd, family=fam)
        case.pop('plain', None)
        case['limit'] = rnd.choice([None, None, 0, 1, 2, 3, 3])
        case['runs'] = [self.gen_run(rnd, case, p_inject=0.15) for _ in range(2)]
        if fam == 'generated':
            case['ctor_params'] = self.gen_run(rnd, case)['params']     # generate() before any set() works from these
        ops = []
        for _ in range(rnd.randrange(3, 9)):
            kind = rnd.choices(['generate', 'next', 'iter', 'set', 'run'], [3, 3, 1, 2, 2])[0]
            if kind == 'iter':
                ops.append(['iter', 2 if case['limit'] is None else rnd.choice([1, 5, 5])])     # the loop is left after so many networks (5: to the end of a bounded generator)
            elif kind == 'set':
                ops.append(['set', self.gen_run(rnd, case)['params']])
            elif kind == 'run':
                ops.append(['run', rnd.randrange(2)])
            else:
                ops.append([kind])
        case['ops'] = ops
        return case

    def gen_run(self, rnd, case, p_inject=0.45):
        run = {'inject': None, 'fatal': rnd.random() < 0.4}
        if rnd.random() < p_inject:
            run['inject'] = rnd.choice(INJECT + [['event', rnd.randrange(1, 9)]] * 6)
        if case['family'] == 'script':
            run['params'] = {'variant': rnd.randrange(len(case['tables']))}
        else:
            pv = compart.gen_params(rnd, case['dynamics'])
            params = {}
            for ty in case['procs']:
                if ty == 'monitor':
                    params['epydemic.monitor.time_delta'] = rnd.choice([0.25, 0.5, 1.0])
                elif ty == 'percolate':
                    params['epydemic.percolate.T'] = rnd.choice([0.25, 0.5, 0.75, 1.0])
                else:
                    params.update(compart.params_for(ty, pv))
            if case['family'] == 'generated':
                import epydemic as ep
                N = rnd.choice([6, 8, 10, 12])
                if case['generator'] == 'ER':
                    params[ep.ERNetwork.N] = N
                    if rnd.random() < 0.5:
                        params[ep.ERNetwork.PHI] = rnd.choice([0.125, 0.25, 0.5, 1.0])
                    else:
                        params[ep.ERNetwork.KMEAN] = rnd.choice([1, 2, 3])
                elif case['generator'] == 'BA':
                    params[ep.BANetwork.N] = N
                    params[ep.BANetwork.M] = rnd.choice([1, 2, 3])
                else:
                    params[ep.PLCNetwork.N] = N
                    params[ep.PLCNetwork.EXPONENT] = rnd.choice([2.0, 2.5, 3.0])
                    params[ep.PLCNetwork.CUTOFF] = rnd.choice([3, 5, 8])
                run['params'] = params
                return run
            # parameter points whose KEY SETS differ from run to run (a network family given now by one, now by another parameter)
            if rnd.random() < 0.5:
                params[rnd.choice(['phi', 'kmean', 'N', 'MperNode'])] = rnd.choice([0.125, 2, 5, 0.5])
            run['params'] = params
        return run

    def gen_case(self, rnd, family=None):
        dynamics = rnd.choice(['stochastic', 'synchronous'])
        family = family or rnd.choices(['script', 'shipped', 'generated'], [55, 30, 15])[0]
        case = {'family': family, 'dynamics': dynamics, 'graph': compart.gen_graph(rnd, lo=2, hi=6), 'seed': rnd.randrange(1 << 30),
                'limit': rnd.choice([None, None, None, 0, 1, 2, 3]), 'maxtime': rnd.choice([1.5, 2.0, 3.0])}
        if family == 'script':
            case['nprocs'] = rnd.choice([1, 1, 2])
            case['tables'] = [kcommon.gen_table(rnd, dynamics, allow=['post', 'post', 'unpost', 'query', 'laddself', 'ldiscardself'],
                                                nprocs=case['nprocs'], maxtime=case['maxtime'], rep_in_progs=True)
                              for _ in range(rnd.choice([2, 3]))]
        elif family == 'generated':
            case['generator'] = rnd.choice(['ER', 'ER', 'BA', 'PLC'])
            case['procs'] = (['percolate'] if rnd.random() < 0.4 else []) + (['monitor'] if rnd.random() < 0.5 else []) + [rnd.choice(['SIR', 'SIS'])]
            case['maxtime'] = 1.5
        else:
            procs = []
            if rnd.random() < 0.3:
                procs.append('percolate')
            if rnd.random() < 0.6:
                procs.append('monitor')
            procs.append(rnd.choice(['SIR', 'SIS', 'SIR_FixedRecovery', 'SIR_FixedRecovery']))
            case['procs'] = procs
        case['runs'] = [self.gen_run(rnd, case) for _ in range(rnd.randrange(2, 7))]
        case['frozen'] = rnd.random() < 0.2
        if family != 'generated' and rnd.random() < 0.08:
            # a literal networkx Graph where a generator is expected (constructor or setNetworkGenerator)
            case['plain'] = rnd.choice(['ctor', 'setter'])
            case['limit'] = None
        return case

    def exhaustive_cases(self, tier):
        import random
        rnd = random.Random(1010)
        out = []
        for fam in ('script', 'shipped'):
            base = self.gen_case(rnd, family=fam)
            base['limit'] = None
            base.pop('plain', None)
            ok = self.gen_run(rnd, base, p_inject=0.0)
            for k in range(1, 13 if tier == 'quick' else 25):
                c = copy.deepcopy(base)
                bad = copy.deepcopy(ok)
                bad['inject'] = ['event', k]
                bad['fatal'] = (k % 2 == 0)
                c['runs'] = [copy.deepcopy(ok), bad, copy.deepcopy(ok)]
                out.append(c)
        return out

    # ------------------------------------------------------------- execution
    def run_and_fresh(self, case, dyn, ctl, leaves, proto, gen, before, j, run):
        """run number j on the re-used object and, unless the generator was exhausted, the same run on a FRESH object"""
        o = one_run(dyn, ctl, leaves, proto, gen, case, j, run)
        o['proto_same'] = (o.pop('proto') == before)
        # the same run on a FRESH experiment object (unbounded generator) given the same random source
        if 'gen0' not in o['calls']:
            d2, c2, l2, p2, t2, g2 = build_experiment(case, None)
            f = one_run(d2, c2, l2, p2, g2, case, j, run)
            f.pop('proto')
            f.pop('_rc', None)
            o['fresh'] = {k: f[k] for k in ('started', 'taps', 'results', 'time', 'events', 'status', 'exception', 'raised', 'fired', 'calls', 'left_queue', 'left_finder')}
        return o

    def execute(self, case):
        import logging
        import epyc
        logging.getLogger(epyc.Logger).setLevel(logging.CRITICAL)      # swallowed exceptions are logged by epyc
        dyn, ctl, leaves, proto, top, gen = build_experiment(case, case['limit'])
        before = graph_value(proto)
        runs = []
        steps = []
        if case.get('ops'):
            self.execute_ops(case, dyn, ctl, leaves, proto, gen, before, runs, steps)
        else:
            for j, run in enumerate(case['runs']):
                runs.append(self.run_and_fresh(case, dyn, ctl, leaves, proto, gen, before, j, run))
        # what an earlier run returned stays what it was, whatever later runs on the same objects do
        import epyc as _epyc
        for o in runs:
            rc = o.pop('_rc', None)
            o['results_later'] = repr(sorted((rc or {}).get(_epyc.Experiment.RESULTS, {}).items(), key=repr)) if rc else None
            (o.get('fresh') or {}).pop('_rc', None)
        return {'runs': runs, 'steps': steps, 'limit': case['limit'], 'proto_value': before}

    def execute_ops(self, case, dyn, ctl, leaves, proto, gen, before, runs, steps):
        """the generator driven directly, interleaved with runs of the experiment it belongs to"""
        import random as _random
        import numpy as _numpy
        fixed = case['family'] != 'generated'
        handed = []                 # every network handed to the harness, kept alive
        cur = dict(case['ctor_params']) if case.get('ctor_params') is not None else ({} if fixed else None)
        for i, op in enumerate(case['ops']):
            kind = op[0]
            s = {'op': kind, 'index': i, 'run': None, 'items': 0, 'networks': 0, 'stopped': None, 'expected_params': None,
                 'genparams': None, 'new_objects': True, 'is_proto': False, 'values_ok': True, 'own_dicts': True}
            if kind == 'run':
                j = len(runs)
                o = self.run_and_fresh(case, dyn, ctl, leaves, proto, gen, before, j, case['runs'][op[1]])
                o['run_index'] = op[1]
                runs.append(o)
                s['run'] = j
                cur = None          # what the generator is left with after a run is the experiment's business
            else:
                ctl.arm(None)
                ctl.direct = True
                ctl.genparams = None
                ctl.genparams_d = None
                install(Oracle(seed=case['seed'] + 1000 + i))
                _random.seed(case['seed'] + 1000 + i)
                _numpy.random.seed((case['seed'] + 1000 + i) % (1 << 32))
                items = []
                if kind == 'set':
                    r = gen.set(dict(op[1]))
                    s['returns_self'] = r is gen
                    cur = dict(op[1])
                elif kind == 'generate':
                    g = gen.generate()
                    s['stopped'] = g is None
                    if g is not None:
                        items.append(g)
                elif kind == 'next':
                    try:
                        items.append(next(gen))
                        s['stopped'] = False
                    except StopIteration:
                        s['stopped'] = True
                elif kind == 'iter':
                    s['stopped'] = True
                    for g in gen:                       # __iter__ and __next__; cut after op[1] items (a runaway iterator is reported, not hung)
                        items.append(g)
                        if len(items) >= op[1]:
                            s['stopped'] = False
                            break
                else:
                    raise ValueError(kind)
                ctl.direct = False
                s['items'] = len(items)
                s['expected_params'] = None if cur is None else dict(cur)
                s['genparams'] = None if ctl.genparams_d is None else dict(ctl.genparams_d)
                for g in items:
                    if not isinstance(g, networkx.Graph):
                        continue
                    s['networks'] += 1
                    ctl.yielded += 1
                    if g is proto:
                        s['is_proto'] = True
                    if any(g is x for x in handed) or any(g is x for x in ctl.nets):
                        s['new_objects'] = False
                    if fixed:
                        if graph_value(g) != before:
                            s['values_ok'] = False
                        if not own_dicts(g, proto):
                            s['own_dicts'] = False
                    handed.append(g)
                    write_probe(g, 'op%d' % i)
            s.update({'generated': ctl.generated, 'yielded': ctl.yielded, 'remaining': getattr(gen, '_remaining', None),
                      'proto_same': graph_value(proto) == before})
            steps.append(s)

    # ------------------------------------------------------------- D
    def direct_run(self, case, obs, j, run, o, v):
        limit = case['limit']
        fixed = case['family'] != 'generated'
        where = {'run': j, 'inject': run['inject']}
        if o['budget']:
            return
        if not o['proto_same']:
            v.append({'signature': 'prototype-modified', 'detail': where})
        if o.get('results') is not None and o.get('results_later') != o['results']:
            v.append({'signature': 'results-of-an-earlier-run-changed-by-a-later-run', 'detail': dict(where, returned=o['results'][:300], later=(o.get('results_later') or '')[:300])})
        if limit is not None and (o['generated'] > limit or o['yielded'] > limit):
            v.append({'signature': 'generator-exceeded-its-limit', 'detail': dict(where, generated=o['generated'], yielded=o['yielded'], limit=limit)})
        st = o['started']
        f = o.get('fresh')
        if st is None and f is not None and f['started'] is not None:
            v.append({'signature': 'run-does-not-start-because-of-history', 'detail': dict(where, calls=o['calls'], exception=o['exception'])})
        if st is not None:
            if not st['net_distinct']:
                v.append({'signature': 'working-network-is-the-prototype', 'detail': where})
            if st['clock'] != 0.0:
                v.append({'signature': 'run-does-not-start-at-time-0', 'detail': dict(where, clock=st['clock'])})
            # ---- absolute clauses: they hold of this object alone, whatever a fresh object does
            if not st['net_new']:
                v.append({'signature': 'working-network-was-the-working-network-of-an-earlier-run', 'detail': where})
            if st['net'] is not None and probed(st['net']):
                v.append({'signature': 'working-network-carries-attributes-written-by-an-earlier-run', 'detail': dict(where, net=st['net'])})
            if fixed and st['net'] is not None:
                if not st['net_own_dicts']:
                    v.append({'signature': 'working-network-shares-attribute-dictionaries-with-the-prototype', 'detail': where})
                if not is_copy_of(st['net'], obs['proto_value'], case['family'] == 'script', 'percolate' in (case.get('procs') or [])):
                    v.append({'signature': 'working-network-is-not-a-copy-of-the-prototype', 'detail': dict(where, net=st['net'], prototype=obs['proto_value'])})
            leak = param_leak(o.get('genparams_d'), run['params'], key_universe(case))
            if leak:
                v.append({'signature': 'network-generated-from-other-parameters-than-this-run-s',
                          'detail': dict(where, differing=leak, handed=o['genparams_d'], own=run['params'])})
            # ---- differential clauses
            if f['started'] is None:
                v.append({'signature': 'fresh-object-did-not-start', 'detail': where})
            else:
                diff = [k for k in st if st[k] != f['started'][k]]
                if diff:
                    v.append({'signature': 'state-at-simulationStarted-depends-on-history:' + ','.join(sorted(diff)),
                              'detail': dict(where, differing={k: [st[k], f['started'][k]] for k in diff})})
                else:
                    for k in ('taps', 'results', 'time', 'events', 'status', 'exception', 'raised', 'fired', 'left_queue', 'left_finder'):
                        if o[k] != f[k]:
                            v.append({'signature': 'run-outcome-depends-on-history:' + k, 'detail': dict(where, reused=o[k], fresh=f[k])})
                            break

    def direct(self, case, obs):
        v = []
        limit = case['limit']
        if case.get('ops'):
            for o in obs['runs']:
                self.direct_run(case, obs, o['run_index'], case['runs'][o['run_index']], o, v)
            for s in obs['steps']:
                where = {'op': s['index'], 'kind': s['op'], 'word': [op[0] for op in case['ops']], 'limit': limit}
                if limit is not None and (s['generated'] > limit or s['yielded'] > limit):
                    v.append({'signature': 'generator-exceeded-its-limit', 'detail': dict(where, generated=s['generated'], yielded=s['yielded'])})
                if not s['proto_same']:
                    v.append({'signature': 'prototype-modified', 'detail': where})
                if s['run'] is not None:
                    continue
                if s['is_proto']:
                    v.append({'signature': 'working-network-is-the-prototype', 'detail': where})
                if not s['new_objects']:
                    v.append({'signature': 'generator-handed-out-a-network-it-had-handed-out-before', 'detail': where})
                if not s['values_ok']:
                    v.append({'signature': 'working-network-is-not-a-copy-of-the-prototype', 'detail': where})
                if not s['own_dicts']:
                    v.append({'signature': 'working-network-shares-attribute-dictionaries-with-the-prototype', 'detail': where})
                if s['networks'] > 0 and s['expected_params'] is not None:
                    leak = param_leak(s['genparams'], s['expected_params'], key_universe(case))
                    if leak:
                        v.append({'signature': 'network-generated-from-other-parameters-than-those-set',
                                  'detail': dict(where, differing=leak, handed=s['genparams'], set=s['expected_params'])})
        else:
            for j, (run, o) in enumerate(zip(case['runs'], obs['runs'])):
                self.direct_run(case, obs, j, run, o, v)
        seen = {}
        for x in v:
            seen.setdefault(x['signature'], x)
        return list(seen.values())

    # ------------------------------------------------------------- Coq
    def to_coq(self, case, obs):
        if case['family'] == 'generated':
            return None                 # ensembles of networkx: the differential against a fresh object (D) only
        if case.get('ops') or case.get('plain'):
            return None                 # the generator driven directly / a literal network (no Counting subclass to observe generate()): D only
        script = case['family'] == 'script'
        tables = L.lst([kcommon.c_table(t) for t in case['tables']]) if script else '[]'
        g = compart.make_graph(case['graph'])
        runs = []
        for run, o in zip(case['runs'], obs['runs']):
            if o['budget'] or (o['raised'] not in (None, 'Injected') and o['started'] is not None):
                return None
            inj = run['inject']
            if not o['fired']:
                outcome = 'Ok'
            elif isinstance(inj, list):
                outcome = '(FailAt (FEvent %s))' % L.nat(inj[1])
            else:
                outcome = '(FailAt %s)' % FAIL_COQ[inj]
            st = o['started']
            if st is None:
                started = 'None'
            else:
                if script:
                    nloci = len(case['tables'][run['params']['variant']]['loci'])
                    loci = [sorted(st['loci'].get('L%d' % li, [-99])) for li in range(nloci)]
                else:
                    loci = []
                started = ('(Some {| so_clock := %s; so_nextid := %s; so_queue := %s; so_loci := %s; so_nodes := %s; so_edges := %s; '
                           'so_distinct := %s |})') % (
                    L.q(st['clock']), L.nat(st['eventid']),
                    L.lst(['(%s, %s, %s)' % (L.q(t), L.nat(i), L.b(live)) for (t, i, live, _) in sorted(st['queue'], key=lambda x: x[1])]) if script else '[]',
                    L.lst([L.lst(l, kcommon.c_elem) for l in loci]),
                    L.lst(list(st['net']['nodes'].keys()), L.z), L.lst(list(st['net']['edges'].keys()), L.zpair), L.b(st['net_distinct']))
            status = 'None' if o['status'] is None else '(Some %s)' % L.b(o['status'])
            failed = (o['status'] is not True)
            runs.append(('{| r_variant := %s; r_outcome := %s; o_calls := %s; o_status := %s; o_failed := %s; o_remaining := %s; '
                         'o_generated := %s; o_started := %s; o_left_queue := %s; o_left_finder := %s; o_proto_same := %s |}') % (
                L.nat(run['params'].get('variant', 0)), outcome, L.lst([TAGS[c] for c in o['calls']]), status, L.b(failed),
                'None' if o['remaining'] is None else '(Some %s)' % (L.nat(o['remaining']) if 0 <= o['remaining'] < 4999 else '4999%nat'), L.nat(o['generated']), started,
                L.nat(o['left_queue']), L.nat(o['left_finder']), L.b(o['proto_same'])))
        return '{| c_tables := %s; c_script := %s; c_proto := (%s, %s); c_limit := %s; c_runs := %s |}' % (
            tables, L.b(script), L.lst(list(g.nodes()), L.z), L.lst([tuple(e) for e in g.edges()], L.zpair),
            'None' if case['limit'] is None else '(Some %s)' % L.nat(case['limit']), L.lst(runs))

    def nontrivial(self, case, obs):
        if case.get('ops'):
            if case['limit'] is not None and any(s['stopped'] for s in obs['steps'] if s['run'] is None and s['op'] != 'set'):
                return str((case['seed'], 'ops', [op[0] for op in case['ops']]))      # the limit was actually reached
            return None
        fired = [j for j, o in enumerate(obs['runs']) if o['fired']]
        if fired and any(o['started'] is not None for o in obs['runs'][fired[0] + 1:]):
            return str((case['seed'], case['family'], len(case['runs'])))
        return None

    def sample_view(self, case, obs):
        if case.get('ops'):
            return {'family': case['family'], 'limit': case['limit'], 'ops': [
                {'op': s['op'], 'items': s['items'], 'stopped': s['stopped'], 'generated': s['generated'], 'remaining': s['remaining']} for s in obs['steps']]}
        return {'family': case['family'], 'limit': case['limit'], 'plain': case.get('plain'), 'runs': [
            {'inject': r['inject'], 'fatal': r['fatal'], 'calls': o['calls'], 'status': o['status'], 'remaining': o['remaining'],
             'events': len(o['taps']), 'left_queue': o['left_queue']} for r, o in zip(case['runs'], obs['runs'])]}

    # ------------------------------------------------------------- tie A
    def extra_obligations(self, workdir, tier):
        found = collect_fields()
        rows = ['(%s, %s, %s)' % (L.string(c), L.string(a), L.lst(sorted(ms), L.string)) for (c, a), ms in sorted(found.items())]
        src = os.path.join(workdir, 'Inventory_C10.v')
        with open(src, 'w') as f:
            f.write('From Coq Require Import List String.\nFrom EpyV Require Import Model.Lifecycle.\nImport ListNotations.\n')
            f.write('Definition found : list (string * string * list string) := [\n  %s\n].\n' % ';\n  '.join(rows))
            f.write('Lemma inventory_current : inventory_ok found = true.\nProof. vm_compute. reflexivity. Qed.\n')
        rc, out, dt = core.coqc_file(src, timeout=300)
        detail = ''
        if rc != 0:
            detail = 'fields assigned in the source: %s\n%s' % (sorted((c, a, sorted(ms)) for (c, a), ms in found.items()), out[-1500:])
        return [('tieA:field-inventory', rc == 0, detail)]
