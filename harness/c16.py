"""C16: generating-function algebra agrees with exact polynomial arithmetic.
Tie B: programs over the Python operators (+, -, *, / with GF and Fraction operands, dx) with
Fraction coefficient lists; gf[i] and gf(x), and gf.dx(k)[i] asked several times of the one top object
(case field 'dxq' = the orders, in order), compared as exact rationals with Model/GF.v.
D: an independent exact polynomial reference (lists of Fraction) restating the property."""
import itertools
from fractions import Fraction

from vlib import coqlit as L
from vlib.core import Harness

# ------------------------------------------------------------------ programs
# ['C', [q..]]  gf_from_coefficients        ['F', [q..]]  gf_from_coefficient_function
# ['+', a, b] ['-', a, b] ['*', a, b]       GF operands
# ['+n', a, q] ['-n', a, q] ['*n', a, q] ['/', a, q]      Fraction operands
# ['dx', a, k]  a.dx(k)                     ['dx1', a]    a.dx()
# Fractions travel as 'n/d' strings.

BIN = ('+', '-', '*')
NUM = ('+n', '-n', '*n', '/')


def fr(s):
    return Fraction(s)


def fs(q):
    q = Fraction(q)
    return '%d/%d' % (q.numerator, q.denominator)


def build_py(e, memo=None):
    """memo (a dict) makes structurally equal sub-expressions ONE Python object: f*f with both factors the very same
    generating function, a sum bound to a name and used twice, ... (what a user's `f = ...; g = f * f` does)"""
    if memo is None:
        return _build_py(e, None)
    key = repr(e)
    if key not in memo:
        memo[key] = _build_py(e, memo)
    return memo[key]


def _build_py(e, memo):
    import epydemic.gf as G

    def build_py(x):
        return globals()['build_py'](x, memo)
    t = e[0]
    if t == 'C':
        return G.gf_from_coefficients([fr(c) for c in e[1]])
    if t == 'F':
        cs = [fr(c) for c in e[1]]
        return G.gf_from_coefficient_function(lambda i, cs=cs: cs[i] if i < len(cs) else Fraction(0))
    if t in BIN:
        a, b = build_py(e[1]), build_py(e[2])
        return a + b if t == '+' else a - b if t == '-' else a * b
    if t in NUM:
        a, q = build_py(e[1]), fr(e[2])
        return a + q if t == '+n' else a - q if t == '-n' else a * q if t == '*n' else a / q
    if t == 'dx':
        return build_py(e[1]).dx(e[2])
    if t == 'dx1':
        return build_py(e[1]).dx()
    raise ValueError(t)


def expr_coq(e):
    t = e[0]
    if t in ('C', 'F'):
        return '(%s %s)' % ('ECoeffs' if t == 'C' else 'EFunc', L.lst([L.q(fr(c)) for c in e[1]]))
    if t in BIN:
        return '(%s %s %s)' % ({'+': 'EAdd', '-': 'ESub', '*': 'EMul'}[t], expr_coq(e[1]), expr_coq(e[2]))
    if t in NUM:
        return '(%s %s %s)' % ({'+n': 'EAddN', '-n': 'ESubN', '*n': 'EMulN', '/': 'EDiv'}[t], expr_coq(e[1]), L.q(fr(e[2])))
    if t == 'dx':
        return '(EDx %s %s)' % (expr_coq(e[1]), L.nat(e[2]))
    if t == 'dx1':
        return '(EDx %s 1%%nat)' % expr_coq(e[1])
    raise ValueError(t)


# ------------------------------------------------------------------ D: exact polynomial reference
# a polynomial is a list of Fraction, index = power; nothing here looks at epydemic or at the Coq model

class DivisionByZero(Exception):
    pass


def p_trim(p):
    p = list(p)
    while p and p[-1] == 0:
        p.pop()
    return p


def p_add(p, q):
    return [(p[i] if i < len(p) else 0) + (q[i] if i < len(q) else 0) for i in range(max(len(p), len(q)))]


def p_scale(c, p):
    return [c * a for a in p]


def p_mul(p, q):
    r = [Fraction(0)] * max(0, len(p) + len(q) - 1)
    for i, a in enumerate(p):
        for j, b in enumerate(q):
            r[i + j] += a * b
    return r


def p_deriv(p, k=1):
    for _ in range(k):
        p = [i * p[i] for i in range(1, len(p))]
    return p


def p_eval(p, x):
    v = Fraction(0)
    for a in reversed(p):
        v = v * x + a
    return v


def p_of(e):
    t = e[0]
    if t in ('C', 'F'):
        return [fr(c) for c in e[1]]
    if t == '+':
        return p_add(p_of(e[1]), p_of(e[2]))
    if t == '-':
        return p_add(p_of(e[1]), p_scale(-1, p_of(e[2])))
    if t == '*':
        return p_mul(p_of(e[1]), p_of(e[2]))
    if t == '+n':
        return p_add(p_of(e[1]), [fr(e[2])])
    if t == '-n':
        return p_add(p_of(e[1]), [-fr(e[2])])
    if t == '*n':
        return p_scale(fr(e[2]), p_of(e[1]))
    if t == '/':
        p = p_of(e[1])
        if fr(e[2]) == 0:
            raise DivisionByZero()
        return [a / fr(e[2]) for a in p]
    if t == 'dx':
        return p_deriv(p_of(e[1]), e[2])
    if t == 'dx1':
        return p_deriv(p_of(e[1]), 1)
    raise ValueError(t)


# ------------------------------------------------------------------ cost of a case (budgeting only)
# shape of the object the operators build: 'F' | ('S', a, b) | ('P', a, b); the product rule doubles products

_SD = {}
_BUDGET = [0]


class TooBig(Exception):
    pass


def sh_deriv(s, k):
    if s == 'F':
        return 'F'
    _BUDGET[0] -= 1
    if _BUDGET[0] < 0:
        raise TooBig()
    key = (id(s), k)
    if key in _SD:
        return _SD[key][1]
    if s[0] == 'S':
        r = ('S', sh_deriv(s[1], k), sh_deriv(s[2], k))
    elif k == 0:
        r = s
    else:
        r = sh_deriv(('S', ('P', sh_deriv(s[1], 1), s[2]), ('P', s[1], sh_deriv(s[2], 1))), k - 1)
    if len(_SD) > 200000:
        _SD.clear()
    _SD[key] = (s, r)       # keeps s alive so that id(s) stays unique
    return r


def shape(e):
    t = e[0]
    if t in ('C', 'F'):
        return 'F'
    if t in ('+', '-'):
        return ('S', shape(e[1]), shape(e[2]))
    if t == '*':
        return ('P', shape(e[1]), shape(e[2]))
    if t in ('+n', '-n'):
        return ('S', shape(e[1]), 'F')
    if t in ('*n', '/'):
        return shape(e[1])
    if t == 'dx':
        return sh_deriv(shape(e[1]), e[2])
    if t == 'dx1':
        return sh_deriv(shape(e[1]), 1)


def leaves(s, memo):
    if s == 'F':
        return 1
    k = id(s)
    if k not in memo:
        memo[k] = leaves(s[1], memo) + leaves(s[2], memo)
    return memo[k]


def coeff_cost(s, i, memo):
    """work of the un-memoised recursive coefficient extraction in the Coq model"""
    if s == 'F':
        return 1
    k = (id(s), i)
    if k not in memo:
        _BUDGET[0] -= 1
        if _BUDGET[0] < 0:
            raise TooBig()
        if s[0] == 'S':
            memo[k] = 1 + coeff_cost(s[1], i, memo) + coeff_cost(s[2], i, memo)
        else:
            memo[k] = (i + 1) * (i + 2) // 2 + sum(coeff_cost(s[1], j, memo) + coeff_cost(s[2], i - j, memo) for j in range(i + 1))
    return memo[k]


def max_len(e):
    t = e[0]
    if t in ('C', 'F'):
        return len(e[1])
    if t in BIN:
        return max(max_len(e[1]), max_len(e[2]))
    if t in ('+n', '-n'):
        return max(max_len(e[1]), 1)
    return max_len(e[1])


def func_max_len(e):
    """longest list behind a gf_from_coefficient_function leaf (those are summed to term 300 only)"""
    t = e[0]
    if t == 'F':
        return len(e[1])
    if t == 'C':
        return 0
    if t in BIN:
        return max(func_max_len(e[1]), func_max_len(e[2]))
    return func_max_len(e[1])


def depth(e):
    t = e[0]
    if t in ('C', 'F'):
        return 0
    if t in BIN:
        return 1 + max(depth(e[1]), depth(e[2]))
    return 1 + depth(e[1])


def case_cost(case):
    _BUDGET[0] = 4000
    try:
        s = shape(case['expr'])
        nl = leaves(s, {})
        memo = {}
        cc = sum(coeff_cost(s, i, memo) for i in case['idx'])
        # the further queries g.dx(k)[i] on the top object: the coefficient recursion of the program ['dx', e, k]
        dxq = case.get('dxq') or []
        for k in sorted(set(dxq)):
            sk = sh_deriv(s, k)
            cc += dxq.count(k) * sum(coeff_cost(sk, i, memo) for i in case['idx'])
    except (RecursionError, TooBig):
        return 10 ** 9, 10 ** 9
    ml = max_len(case['expr'])
    return cc + nl * len(case['pts']) * (ml + 2) ** 2, nl * len(case['pts'])


# ------------------------------------------------------------------ generators

POOL = [['1', '2'], ['1/2', '0', '-3'], ['0', '1'], ['2/3', '-1/2', '1', '5'], ['-1'], ['0', '0', '1/3'], ['3', '1/4', '0', '0', '-2/5']]
NUMS = ['2', '-1', '1/2', '-3/2', '0', '1', '5/3']
POINTS = ['0', '1', '-1', '2', '1/2', '-2/3', '3/2', '-3']


def rnd_frac(rnd, small=True):
    k = rnd.randrange(8)
    if k == 0:
        return '0'
    if k == 1:
        return rnd.choice(['1', '-1'])
    d = rnd.choice([1, 1, 2, 3, 4, 5, 7]) if small else rnd.choice([1, 2, 3, 6, 11, 64, 1000])
    n = rnd.randrange(-9, 10) if small else rnd.randrange(-10 ** 6, 10 ** 6)
    return fs(Fraction(n, d))


def rnd_leaf(rnd):
    n = rnd.choice([0, 1, 1, 2, 2, 3, 3, 4, 5, 6])
    small = rnd.random() < 0.85
    return [rnd.choice(['C', 'C', 'C', 'F']), [rnd_frac(rnd, small) for _ in range(n)]]


def retag(rnd, e, p=0.25, top=True):
    """a copy of e over the SAME leaves and numeric operands in which the top GF-GF operator is another one and every deeper
    one is another one with probability p: (a + b) * c -> (a + b) + c, (a * b) + c, ..."""
    t = e[0]
    if t in BIN:
        op = rnd.choice([o for o in BIN if o != t]) if top or rnd.random() < p else t
        return [op, retag(rnd, e[1], p, False), retag(rnd, e[2], p, False)]
    if t in NUM or t == 'dx':
        return [t, retag(rnd, e[1], p, top), e[2]]
    if t == 'dx1':
        return [t, retag(rnd, e[1], p, top)]
    return e


def rnd_twin(rnd, d):
    """the same two operands combined by two DIFFERENT operators in one program, [op3, [op1, a, b], [op2, a, b]]: with
    sharing on, a and b are the very same two objects under both operators (s = f + g; p = f * g; s * p)"""
    a, b = rnd_expr(rnd, max(0, d - 2)), rnd_expr(rnd, rnd.randrange(0, max(1, d - 1)))
    if rnd.random() < 0.15:
        b = a
    one = [rnd.choice(BIN), a, b]
    two = retag(rnd, one)
    return [rnd.choice(['+', '*', '*', '-']), one, two]


def rnd_expr(rnd, d):
    if d == 0 or rnd.random() < 0.12:
        return rnd_leaf(rnd)
    k = rnd.random()
    if k < 0.06 and d >= 2:
        return rnd_twin(rnd, d)
    if k < 0.50:
        op = rnd.choice(['+', '-', '*', '*'])
        # one deep side, the other side of random depth: deep but not always bushy
        a, b = rnd_expr(rnd, d - 1), rnd_expr(rnd, rnd.randrange(0, d))
        if rnd.random() < 0.2:
            b = a               # the same sub-expression twice (one shared object when the case says so)
        if rnd.random() < 0.5:
            a, b = b, a
        return [op, a, b]
    if k < 0.75:
        q = rnd_frac(rnd)
        op = rnd.choice(NUM)
        if op == '/' and fr(q) == 0 and rnd.random() < 0.9:
            q = '3'
        return [op, rnd_expr(rnd, d - 1), q]
    if k < 0.85:
        return ['dx1', rnd_expr(rnd, d - 1)]
    return ['dx', rnd_expr(rnd, d - 1), rnd.choice([0, 1, 1, 2, 2, 3, 4, 6])]


def all_shapes(d, unary, binary):
    """all operator shapes of depth <= d with anonymous leaves (None)"""
    if d == 0:
        return [None]
    sub = all_shapes(d - 1, unary, binary)
    out = [None]
    for u in unary:
        out += [(u, s) for s in sub]
    for b in binary:
        out += [(b, s, t) for s in sub for t in sub]
    return out


def fill(shape_, ctr):
    """leaves and numeric operands from rotating pools (deterministic)"""
    if shape_ is None:
        ctr[0] += 1
        return ['C' if ctr[0] % 4 else 'F', list(POOL[ctr[0] % len(POOL)])]
    op = shape_[0]
    if op in BIN:
        return [op, fill(shape_[1], ctr), fill(shape_[2], ctr)]
    if op in NUM:
        ctr[1] += 1
        q = NUMS[ctr[1] % len(NUMS)]
        if op == '/' and fr(q) == 0:
            q = '-4'
        return [op, fill(shape_[1], ctr), q]
    if op == 'dx1':
        return ['dx1', fill(shape_[1], ctr)]
    return ['dx', fill(shape_[1], ctr), int(op[2:])]


UNARY_FULL = ('+n', '-n', '*n', '/', 'dx1', 'dx2')
UNARY_SMALL = ('*n', 'dx1')
BIN_SMALL = ('+', '*')


def queries(rnd, e, top_dx=None):
    """indices and points to ask; past the degree included"""
    try:
        deg = max(0, len(p_trim(p_of(e))) - 1)
    except DivisionByZero:
        deg = 0
    idx = sorted(set([0, 1, deg, deg + 1] + [rnd.randrange(0, deg + 3) for _ in range(3)]))
    pts = rnd.sample(POINTS, 2)
    return idx, pts


# orders of the further queries g.dx(k)[i] put to the top object after gf[i] and gf(x), in this order
DXQ_PLANS = [[1, 2, 1], [1, 2, 1], [2, 1, 2], [1, 0, 1], [3, 1], [2, 2]]
DXQ_P = 0.35
TWIN_P = 0.12       # random programs that are a twin at the top (rnd_twin), always with sharing on


class H(Harness):
    ID = 'C16'
    ANCHOR_FILES = ['epydemic/gf/gf.py', 'epydemic/gf/function_gf.py', 'epydemic/gf/discrete_gf.py', 'epydemic/gf/sum_gf.py', 'epydemic/gf/product_gf.py', 'epydemic/gf/interface.py']
    TIE_IMPORT = 'From EpyV Require Import Model.GF Tie.C16.'
    CHECK_FN = 'EpyV.Tie.C16.check_case'
    QUICK_N = 600
    THOROUGH_N = 6000
    ALLOWED_AXIOMS = set()
    COST_LIMIT = 60000          # model work per case (un-memoised coefficient recursion + evaluation)
    EVAL_LIMIT = 120            # leaves x points per case (each is a 301-term Fraction loop in the implementation)
    RULE = ('programs over gf_from_coefficients / gf_from_coefficient_function leaves (Fraction lists of length 0-6, a few of '
            'length 299-340), the operators + - * with GF operands, + - * / with Fraction operands (including / 0), dx(k) and dx() '
            'anywhere in the tree, k in 0..6; every operator shape of depth <= 2 over 6 unary and 3 binary operators (thorough: also '
            'depth <= 3 over 2 unary and 2 binary operators and depth <= 2 with two leaf fillings), random programs to depth 6 '
            '(thorough 7); coefficient FUNCTIONS whose last non-zero coefficient is at index 298, 299, 300 (= the last term of the default '
            '301-term loop), bare, differentiated and scaled, at x = 1 and -1; one object differentiated to two orders (dx(k) of '
            'x + x*y, y*x - x, x*(x + y) with x one shared object); the same two operand OBJECTS under two different operators in one '
            'program, [op3, [op1, a, b], [op2, a, b]] (every ordered pair op1 != op2 and every op3 over 7 operand pairs, also two levels '
            'deep, differentiated, and with dx(k) plans; 6% of the random binary nodes and 12% of the random programs, these with '
            'sharing on); asked: gf[i] for i in {0, 1, deg, deg+1, 3 random up to deg+2} and '
            'gf(x) at 2 of 8 rational points, and on 35% of the random cases and a fixed block further gf.dx(k)[i] on the SAME top '
            'object for a sequence of orders such as 1, 2, 1; a case is non-trivial when the program contains a product or a '
            'derivative; distinct by program')
    TRUSTED = ['Coq 8.16.1 kernel incl. vm_compute', 'harness/c16.py and vlib (translation of a program to the Python operators and to the Coq expr type)',
               'CPython fractions.Fraction arithmetic is exact rational arithmetic', 'functools.lru_cache returns what the wrapped method would return']
    ASSUMPTIONS = ['coefficients, operands and evaluation points are exact rationals (fractions.Fraction); float inputs are not covered',
                   'coefficient functions (gf_from_coefficient_function) vanish above index 300 (FunctionGF evaluates their first 301 terms only); coefficient lists may have any length since fix F12, generated up to 301 entries',
                   'numeric operands are on the right of the operator (GF defines no reflected operators)']

    def _accept(self, case):
        c, ev = case_cost(case)
        return c <= self.COST_LIMIT and ev <= self.EVAL_LIMIT

    def gen_cases(self, tier, rnd, n):
        out = []
        dmax = 6 if tier == 'quick' else 7
        self.rejected = 0
        while len(out) < n:
            d = rnd.choice([2, 3, 3, 4, 4, 5, 5] + [dmax] * 3)
            twin = rnd.random() < TWIN_P
            e = rnd_twin(rnd, rnd.choice([2, 2, 3, 3, 4])) if twin else rnd_expr(rnd, d)
            if rnd.random() < 0.5:      # a derivative on top: gf.dx(k)[i], gf.dx(k)(x)
                e = ['dx', e, rnd.choice([1, 1, 2, 3, 5])]
            idx, pts = queries(rnd, e)
            share = twin or rnd.random() < 0.5       # structurally equal sub-expressions are one shared object
            case = {'expr': e, 'idx': idx, 'pts': pts, 'share': share}
            if not self._accept(case):
                # ask less before giving up on a deep program
                case = {'expr': e, 'idx': [i for i in idx if i <= 3][:3], 'pts': pts[:1], 'share': share}
                if not self._accept(case):
                    self.rejected += 1
                    continue
            # several dx(k) on the ONE top object (the memo of dx is keyed by instance AND order), when affordable
            if rnd.random() < (0.6 if twin else DXQ_P):
                more = dict(case, dxq=rnd.choice(DXQ_PLANS))
                if self._accept(more):
                    case = more
            out.append(case)
        return out

    def exhaustive_cases(self, tier):
        import random
        rnd = random.Random(16)
        out = []
        ctr = [0, 0]
        fills = 1 if tier == 'quick' else 2
        shapes = all_shapes(2, UNARY_FULL, BIN)
        for _ in range(fills):
            for s in shapes:
                e = fill(s, ctr)
                idx, pts = queries(rnd, e)
                out.append({'expr': e, 'idx': idx, 'pts': pts})
        if tier == 'thorough':
            for s in all_shapes(3, UNARY_SMALL, BIN_SMALL):
                e = fill(s, ctr)
                idx, pts = queries(rnd, e)
                out.append({'expr': e, 'idx': idx[:5], 'pts': pts[:1]})
        # the 301-term loop: coefficient lists that end exactly at / just below the last term summed
        for n, x in ((301, '1'), (301, '-1'), (300, '2'), (299, '1/2'), (340, '1'), (340, '-1')):
            cs = [fs(Fraction((7 * i) % 5 - 2, 1 + i % 3)) for i in range(n)]
            cs[-1] = '3'
            for e in (['C', cs], ['dx1', ['C', cs]], ['*n', ['+', ['C', cs], ['C', ['1', '1']]], '1/2']):
                out.append({'expr': e, 'idx': [0, n - 2, n - 1, n], 'pts': [x]})
        # the same for coefficient FUNCTIONS, whose loop is the default one (terms 0..300): the last non-zero coefficient
        # at index 298, 299 and 300 = the last term summed (ASSUMPTIONS: they vanish above index 300)
        for n in (299, 300, 301):
            cs = [fs(Fraction((5 * i) % 7 - 3, 1 + i % 2)) for i in range(n)]
            cs[-1] = '3'
            for x in ('1', '-1'):
                for e in (['F', cs], ['dx1', ['F', cs]], ['*n', ['F', cs], '1/2']):
                    out.append({'expr': e, 'idx': [0, n - 2, n - 1, n], 'pts': [x]})
        one = ['0'] * 300 + ['1']
        out.append({'expr': ['F', one], 'idx': [0, 299, 300, 301], 'pts': ['1', '2']})
        out.append({'expr': ['+', ['F', one], ['C', ['1', '1']]], 'idx': [0, 1, 300], 'pts': ['-1']})
        # a generating function multiplied by ITSELF (one object): squares of leaves, of sums, of derivatives, cubes
        for leaf in (['C', ['1', '2']], ['C', ['1/2', '0', '-3', '2']], ['F', ['0', '1', '1/3']], ['C', ['2/3', '-1/2', '1', '5', '7']]):
            for inner in (leaf, ['+', leaf, ['C', ['1', '1']]], ['dx1', leaf], ['*n', leaf, '3']):
                for e in (['*', inner, inner], ['*', ['*', inner, inner], inner], ['dx1', ['*', inner, inner]], ['-', ['*', inner, inner], inner]):
                    out.append({'expr': e, 'idx': list(range(0, 9)), 'pts': ['1', '-1/2'], 'share': True})
        # ONE object differentiated to two different orders: Sum(x, Product(x, y)).dx(2) asks x.dx(2) and x.dx(); and the top
        # object itself asked dx(1), dx(2), dx(1) again (execute, 'dxq')
        ys = (['C', ['1', '1']], ['F', ['2', '0', '-1/3', '1']])
        xs = (['C', ['1', '2', '3', '4']], ['F', ['1/2', '0', '-3', '2', '5']], ['+', ['C', ['0', '1', '1', '1/7']], ['F', ['1', '0', '0', '2']]],
              ['*', ['C', ['1', '1']], ['C', ['1', '-2', '1/3']]], ['*n', ['C', ['3', '1/4', '0', '1', '-2/5']], '-3/2'])
        for x in xs:
            for y in ys:
                for k in (2, 3):
                    for e in (['dx', ['+', x, ['*', x, y]], k], ['dx', ['-', ['*', y, x], x], k], ['dx', ['*', x, ['+', x, y]], k]):
                        out.append({'expr': e, 'idx': list(range(0, 6)), 'pts': ['1', '-1/2'], 'share': True})
                for e in (['+', x, ['*', x, y]], ['*', x, y]):
                    for plan in ([1, 2, 1], [2, 0, 3, 2]):
                        out.append({'expr': e, 'idx': list(range(0, 6)), 'pts': ['1', '-1/2'], 'share': True, 'dxq': plan})
            for e in (['*', x, x], x):
                for plan in ([1, 2, 1], [2, 0, 3, 2]):
                    out.append({'expr': e, 'idx': list(range(0, 6)), 'pts': ['1', '-1/2'], 'share': True, 'dxq': plan})
        # the SAME two operand objects under two DIFFERENT operators in one program (s = a + b; p = a * b; then s * p, p - s, ...):
        # every ordered pair of distinct operators (the one built and asked first, the one asked second), under every operator
        # on top, bare, differentiated, and with several dx(k) asked of the one top object
        f, g, h = ['C', ['1', '2', '3']], ['C', ['4', '5/2']], ['F', ['1/2', '0', '-3', '2']]
        operands = ((f, g), (h, g), (f, f), (['+', f, g], h), (['*', f, h], g), (['dx1', h], f), (['*n', f, '-3/2'], h))
        for n_, (a, b) in enumerate(operands):
            for op1, op2 in itertools.permutations(BIN, 2):
                for op3 in BIN:
                    e = [op3, [op1, a, b], [op2, a, b]]
                    out.append({'expr': e, 'idx': list(range(0, 6)), 'pts': ['1', '-1/2'], 'share': True})
                    if op3 != '-':
                        out.append({'expr': e, 'idx': list(range(0, 5)), 'pts': ['2'], 'share': True, 'dxq': DXQ_PLANS[(n_ + len(out)) % len(DXQ_PLANS)]})
                    if n_ < 4:
                        out.append({'expr': ['dx', e, 1 + (n_ + len(out)) % 2], 'idx': list(range(0, 5)), 'pts': ['-2/3'], 'share': True})
            # two levels: ((a + b) + g') and ((a * b) * g'), ((a + b) * g') and ((a * b) + g') over the same three objects
            c = ['C', ['0', '1', '1/3']]
            for (o1, o2), (q1, q2) in ((('+', '+'), ('*', '*')), (('+', '*'), ('*', '+')), (('*', '+'), ('+', '+')), (('-', '*'), ('+', '*'))):
                for op3 in ('+', '*'):
                    e = [op3, [o2, [o1, a, b], c], [q2, [q1, a, b], c]]
                    out.append({'expr': e, 'idx': list(range(0, 6)), 'pts': ['1', '-1/2'], 'share': True})
                    out.append({'expr': e, 'idx': list(range(0, 4)), 'pts': ['1/2'], 'share': True, 'dxq': [1, 2, 1]})
        out = [c for c in out if self._accept(c) or max_len(c['expr']) > 100]
        return out

    def execute(self, case):
        # exceptions of the GF operators on a well-formed program are observable behaviour
        try:
            g = build_py(case['expr'], {} if case.get('share') else None)
            coeffs = [g[i] for i in case['idx']]
            values = [g(fr(x)) for x in case['pts']]
            # further queries on the same top object, in the order given: g.dx(k)[i]
            dxq = [[g.dx(k)[i] for i in case['idx']] for k in case.get('dxq') or []]
        except ZeroDivisionError:
            return {'zerodiv': True, 'raised': None, 'coeffs': [], 'values': [], 'dxq': []}
        except (RecursionError, ArithmeticError, LookupError, TypeError, ValueError, AttributeError, NotImplementedError) as e:
            return {'zerodiv': False, 'raised': type(e).__name__, 'coeffs': [], 'values': [], 'dxq': []}
        bad = [repr(v) for v in coeffs + values + [w for ws in dxq for w in ws] if not isinstance(v, (int, Fraction))]
        if bad:
            return {'zerodiv': False, 'raised': 'non-exact value from exact inputs: ' + bad[0], 'coeffs': [], 'values': [], 'dxq': []}
        return {'zerodiv': False, 'raised': None, 'coeffs': [fs(v) for v in coeffs], 'values': [fs(v) for v in values],
                'dxq': [[fs(v) for v in ws] for ws in dxq]}

    def direct(self, case, obs):
        v = []
        e = case['expr']
        if obs['raised']:
            return [{'signature': 'raised-' + obs['raised'].split(':')[0], 'detail': obs['raised']}]
        try:
            p = p_of(e)
        except DivisionByZero:
            if not obs['zerodiv']:
                v.append({'signature': 'division-by-zero-accepted', 'detail': None})
            return v
        if obs['zerodiv']:
            return [{'signature': 'unexpected-ZeroDivisionError', 'detail': None}]
        for i, got in zip(case['idx'], obs['coeffs']):
            want = p[i] if i < len(p) else Fraction(0)
            if fr(got) != want:
                v.append({'signature': 'coefficient', 'detail': 'gf[%d] = %s, polynomial coefficient %s' % (i, got, fs(want))})
                break
        for n, (k, gots) in enumerate(zip(case.get('dxq') or [], obs.get('dxq') or [])):
            pk = p_deriv(p, k)
            bad = [(i, got) for i, got in zip(case['idx'], gots) if fr(got) != (pk[i] if i < len(pk) else Fraction(0))]
            if bad:
                i, got = bad[0]
                v.append({'signature': 'dx-coefficient', 'detail': 'query %d on the top object: gf.dx(%d)[%d] = %s, coefficient of the derivative %s (orders asked: %s)'
                          % (n + 1, k, i, got, fs(pk[i] if i < len(pk) else Fraction(0)), case['dxq'])})
                break
        if func_max_len(e) <= 301:  # beyond it a coefficient function is truncated and the property does not apply
            for x, got in zip(case['pts'], obs['values']):
                want = p_eval(p, fr(x))
                if fr(got) != want:
                    v.append({'signature': 'value', 'detail': 'gf(%s) = %s, polynomial value %s' % (x, got, fs(want))})
                    break
        return v

    def to_coq(self, case, obs):
        dxq = [L.pair(L.nat(k), L.lst([L.q(fr(c)) for c in ws])) for k, ws in zip(case.get('dxq') or [], obs.get('dxq') or [])]
        return ('{| c_expr := %s; c_idx := %s; c_pts := %s; o_zerodiv := %s; o_coeffs := %s; o_values := %s; o_dxq := %s |}' % (
            expr_coq(case['expr']), L.lst(case['idx'], L.nat), L.lst([L.q(fr(x)) for x in case['pts']]),
            L.b(obs['zerodiv']), L.lst([L.q(fr(c)) for c in obs['coeffs']]), L.lst([L.q(fr(c)) for c in obs['values']]), L.lst(dxq)))

    def nontrivial(self, case, obs):
        s = repr(case['expr'])
        if "'*'" in s or "'dx" in s:
            return s
        return None

    def sample_view(self, case, obs):
        return {'case': case, 'coefficients': obs.get('coeffs'), 'values': obs.get('values')}
