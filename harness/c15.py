"""C15: network generators deliver the structures they promise.
Tie B (Model/Generators.v): the repository's own logic is co-executed with the model --
  quota   : NetworkGenerator set/generate/__next__ against the remaining count, parameter copying
  fixed   : FixedNetwork copies
  cp      : core-periphery assembly given the recorded networkx sub-results (the two ER graphs, the list
            connected_components returned) and the rng.random() values
  mod     : modular assembly given the recorded ER graphs, component lists and rng.choice() indices
  plc     : the degree sequence handed to configuration_model given rng.integers / rng.random and p(k)
D: everything the property text says, on the graphs the implementation returned (also for the kinds er, ba and
exp = topology marker recorded by NetworkExperiment.setUp and the working network of every run, which have no model).
"Equal copies" of a fixed network means nodes, edges and the node, edge and graph attributes; "independent" is judged with
immutable attribute values only (Graph.copy() copies the attribute dictionaries, not the values)."""
import itertools
import math
import random as pyrandom
from fractions import Fraction

import networkx
import numpy

from vlib import coqlit as L
from vlib.core import Harness
from vlib.oracle import Oracle, install

KEYS = ['a', 'b', 'c']


def norm(e):
    a, b = e
    return (a, b) if a <= b else (b, a)


def connected(nodes, edges):
    """own BFS (networkx's components are what is being relied upon elsewhere)"""
    nodes = list(nodes)
    if not nodes:
        return False
    adj = {n: set() for n in nodes}
    for a, b in edges:
        if a in adj and b in adj:
            adj[a].add(b); adj[b].add(a)
    seen = {nodes[0]}
    todo = [nodes[0]]
    while todo:
        x = todo.pop()
        for y in adj[x]:
            if y not in seen:
                seen.add(y); todo.append(y)
    return len(seen) == len(nodes)


def simple_undirected(g):
    v = []
    if g.is_directed() or g.is_multigraph():
        v.append('directed-or-multigraph')
    es = [norm(e) for e in g.edges()]
    if len(set(es)) != len(es):
        v.append('parallel-edge')
    return v


def mpf_fraction(x):
    import mpmath
    x = mpmath.mpf(x)
    sign, man, exp, _bc = x._mpf_
    f = Fraction(int(man)) * (Fraction(2) ** int(exp))
    return -f if sign else f


class patched:
    """temporarily replace attributes of a module"""
    def __init__(self, mod, **kw):
        self.mod, self.kw, self.old = mod, kw, {}

    def __enter__(self):
        for k, v in self.kw.items():
            if not hasattr(self.mod, k):
                continue              # the module no longer imports that name: nothing to observe there
            self.old[k] = getattr(self.mod, k)
            setattr(self.mod, k, v)

    def __exit__(self, *a):
        for k, v in self.old.items():
            setattr(self.mod, k, v)


ATTR_KEYS = ['w', 'tag', 'origin']
ATTR_VALUES = [0, 1, 2, 7, 41, 'x', 'yy', 'core']


def gen_attrs(rnd, p=0.6):
    """attributes as a list of [key, value] (immutable values: Graph.copy() copies the attribute dictionaries shallowly)"""
    return [[k, rnd.choice(ATTR_VALUES)] for k in ATTR_KEYS if rnd.random() < p]


def attr_items(d):
    return sorted([str(k), v] for k, v in d.items())


def full_view(g):
    """nodes, edges and the graph itself WITH their attributes, independent of iteration order"""
    return {'nodes': sorted([n, attr_items(d)] for n, d in g.nodes(data=True)),
            'edges': sorted([list(norm((a, b))), attr_items(d)] for a, b, d in g.edges(data=True)),
            'graph': attr_items(g.graph)}


def fixed_spec_view(case):
    """what an equal copy of the prototype described by the case looks like, from the case alone"""
    nat = {n: a for n, a in case.get('nattr', [])}
    eat = case.get('eattr') or [[] for _ in case['edges']]
    return {'nodes': sorted([n, sorted([str(k), v] for k, v in nat.get(n, []))] for n in case['nodes']),
            'edges': sorted([list(norm(tuple(e))), sorted([str(k), v] for k, v in a)] for e, a in zip(case['edges'], eat)),
            'graph': sorted([str(k), v] for k, v in case.get('gattr', []))}


def fixed_proto(case):
    proto = networkx.Graph()
    nat = {n: a for n, a in case.get('nattr', [])}
    for n in case['nodes']:
        proto.add_node(n, **{k: v for k, v in nat.get(n, [])})
    eat = case.get('eattr') or [[] for _ in case['edges']]
    for e, a in zip(case['edges'], eat):
        proto.add_edge(e[0], e[1], **{k: v for k, v in a})
    for k, v in case.get('gattr', []):
        proto.graph[k] = v
    if case.get('frozen'):
        networkx.freeze(proto)        # read-only in structure only: a copy of it is an ordinary, independent network
    return proto


def spoil(g, pn, pe):
    """change a copy in every way a user can: structure, new attributes, new values for existing attribute keys"""
    try:
        g.add_node(999)
        g.add_edge(999, pn[0])
        if pe:
            g.remove_edge(*pe[0])
    except networkx.NetworkXError:
        pass             # what was handed out is frozen (not a copy): the attribute changes below still go through
    g.nodes[pn[0]]['x'] = 1
    for n in list(g.nodes()):
        for k in list(g.nodes[n]):
            g.nodes[n][k] = 'spoilt'
    for a, b in list(g.edges()):
        for k in list(g.edges[a, b]):
            g.edges[a, b][k] = 'spoilt'
        g.edges[a, b]['fresh'] = 1
    for k in list(g.graph):
        g.graph[k] = 'spoilt'
    g.graph['fresh'] = 1


def dyadic(rnd, bits=4):
    return rnd.randrange(0, (1 << bits) + 1) / float(1 << bits)


def density(rnd):
    r = rnd.random()
    if r < 0.15:
        return 0.0
    if r < 0.3:
        return 1.0
    return dyadic(rnd)


class H(Harness):
    ID = 'C15'
    ANCHOR_FILES = ['epydemic/generator.py', 'epydemic/standard_generators.py', 'epydemic/plc_generator.py', 'epydemic/coreperiphery_generator.py', 'epydemic/modular_generator.py', 'epydemic/networkexperiment.py']
    TIE_IMPORT = 'From EpyV Require Import Model.Shuffle Model.Generators Tie.C15.'
    CHECK_FN = 'EpyV.Tie.C15.check_case'
    QUICK_N = 1610
    THOROUGH_N = 16100
    CASE_TIMEOUT = 30
    ALLOWED_AXIOMS = set()
    RULE = ('nine kinds in fixed proportion: reuse (ONE generator object of each class er/ba/plc/cp/mod/fixed driven through 2-4 (set, generate) '
            'steps in which one parameter changes at a time, limit None or 1-3; with python random, numpy and the oracle seeded identically every network must equal '
            'the one a fresh generator makes from the most recent parameters), '
            ' quota (random set/mutate/generate/next programs, limit None or 0-3, with and without '
            'constructor parameters), fixed (random prototype whose nodes, edges and the graph itself carry random attributes (bare every sixth time), limit; '
            'one copy is changed - structure, new attributes, new values under existing keys - before or after the others are asked for), er (N 1-30, phi in {0,1,dyadic} or kmean), '
            'ba (N 2-30, M 1..N-1), plc (N 2-12, exponent 2/2.5/3, cutoff 2/5/10/40, integers biased to small degrees), cp (N_core 1-10, '
            'N_per 1-14, densities incl. 0 and 1, rng.random scripted on multiples of 1/16 so r == phi occurs), mod (N_core 1-10, 0-4 '
            'satellites of size 1-8, densities incl. 0 and 1), exp (every generator class through NetworkExperiment.setUp: 1-4 runs of ONE experiment and ONE caller dictionary, '
            'between runs either setNetworkGenerator() with a new generator or the same generator with N changed in the dictionary or nothing changed; every run spoils its working network); '
            'non-trivial: quota with a generate after a set and a mutate, cp/mod with >= 2 components or cross links, plc with a rejected draw; '
            'distinct by the whole case')
    TRUSTED = ['Coq 8.16.1 kernel incl. vm_compute',
               'harness/c15.py and vlib (scripted rng; fast_gnp_random_graph, connected_components and configuration_model are wrapped in the '
               'generator modules to record what they returned; p(k) of the PLC model function recomputed with mpmath by the harness)',
               'networkx contracts: fast_gnp_random_graph(N, p) has nodes 0..N-1; connected_components lists the components; compose, '
               'subgraph().copy(), convert_node_labels_to_integers, set_node_attributes, add_edge, Graph.copy; configuration_model into Graph()']
    ASSUMPTIONS = ['the ER/BA/configuration-model clauses (order, simplicity, absence of self-loops) are facts about networkx: checked by D on every sample, not proved',
                   'connected_components returns the connected components (hypothesis of C15_cp_connected / C15_mod_modules_connected)']

    # ------------------------------------------------------------------ cases
    def gen_cases(self, tier, rnd, n):
        out = []
        kinds = ['quota', 'fixed', 'er', 'ba', 'plc', 'cp', 'mod', 'exp', 'reuse']
        weight = {'quota': 4, 'fixed': 2, 'er': 2, 'ba': 1, 'plc': 1, 'cp': 3, 'mod': 3, 'exp': 2, 'reuse': 6}
        bag = [k for k in kinds for _ in range(weight[k])]
        for j in range(n):
            kind = bag[j % len(bag)]
            out.append(getattr(self, 'gen_' + kind)(rnd))
        return out

    def gen_quota(self, rnd):
        ops = []
        for _ in range(rnd.randrange(1, 12)):
            r = rnd.random()
            if r < 0.2:
                ops.append(['set'])
            elif r < 0.45:
                ops.append(['mut', rnd.randrange(3), rnd.randrange(-5, 50)])
            elif r < 0.75:
                ops.append(['gen'])
            else:
                ops.append(['next'])
        return {'kind': 'quota', 'seed': rnd.randrange(1 << 30), 'ctor': rnd.random() < 0.5,
                'caller': [rnd.randrange(0, 30) for _ in KEYS], 'limit': rnd.choice([None, 0, 1, 2, 3]), 'ops': ops}

    def gen_fixed(self, rnd):
        n = rnd.randrange(1, 9)
        nodes = rnd.sample(range(0, 40), n)
        edges = [[a, b] for a, b in itertools.combinations(nodes, 2) if rnd.random() < 0.4]
        c = {'kind': 'fixed', 'seed': rnd.randrange(1 << 30), 'nodes': nodes, 'edges': edges,
             'limit': rnd.choice([None, 0, 1, 2, 3]), 'ops': [[rnd.choice(['gen', 'next'])] for _ in range(rnd.randrange(1, 6))]}
        self._gen_fixed_attrs(rnd, c)
        c['mutate_early'] = rnd.random() < 0.5       # the first copy is changed BEFORE the later ones are asked for
        c['frozen'] = rnd.random() < 0.25            # a prototype frozen with networkx.freeze
        return c

    def _gen_fixed_attrs(self, rnd, c):
        """node, edge and graph attributes of the prototype (a bare one every sixth time)"""
        if rnd.random() < 1.0 / 6:
            return
        c['nattr'] = [[n, gen_attrs(rnd)] for n in c['nodes']]
        c['eattr'] = [gen_attrs(rnd) for _ in c['edges']]
        c['gattr'] = gen_attrs(rnd)
        if not any(a for _, a in c['nattr']):
            c['nattr'][0][1] = [['origin', 1]]

    def gen_er(self, rnd):
        c = {'kind': 'er', 'seed': rnd.randrange(1 << 30), 'N': rnd.randrange(1, 31), 'limit': rnd.choice([None, 0, 1, 2, 3])}
        if rnd.random() < 0.7:
            c['phi'] = density(rnd)
        else:
            c['kmean'] = rnd.choice([0, 1, 2, 5])
        return c

    def gen_ba(self, rnd):
        N = rnd.randrange(2, 31)
        return {'kind': 'ba', 'seed': rnd.randrange(1 << 30), 'N': N, 'M': rnd.randrange(1, N), 'limit': rnd.choice([None, 0, 1, 2, 3])}

    def gen_plc(self, rnd):
        if rnd.random() < 0.3:
            # every proposal accepted (rng.random() returns 0), proposals at the ceiling of the sampler (99) and at 1:
            # the parity repair then works on nodes that already sit at the ceiling
            c = {'kind': 'plc', 'seed': rnd.randrange(1 << 30), 'N': rnd.randrange(2, 13), 'exponent': rnd.choice([2, 2.5, 3]),
                 'cutoff': rnd.choice([5, 10, 40]), 'accept_all': True,
                 'ints': [rnd.choice([98, 98, 98, 0, 0, 1, 97]) for _ in range(400)]}
            if rnd.random() < 0.15:
                c['N'] = rnd.choice([3000, 5000])      # large and sparse: a node's stubs reach distinct neighbours (D only)
                c['ints'] = [98, 98] + [rnd.choice([0, 1, 1, 2]) for _ in range(c['N'] - 3)] + [0 if rnd.random() < 0.5 else 1] + [0, 0, 1, 0, 1]
            return c
        return {'kind': 'plc', 'seed': rnd.randrange(1 << 30), 'N': rnd.randrange(2, 13), 'exponent': rnd.choice([2, 2.5, 3]),
                'cutoff': rnd.choice([2, 5, 10, 40]),
                'ints': [rnd.choice([0, 0, 0, 1, 1, 2, 3, 5, 9, 98, 99, rnd.randrange(130)]) for _ in range(400)]}

    def gen_cp(self, rnd):
        Nc, Np = rnd.randrange(1, 11), rnd.randrange(1, 15)
        return {'kind': 'cp', 'seed': rnd.randrange(1 << 30), 'Nc': Nc, 'Np': Np, 'phi_core': density(rnd), 'phi_per': density(rnd),
                'rs': [rnd.randrange(0, 16) / 16.0 for _ in range(Nc * Np)]}

    def gen_mod(self, rnd):
        return {'kind': 'mod', 'seed': rnd.randrange(1 << 30), 'Nc': rnd.randrange(1, 11), 'phi_core': density(rnd),
                'sats': rnd.randrange(0, 5), 'Ns': rnd.randrange(1, 9), 'phi_sat': density(rnd)}

    # one generator object re-used over several parameter points, one parameter changing at a time
    REUSE_KEYS = {'er': ['N', 'phi'], 'erk': ['N', 'kmean'], 'ba': ['N', 'M'], 'plc': ['N', 'exponent', 'cutoff'],
                  'cp': ['Nc', 'phi_core', 'Np', 'phi_per'], 'mod': ['Nc', 'phi_core', 'sats', 'Ns', 'phi_sat'], 'fixed': ['x', 'y']}

    def _reuse_value(self, rnd, which, key, cur):
        if key in ('phi', 'phi_core', 'phi_per', 'phi_sat'):
            return density(rnd)
        if key == 'kmean':
            return rnd.choice([0, 1, 2, 5])
        if key == 'exponent':
            return rnd.choice([2, 2.5, 3])
        if key == 'cutoff':
            return rnd.choice([2, 3, 5, 10, 40])
        if key == 'sats':
            return rnd.randrange(0, 5)
        if key == 'M':
            return rnd.randrange(1, cur['N'])
        if key == 'N':
            lo = 2 if which in ('ba', 'plc') else 1
            return rnd.randrange(max(lo, cur.get('M', 0) + 1), 13 if which == 'plc' else 25)
        if key in ('Nc', 'Np', 'Ns'):
            return rnd.randrange(1, 11)
        return rnd.randrange(100)

    def gen_reuse(self, rnd):
        which = rnd.choice(['er', 'erk', 'ba', 'plc', 'plc', 'cp', 'mod', 'fixed'])
        keys = self.REUSE_KEYS[which]
        cur = {}
        for k in (['N'] if 'N' in keys else []) + [k for k in keys if k != 'N']:
            cur[k] = self._reuse_value(rnd, which, k, cur)
        steps = [dict(cur)]
        for _ in range(rnd.randrange(1, 4)):
            for _try in range(20):
                k = rnd.choice(keys)
                v = self._reuse_value(rnd, which, k, cur)
                if v != cur[k]:
                    cur[k] = v
                    break
            steps.append(dict(cur))
        c = {'kind': 'reuse', 'seed': rnd.randrange(1 << 30), 'which': which, 'limit': rnd.choice([None, None, 1, 2, 3]), 'steps': steps}
        if which == 'plc':
            c['ints'] = [rnd.choice([0, 0, 0, 1, 1, 2, 3, 5, 9, 98, 99, rnd.randrange(130)]) for _ in range(400)]
        if which == 'fixed':
            n = rnd.randrange(1, 7)
            c['nodes'] = rnd.sample(range(0, 30), n)
            c['edges'] = [[a, b] for a, b in itertools.combinations(c['nodes'], 2) if rnd.random() < 0.5]
            self._gen_fixed_attrs(rnd, c)
        return c

    def gen_exp(self, rnd):
        kinds = ['fixed', 'graph', 'er', 'ba', 'plc', 'cp', 'mod']
        which = rnd.choice(kinds)
        c = {'kind': 'exp', 'seed': rnd.randrange(1 << 30), 'which': which, 'N': rnd.randrange(3, 12)}
        if rnd.random() < 0.3:
            c['dense'] = True        # core-periphery and modular with all densities 1: the order of the network is determined
        if rnd.random() < 0.8:
            # further runs of the SAME experiment with the SAME parameter dictionary: after setNetworkGenerator() with a new
            # generator (a kind), or KEEPING the generator while the caller changes N in its dictionary, or changes nothing (['keep', N])
            then = []
            n = c['N']
            for _ in range(rnd.choice([1, 2, 2, 3])):
                if rnd.random() < 0.55:
                    if rnd.random() < 0.75:      # otherwise: simply once more, nothing changed
                        n = rnd.choice([x for x in range(3, 12) if x != n])
                    then.append(['keep', n])
                else:
                    then.append(rnd.choice(kinds))
            c['then'] = then
        return c

    def exhaustive_cases(self, tier):
        # quota: every program of length <= 4 (5 in thorough) over {set, mutate, generate, next}, limits None/0/1/2
        out = []
        alphabet = [['set'], ['mut', 1, 77], ['gen'], ['next']]
        maxlen = 4 if tier == 'quick' else 5
        for ln in range(1, maxlen + 1):
            for prog in itertools.product(alphabet, repeat=ln):
                if not any(o[0] in ('gen', 'next') for o in prog):
                    continue
                for limit in (None, 0, 1, 2):
                    for ctor in ((False, True) if ln <= 3 else (True,)):
                        out.append({'kind': 'quota', 'seed': 1, 'ctor': ctor, 'caller': [1, 2, 3], 'limit': limit, 'ops': [list(o) for o in prog]})
        return out

    # ------------------------------------------------------------------ implementation
    def execute(self, case):
        pyrandom.seed(case['seed'])
        numpy.random.seed(case['seed'] % (1 << 32))
        obs = getattr(self, 'run_' + case['kind'])(case)
        obs.setdefault('stats', {})[case['kind']] = 1
        return obs

    # .... quota
    def run_quota(self, case):
        from epydemic import NetworkGenerator
        made = []

        class TagGen(NetworkGenerator):
            def topology(self):
                return 'tag'

            def _generate(self, params):
                g = networkx.Graph()
                g.graph['seen'] = [params[k] for k in KEYS if k in params]
                made.append(g)
                return g

        caller = dict(zip(KEYS, case['caller']))
        gen = TagGen(caller, limit=case['limit']) if case['ctor'] else TagGen(limit=case['limit'])
        outs = []
        snap = None
        expect = []
        for op in case['ops']:
            if op[0] == 'set':
                r = gen.set(caller)
                snap = [caller[k] for k in KEYS]
                if r is not gen:
                    outs.append(['bad-set-result'])
            elif op[0] == 'mut':
                caller[KEYS[op[1]]] = op[2]
            elif op[0] == 'gen':
                g = gen.generate()
                outs.append(['none'] if g is None else ['graph', g.graph['seen']])
                expect.append(snap)
            else:
                try:
                    g = next(gen)
                    outs.append(['graph', g.graph['seen']])
                except StopIteration:
                    outs.append(['stop'])
                expect.append(snap)
        return {'outs': outs, 'expect': expect, 'iter_self': iter(gen) is gen}

    # .... fixed
    def run_fixed(self, case):
        from epydemic import FixedNetwork
        proto = fixed_proto(case)
        pn, pe = list(proto.nodes()), list(proto.edges())
        gen = FixedNetwork(proto, limit=case['limit'])
        gs, outs, views = [], [], []
        spoilt = None
        for op in case['ops']:
            if op[0] == 'gen':
                g = gen.generate()
            else:
                try:
                    g = next(gen)
                except StopIteration:
                    g = None
            gs.append(g)
            # what the copy looks like when it is handed out
            outs.append(None if g is None else [list(g.nodes()), [list(e) for e in g.edges()]])
            views.append(None if g is None else full_view(g))
            if g is not None and spoilt is None and case.get('mutate_early'):
                spoilt = g
                spoil(g, pn, pe)
        real = [g for g in gs if g is not None]
        distinct = all(g is not proto for g in real) and len({id(g) for g in real}) == len(real)
        if spoilt is None and real:
            spoilt = real[0]
            spoil(spoilt, pn, pe)
        # ... and what the prototype and the OTHER copies look like at the end
        independent = True
        for g in [proto] + [g for g in real if g is not spoilt]:
            if list(g.nodes()) != pn or [norm(e) for e in g.edges()] != [norm(e) for e in pe] or 'x' in g.nodes[pn[0]]:
                independent = False
        return {'outs': outs, 'proto_nodes': pn, 'proto_edges': [list(e) for e in pe], 'distinct': distinct, 'independent': independent,
                'views': views, 'spec': fixed_spec_view(case), 'final_proto': full_view(proto),
                'final_others': [[w, full_view(g)] for g, w in zip(gs, views) if g is not None and g is not spoilt],
                'topology': gen.topology(), 'stats': {'fixed_with_attributes': 1 if case.get('nattr') else 0}}

    # .... er / ba: nothing of the repository's own to model; D only
    def _collect(self, gen, limit):
        if limit is None:
            return [gen.generate(), next(gen)], None
        gs = list(gen)
        return gs, gen.generate()

    def run_er(self, case):
        from epydemic import ERNetwork
        params = {ERNetwork.N: case['N']}
        if 'phi' in case:
            params[ERNetwork.PHI] = case['phi']
        else:
            params[ERNetwork.KMEAN] = case['kmean']
        gen = ERNetwork(limit=case['limit']).set(params)
        gs, after = self._collect(gen, case['limit'])
        return {'graphs': gs, 'after': after, 'topology': gen.topology()}

    def run_ba(self, case):
        from epydemic import BANetwork
        gen = BANetwork(limit=case['limit']).set({BANetwork.N: case['N'], BANetwork.M: case['M']})
        gs, after = self._collect(gen, case['limit'])
        return {'graphs': gs, 'after': after, 'topology': gen.topology()}

    # .... plc
    def run_plc(self, case):
        import epydemic.plc_generator as PM
        from epydemic import PLCNetwork
        import mpmath
        script = {'integers': case['ints']}
        if case.get('accept_all'):
            script['random'] = [0.0] * (len(case['ints']) + 8)
        orc = install(Oracle(seed=case['seed'], script=script))
        rec = {}
        real_cm = PM.configuration_model

        def cm(ns, **kw):
            rec['ns'] = list(ns)
            return real_cm(ns, **kw)

        exc = None
        g = None
        with patched(PM, configuration_model=cm):
            try:
                g = PLCNetwork().set({PLCNetwork.N: case['N'], PLCNetwork.EXPONENT: case['exponent'], PLCNetwork.CUTOFF: case['cutoff']}).generate()
            except Exception as e:     # observable
                exc = type(e).__name__ + ': ' + str(e)
        # the random choices in order
        evs = []
        log = list(orc.log)
        j = 0
        while j < len(log):
            e = log[j]
            if e[0] == 'integers' and e[1] == 1:
                r = log[j + 1]
                assert r[0] == 'random'
                evs.append(['k', e[3], r[1]])
                j += 2
            elif e[0] == 'integers':
                evs.append(['i', e[3]])
                j += 1
            else:
                raise AssertionError('unexpected oracle call %r' % (e,))
        alpha, kappa = case['exponent'], case['cutoff']
        C = mpmath.polylog(alpha, math.exp(-1.0 / kappa))
        ptab = [mpf_fraction((pow(k + 0.0, -alpha) * math.exp(-(k + 0.0) / kappa)) / C) for k in range(1, 100)]
        return {'exception': exc, 'g': g, 'ns': rec.get('ns'), 'evs': evs, 'ptab': ptab,
                'stats': {'plc_draws': len(evs), 'plc_repairs': sum(1 for e in evs if e[0] == 'i')}}

    # .... core-periphery
    def run_cp(self, case):
        import epydemic.coreperiphery_generator as CM
        from epydemic import CorePeripheryNetwork as CP
        orc = install(Oracle(seed=case['seed'], script={'random': case['rs']}))
        rec = {'gnp': [], 'comps': [], 'orders': []}
        real_gnp, real_cc, real_conv = (getattr(CM, k, None) for k in ('fast_gnp_random_graph', 'connected_components', 'convert_node_labels_to_integers'))

        def conv(g, *a, **kw):
            rec['orders'].append(list(g.nodes()))
            return real_conv(g, *a, **kw)

        def gnp(n, p, *a, **kw):
            g = real_gnp(n, p, *a, **kw)
            rec['gnp'].append((list(g.nodes()), [tuple(e) for e in g.edges()]))
            return g

        def cc(g):
            cs = [set(c) for c in real_cc(g)]
            rec['comps'].append([sorted(c) for c in cs])
            return iter(cs)

        exc = None
        g = None
        with patched(CM, fast_gnp_random_graph=gnp, connected_components=cc, convert_node_labels_to_integers=conv):
            try:
                g = CP().set({CP.N_core: case['Nc'], CP.PHI_core: case['phi_core'], CP.N_per: case['Np'], CP.PHI_per: case['phi_per']}).generate()
            except Exception as e:
                exc = type(e).__name__ + ': ' + str(e)
        obs = {'exception': exc, 'g': g, 'gnp': rec['gnp'], 'comps': rec['comps'], 'orders': rec['orders'], 'rs': [e[1] for e in orc.values('random')]}
        if g is not None:
            obs['nodes'] = [(n, g.nodes[n].get(CP.ORIGIN)) for n in g.nodes()]
            obs['edges'] = [tuple(e) for e in g.edges()]
            obs['core'] = list(CP.coreSubNetwork(g).nodes())
            obs['per'] = list(CP.peripherySubNetwork(g).nodes())
            obs['stats'] = {'cp_components': len(rec['comps'][0]) if rec['comps'] else 0}
        return obs

    # .... modular
    def run_mod(self, case):
        import epydemic.modular_generator as MM
        from epydemic import ModularNetwork as MN
        orc = install(Oracle(seed=case['seed']))
        rec = {'gnp': [], 'comps': [], 'orders': []}
        real_gnp, real_cc, real_conv = (getattr(MM, k, None) for k in ('fast_gnp_random_graph', 'connected_components', 'convert_node_labels_to_integers'))

        def conv(g, *a, **kw):
            rec['orders'].append(list(g.nodes()))
            return real_conv(g, *a, **kw)

        def gnp(n, p, *a, **kw):
            g = real_gnp(n, p, *a, **kw)
            rec['gnp'].append((list(g.nodes()), [tuple(e) for e in g.edges()]))
            return g

        def cc(g):
            cs = [set(c) for c in real_cc(g)]
            rec['comps'].append([sorted(c) for c in cs])
            return iter(cs)

        exc = None
        g = None
        with patched(MM, fast_gnp_random_graph=gnp, connected_components=cc, convert_node_labels_to_integers=conv):
            try:
                g = MN().set({MN.N_core: case['Nc'], MN.PHI_core: case['phi_core'], MN.SATELLITES: case['sats'],
                              MN.N_sat: case['Ns'], MN.PHI_sat: case['phi_sat']}).generate()
            except Exception as e:
                exc = type(e).__name__ + ': ' + str(e)
        obs = {'exception': exc, 'g': g, 'gnp': rec['gnp'], 'comps': rec['comps'], 'orders': rec['orders'], 'choices': [(e[1], e[2]) for e in orc.values('choice')]}
        if g is not None:
            obs['nodes'] = [(n, g.nodes[n].get(MN.ORIGIN), g.nodes[n].get(MN.CORE_LINK)) for n in g.nodes()]
            obs['edges'] = [tuple(e) for e in g.edges()]
            obs['modules'] = [list(MN.satelliteSubNetwork(g, i).nodes()) for i in range(case['sats'] + 2)]
            obs['module_edges'] = [[tuple(e) for e in MN.satelliteSubNetwork(g, i).edges()] for i in range(case['sats'] + 2)]
            obs['core'] = list(MN.coreSubNetwork(g).nodes())
        return obs

    # .... one generator object re-used
    def _reuse_make(self, case, limit):
        from epydemic import (FixedNetwork, ERNetwork, BANetwork, PLCNetwork, CorePeripheryNetwork as CP, ModularNetwork as MN)
        w = case['which']
        if w == 'fixed':
            return FixedNetwork(fixed_proto(case), limit=limit)
        cls = {'er': ERNetwork, 'erk': ERNetwork, 'ba': BANetwork, 'plc': PLCNetwork, 'cp': CP, 'mod': MN}[w]
        return cls(limit=limit)

    def _reuse_params(self, case, st):
        from epydemic import (ERNetwork, BANetwork, PLCNetwork, CorePeripheryNetwork as CP, ModularNetwork as MN)
        w = case['which']
        if w == 'er':
            return {ERNetwork.N: st['N'], ERNetwork.PHI: st['phi']}
        if w == 'erk':
            return {ERNetwork.N: st['N'], ERNetwork.KMEAN: st['kmean']}
        if w == 'ba':
            return {BANetwork.N: st['N'], BANetwork.M: st['M']}
        if w == 'plc':
            return {PLCNetwork.N: st['N'], PLCNetwork.EXPONENT: st['exponent'], PLCNetwork.CUTOFF: st['cutoff']}
        if w == 'cp':
            return {CP.N_core: st['Nc'], CP.PHI_core: st['phi_core'], CP.N_per: st['Np'], CP.PHI_per: st['phi_per']}
        if w == 'mod':
            return {MN.N_core: st['Nc'], MN.PHI_core: st['phi_core'], MN.SATELLITES: st['sats'], MN.N_sat: st['Ns'], MN.PHI_sat: st['phi_sat']}
        return dict(st)

    def _reuse_seed(self, case, j):
        sd = case['seed'] + 7919 * j
        pyrandom.seed(sd)
        numpy.random.seed(sd % (1 << 32))
        script = {'integers': list(case['ints'])} if case.get('ints') else None
        return install(Oracle(seed=sd, script=script))

    @staticmethod
    def _graph_view(g):
        if g is None:
            return None
        return {'nodes': [[n, sorted((str(k), v) for k, v in d.items())] for n, d in g.nodes(data=True)],
                'edges': sorted([list(norm((a, b))), attr_items(d)] for a, b, d in g.edges(data=True)),
                'graph': attr_items(g.graph)}

    def run_reuse(self, case):
        import epydemic.plc_generator as PM
        import mpmath
        gen = self._reuse_make(case, case['limit'])
        steps = []
        last_plc = None
        for j, st in enumerate(case['steps']):
            params = self._reuse_params(case, st)
            rec = {}
            real_cm = PM.configuration_model

            def cm(ns, **kw):
                rec['ns'] = list(ns)
                return real_cm(ns, **kw)

            one = {'exception': None}
            # the re-used object
            orc = self._reuse_seed(case, j)
            with patched(PM, configuration_model=cm):
                try:
                    r = gen.set(params)
                    g = gen.generate()
                    one['set_returns_self'] = r is gen
                    one['reused'] = self._graph_view(g)
                    if case['which'] == 'fixed' and g is not None:
                        one['reused_full'] = full_view(g)
                except Exception as e:      # observable
                    one['exception'] = 'reused: ' + type(e).__name__ + ': ' + str(e)
            log = list(orc.log)
            ns = rec.get('ns')
            # a fresh object, same parameters, same random sources
            self._reuse_seed(case, j)
            try:
                one['fresh'] = self._graph_view(self._reuse_make(case, None).set(dict(params)).generate())
            except Exception as e:
                one['fresh_exception'] = type(e).__name__ + ': ' + str(e)
                one['fresh'] = None
            if case['which'] == 'plc' and ns is not None and one['exception'] is None:
                last_plc = (st, log, ns)
            steps.append(one)
        obs = {'steps': steps, 'plc': None}
        if case['which'] == 'fixed':
            obs['spec'] = fixed_spec_view(case)
        if last_plc is not None:
            st, log, ns = last_plc
            evs = []
            j = 0
            while j < len(log):
                e = log[j]
                if e[0] == 'integers' and e[1] == 1:
                    evs.append(['k', e[3], log[j + 1][1]]); j += 2
                elif e[0] == 'integers':
                    evs.append(['i', e[3]]); j += 1
                else:
                    raise AssertionError('unexpected oracle call %r' % (e,))
            alpha, kappa = st['exponent'], st['cutoff']
            C = mpmath.polylog(alpha, math.exp(-1.0 / kappa))
            obs['plc'] = {'N': st['N'], 'evs': evs, 'ns': ns,
                          'ptab': [mpf_fraction((pow(k + 0.0, -alpha) * math.exp(-(k + 0.0) / kappa)) / C) for k in range(1, 100)]}
        obs['stats'] = {'reuse_' + case['which']: 1, 'reuse_steps': len(steps)}
        return obs

    # .... topology marker
    def run_exp(self, case):
        import epyc
        from epydemic import (NetworkExperiment, NetworkGenerator, FixedNetwork, ERNetwork, BANetwork, PLCNetwork,
                              CorePeripheryNetwork as CP, ModularNetwork as MN)
        install(Oracle(seed=case['seed']))
        params = {'unrelated': 1}
        phi, phi_per = (1.0, 1.0) if case.get('dense') else (0.5, 0.25)
        protos = []

        def make(w, N):
            if w in ('fixed', 'graph'):
                g = networkx.path_graph(N)
                protos.append((g, N))
                return (FixedNetwork(g) if w == 'fixed' else g), 'Arbitrary'
            return {'er': ERNetwork, 'ba': BANetwork, 'plc': PLCNetwork, 'cp': CP, 'mod': MN}[w](), \
                   {'er': 'ER', 'ba': 'BA', 'plc': 'PLC', 'cp': 'ER-core-periphery', 'mod': 'ER-modular'}[w]

        def extra(w, N):
            if w == 'er':
                return {ERNetwork.N: N, ERNetwork.PHI: phi}
            if w == 'ba':
                return {BANetwork.N: N, BANetwork.M: 2}
            if w == 'plc':
                return {PLCNetwork.N: N, PLCNetwork.EXPONENT: 2, PLCNetwork.CUTOFF: 5}
            if w == 'cp':
                return {CP.N_core: N, CP.PHI_core: phi, CP.N_per: N, CP.PHI_per: phi_per}
            if w == 'mod':
                return {MN.N_core: N, MN.PHI_core: phi, MN.SATELLITES: 2, MN.N_sat: 3, MN.PHI_sat: phi}
            return {}

        seen = []

        class E(NetworkExperiment):
            def do(self, params):
                g = self.network()
                seen.append({'nodes': sorted(g.nodes()), 'edges': sorted(list(norm(e)) for e in g.edges()),
                             'is_a_prototype': any(g is p for p, _ in protos)})
                # the experiment changes its working network; no later run may see this
                if g.number_of_edges() > 0:
                    g.remove_edge(*next(iter(g.edges())))
                g.add_node(-1)
                return {'order': len(seen[-1]['nodes'])}

        N = case['N']
        w = case['which']
        genN = N
        gen, want = make(w, N)
        params.update(extra(w, N))
        e = E(gen)
        runs = []
        steps = [None] + list(case.get('then', []))
        for j, st in enumerate(steps):
            kept = False
            if isinstance(st, str):
                w = st
                genN = N
                gen, want = make(w, N)
                params.update(extra(w, N))               # the caller keeps using its own dictionary
                e.setNetworkGenerator(gen)
            elif st is not None:
                kept = True
                N = st[1]
                params.update(extra(w, N))               # same generator object, one parameter changed by the caller
            one = {'which': w, 'N': N, 'genN': genN, 'kept': kept, 'want': want}
            del seen[:]
            try:
                rc = e.set(params).run(fatal=True)
                ps = rc[epyc.Experiment.PARAMETERS]
                one.update({'exception': None, 'recorded': ps.get(NetworkGenerator.TOPOLOGY), 'generator_says': e.networkGenerator().topology(),
                            'kept_params': ps.get('unrelated'), 'net': seen[-1] if seen else None,
                            'order_result': rc[epyc.Experiment.RESULTS].get('order')})
            except Exception as ex:      # observable
                one['exception'] = type(ex).__name__ + ': ' + str(ex)
            runs.append(one)
            if one['exception'] and j == 0:
                break
        intact = all(list(p.nodes()) == list(range(n)) and sorted(norm(x) for x in p.edges()) == [(i, i + 1) for i in range(n - 1)]
                     for p, n in protos)
        return {'runs': runs, 'prototypes_intact': intact, 'dense': bool(case.get('dense')),
                'stats': {'exp_runs': len(runs), 'exp_kept_generator': sum(1 for r in runs if r['kept'])}}

    # ------------------------------------------------------------------ D
    def direct(self, case, obs):
        return getattr(self, 'd_' + case['kind'])(case, obs)

    def d_quota(self, case, obs):
        v = []
        outs = obs['outs']
        limit = case['limit']
        asked = [o for o in case['ops'] if o[0] in ('gen', 'next')]
        graphs = [o for o in outs if o[0] == 'graph']
        if len(outs) != len(asked):
            v.append({'signature': 'quota-protocol', 'detail': outs})
            return v
        want = len(asked) if limit is None else min(limit, len(asked))
        if len(graphs) != want:
            v.append({'signature': 'quota-limit', 'detail': 'limit %r, %d requests, %d networks' % (limit, len(asked), len(graphs))})
        for j, (o, a) in enumerate(zip(outs, asked)):
            if j < want and o[0] != 'graph':
                v.append({'signature': 'quota-early-stop', 'detail': outs}); break
            if j >= want and o[0] != ('none' if a[0] == 'gen' else 'stop'):
                v.append({'signature': 'quota-limit', 'detail': outs}); break
        for o, snap in zip(outs, obs['expect']):
            if o[0] == 'graph' and snap is not None and o[1] != snap:
                v.append({'signature': 'params-not-copied', 'detail': {'used': o[1], 'set': snap}}); break
        if not obs['iter_self']:
            v.append({'signature': 'iter-not-self', 'detail': None})
        return v

    def d_fixed(self, case, obs):
        v = []
        limit = case['limit']
        outs = obs['outs']
        want = len(outs) if limit is None else min(limit, len(outs))
        if [o is not None for o in outs] != [j < want for j in range(len(outs))]:
            v.append({'signature': 'quota-limit', 'detail': 'limit %r: %r' % (limit, [o is not None for o in outs])})
        for o in outs:
            if o is not None and (o[0] != case['nodes'] or sorted(norm(e) for e in o[1]) != sorted(norm(tuple(e)) for e in case['edges'])):
                v.append({'signature': 'fixed-copy-differs', 'detail': o}); break
        spec = obs['spec']
        for w in obs['views']:
            if w is not None and w != spec:
                # "equal": nodes, edges AND what they carry (node, edge and graph attributes)
                v.append({'signature': 'fixed-copy-differs', 'detail': {'copy': w, 'prototype': spec}}); break
        if not obs['distinct']:
            v.append({'signature': 'fixed-copy-shared', 'detail': None})
        if not obs['independent']:
            v.append({'signature': 'fixed-copy-not-independent', 'detail': None})
        elif obs['final_proto'] != spec:
            v.append({'signature': 'fixed-copy-not-independent', 'detail': {'prototype_after_changing_a_copy': obs['final_proto'], 'prototype': spec}})
        elif any(w0 != w1 for w0, w1 in obs['final_others']):
            v.append({'signature': 'fixed-copy-not-independent', 'detail': {'other_copies_when_handed_out_and_after_changing_one': obs['final_others']}})
        if obs['topology'] != 'Arbitrary':
            v.append({'signature': 'topology-marker', 'detail': obs['topology']})
        return v

    def _d_sampled(self, case, obs, loops_allowed):
        v = []
        gs = obs['graphs']
        limit = case['limit']
        if limit is not None and (len(gs) != limit or obs['after'] is not None):
            v.append({'signature': 'quota-limit', 'detail': 'limit %d, iteration gave %d, generate() afterwards %r' % (limit, len(gs), obs['after'])})
        real = [g for g in gs if g is not None]
        if len({id(g) for g in real}) != len(real):
            # every request is answered with a NEW network (the objects are all alive here, so ids do not repeat)
            v.append({'signature': 'sampled-networks-are-one-object', 'detail': '%d networks, %d objects' % (len(real), len({id(g) for g in real}))})
        for g in gs:
            if g is None:
                v.append({'signature': 'quota-early-stop', 'detail': None}); continue
            if g.order() != case['N'] or sorted(g.nodes()) != list(range(case['N'])):
                v.append({'signature': 'order', 'detail': '%d nodes, N=%d' % (g.order(), case['N'])})
            for s in simple_undirected(g):
                v.append({'signature': s, 'detail': None})
            if not loops_allowed and any(a == b for a, b in g.edges()):
                v.append({'signature': 'self-loop', 'detail': None})
        return v

    def d_er(self, case, obs):
        v = self._d_sampled(case, obs, False)
        if 'phi' in case and case['phi'] in (0.0, 1.0):
            N = case['N']
            for g in obs['graphs']:
                if g is not None and g.size() != (0 if case['phi'] == 0.0 else N * (N - 1) // 2):
                    v.append({'signature': 'er-density-extreme', 'detail': g.size()})
        if obs['topology'] != 'ER':
            v.append({'signature': 'topology-marker', 'detail': obs['topology']})
        return v

    def d_ba(self, case, obs):
        v = self._d_sampled(case, obs, False)
        if obs['topology'] != 'BA':
            v.append({'signature': 'topology-marker', 'detail': obs['topology']})
        return v

    def d_plc(self, case, obs):
        if obs['exception'] or obs['g'] is None:
            return [{'signature': 'generate-raised', 'detail': obs['exception']}]
        v = []
        g = obs['g']
        if g.order() != case['N']:
            v.append({'signature': 'order', 'detail': '%d nodes, N=%d' % (g.order(), case['N'])})
        for s in simple_undirected(g):
            v.append({'signature': s, 'detail': None})
        if any(d >= 100 for _, d in g.degree()):
            v.append({'signature': 'plc-degree', 'detail': max(d for _, d in g.degree())})
        ns = obs['ns'] or []
        if len(ns) != case['N'] or any(not (1 <= k <= 99) for k in ns) or sum(ns) % 2:
            v.append({'signature': 'plc-degree-sequence', 'detail': ns})
        if any(g.degree(n) > k for n, k in zip(sorted(g.nodes()), ns)):
            v.append({'signature': 'plc-degree-exceeds-stubs', 'detail': None})
        return v

    def d_cp(self, case, obs):
        if obs['exception'] or obs['g'] is None:
            return [{'signature': 'generate-raised', 'detail': obs['exception']}]
        v = []
        g = obs['g']
        nodes = [n for n, _ in obs['nodes']]
        n = len(nodes)
        for s in simple_undirected(g):
            v.append({'signature': s, 'detail': None})
        if sorted(nodes) != list(range(n)):
            v.append({'signature': 'cp-labels', 'detail': nodes})
        if not connected(nodes, obs['edges']):
            v.append({'signature': 'cp-not-connected', 'detail': None})
        if any(o not in (0, 1) for _, o in obs['nodes']):
            v.append({'signature': 'cp-origin-missing', 'detail': obs['nodes']})
        core = [m for m, o in obs['nodes'] if o == 0]
        per = [m for m, o in obs['nodes'] if o == 1]
        if sorted(obs['core']) != sorted(core) or sorted(obs['per']) != sorted(per) or sorted(obs['core'] + obs['per']) != sorted(nodes):
            v.append({'signature': 'cp-extractors', 'detail': {'core': obs['core'], 'per': obs['per']}})
        if len(core) > case['Nc'] or len(per) > case['Np']:
            v.append({'signature': 'cp-too-many', 'detail': [len(core), len(per)]})
        return v

    def d_mod(self, case, obs):
        if obs['exception'] or obs['g'] is None:
            return [{'signature': 'generate-raised', 'detail': obs['exception']}]
        v = []
        g = obs['g']
        S = case['sats']
        for s in simple_undirected(g):
            v.append({'signature': s, 'detail': None})
        origin = {n: o for n, o, _ in obs['nodes']}
        flag = {n: f for n, _, f in obs['nodes']}
        if any(o is None or not (0 <= o <= S) for o in origin.values()) or any(f not in (True, False) for f in flag.values()):
            v.append({'signature': 'mod-attributes', 'detail': obs['nodes']})
            return v
        for i in range(S + 1):
            ns = [n for n in origin if origin[n] == i]
            if sorted(obs['modules'][i]) != sorted(ns):
                v.append({'signature': 'mod-extractors', 'detail': i})
            if not connected(ns, [e for e in obs['edges'] if origin[e[0]] == i and origin[e[1]] == i]):
                v.append({'signature': 'mod-module-not-connected', 'detail': i})
        if obs['modules'][S + 1] or sorted(obs['core']) != sorted(obs['modules'][0]):
            v.append({'signature': 'mod-extractors', 'detail': 'core / beyond the last satellite'})
        inter = [e for e in obs['edges'] if origin[e[0]] != origin[e[1]]]
        for i in range(1, S + 1):
            mine = [e for e in inter if {origin[e[0]], origin[e[1]]} == {0, i}]
            if len(mine) != 1:
                v.append({'signature': 'mod-one-link', 'detail': 'satellite %d joined to the core by %d edges' % (i, len(mine))})
        if any(0 not in (origin[e[0]], origin[e[1]]) for e in inter):
            v.append({'signature': 'mod-satellite-satellite-edge', 'detail': None})
        ends = {x for e in inter for x in e}
        if {n for n in flag if flag[n]} != ends:
            v.append({'signature': 'mod-core-link-flags', 'detail': {'flagged': sorted(n for n in flag if flag[n]), 'endpoints': sorted(ends)}})
        return v

    def d_reuse(self, case, obs):
        v = []
        limit = case['limit']
        for j, (st, one) in enumerate(zip(case['steps'], obs['steps'])):
            if one['exception'] or one.get('fresh_exception'):
                v.append({'signature': 'generate-raised', 'detail': {'step': j, 'params': st, 'reused': one['exception'], 'fresh': one.get('fresh_exception')}})
                continue
            if not one['set_returns_self']:
                v.append({'signature': 'quota-protocol', 'detail': 'set() did not return the generator'})
            allowed = limit is None or j < limit
            if not allowed:
                if one['reused'] is not None:
                    v.append({'signature': 'quota-limit', 'detail': 'limit %d but request %d was answered' % (limit, j + 1)})
                continue
            if one['reused'] is None:
                v.append({'signature': 'quota-early-stop', 'detail': 'limit %r, request %d not answered' % (limit, j + 1)})
            elif 'reused_full' in one and one['reused_full'] != obs['spec']:
                # a fresh FixedNetwork would share the flaw: compare with the prototype itself
                v.append({'signature': 'fixed-copy-differs', 'detail': {'step': j, 'copy': one['reused_full'], 'prototype': obs['spec']}})
            elif one['reused'] != one['fresh']:
                v.append({'signature': 'reused-generator-ignores-latest-parameters',
                          'detail': {'which': case['which'], 'step': j, 'params': st, 'previous': case['steps'][j - 1] if j else None,
                                     'reused': one['reused'], 'fresh': one['fresh']}})
        return v

    def d_exp(self, case, obs):
        v = []
        for j, o in enumerate(obs['runs']):
            after = '' if j == 0 else (':same-generator-new-parameters' if o['kept'] else ':after-setNetworkGenerator')
            if o['exception']:
                v.append({'signature': 'generate-raised', 'detail': o})
                continue
            if o['recorded'] != o['want'] or o['generator_says'] != o['want']:
                v.append({'signature': 'topology-marker' + after, 'detail': o})
            if o['kept_params'] != 1:
                v.append({'signature': 'experiment-parameters-lost', 'detail': o})
            # the working network of THIS run: made by the current generator from the parameters of this run
            net = o['net']
            if net is None:
                v.append({'signature': 'experiment-without-working-network' + after, 'detail': o})
                continue
            w, N = o['which'], o['N']
            bad = None
            if w in ('fixed', 'graph'):
                n = o['genN']
                if net['nodes'] != list(range(n)) or net['edges'] != [[i, i + 1] for i in range(n - 1)]:
                    bad = 'not an equal copy of the prototype (a path on %d nodes)' % n
                elif net['is_a_prototype']:
                    bad = 'the prototype itself, not a copy'
            elif w in ('er', 'ba'):
                if net['nodes'] != list(range(N)):
                    bad = 'N = %d in the parameters of this run' % N
            elif w == 'plc':
                if len(net['nodes']) != N:
                    bad = 'N = %d in the parameters of this run' % N
            elif obs['dense']:
                n = 2 * N if w == 'cp' else N + 6
                if len(net['nodes']) != n or (w == 'cp' and net['nodes'] != list(range(n))):
                    bad = 'all densities 1: %d nodes expected' % n
            if bad:
                v.append({'signature': 'experiment-working-network' + after, 'detail': {'why': bad, 'run': o, 'earlier_runs': obs['runs'][:j]}})
        if not obs['prototypes_intact']:
            v.append({'signature': 'fixed-copy-not-independent', 'detail': 'a prototype network changed when the experiment changed its working network'})
        return v

    # ------------------------------------------------------------------ tie B
    def to_coq(self, case, obs):
        k = case['kind']
        zl = lambda xs: L.lst(xs, L.z)
        el = lambda es: L.lst(es, L.zpair)
        optnat = lambda x: L.opt(x, L.nat)
        ops = lambda os: L.lst(['QSet' if o[0] == 'set' else 'QMutate %s %s' % (L.nat(o[1]), L.z(o[2])) if o[0] == 'mut'
                                else 'QGen' if o[0] == 'gen' else 'QNext' for o in os])
        if k == 'quota':
            def qo(o):
                if o[0] == 'graph':
                    return '(OGraph %s)' % zl(o[1])
                return {'none': 'ONone', 'stop': 'OStop'}.get(o[0], '(OGraph [(-1)%Z])')
            return 'CQuota %s %s %s %s %s' % (L.b(case['ctor']), zl(case['caller']), optnat(case['limit']), ops(case['ops']),
                                             L.lst([qo(o) for o in obs['outs']]))
        if k == 'fixed':
            gt = lambda nodes, edges: '(%s, %s)' % (zl(nodes), el(edges))
            return 'CFixed %s %s %s %s' % (gt(obs['proto_nodes'], obs['proto_edges']), optnat(case['limit']), ops(case['ops']),
                                           L.lst(['None' if o is None else '(Some %s)' % gt(o[0], o[1]) for o in obs['outs']]))
        if k == 'cp':
            bad = obs['exception'] or obs['g'] is None or len(obs['gnp']) != 2 or len(obs['comps']) != 1 or len(obs['orders']) != 3
            if not bad:
                (n1, e1), (n2, e2) = obs['gnp']
                bad = n1 != list(range(case['Nc'])) or n2 != list(range(case['Np'])) or obs['orders'][0] != n1 or obs['orders'][1] != n2
            if bad:
                return 'CCP {| cp_Nc := 0; cp_Np := 0; cp_core := []; cp_per := []; cp_phi := 0; cp_rs := []; cp_comps := []; cp_order := [] |} [((-1)%Z, 0%Z)] [] [] []'
            inp = ('{| cp_Nc := %s; cp_Np := %s; cp_core := %s; cp_per := %s; cp_phi := %s; cp_rs := %s; cp_comps := %s; cp_order := %s |}'
                   % (L.nat(case['Nc']), L.nat(case['Np']), el(e1), el(e2), L.q(case['phi_per']), L.lst(obs['rs'], L.q),
                      L.lst([zl(c) for c in obs['comps'][0]]), zl(obs['orders'][2])))
            return 'CCP %s %s %s %s %s' % (inp, el(obs['nodes']), el(obs['edges']), zl(obs['core']), zl(obs['per']))
        if k == 'mod':
            S = case['sats']
            bad = obs['exception'] or obs['g'] is None or len(obs['gnp']) != S + 1 or len(obs['comps']) != S + 1 or len(obs['orders']) != S + 1 or len(obs['choices']) != 2 * S
            if not bad:
                bad = any(ns != list(range(case['Nc'] if j == 0 else case['Ns'])) for j, (ns, _) in enumerate(obs['gnp']))
            if bad:
                return ('CMod {| md_Nc := 0; md_Ns := 0; md_centre := {| m_edges := []; m_comps := []; m_order := [] |}; md_sats := []; md_choices := [] |} '
                        '[((-1)%Z, 0%Z, false)] []')
            mod = lambda j: '{| m_edges := %s; m_comps := %s; m_order := %s |}' % (el(obs['gnp'][j][1]), L.lst([zl(c) for c in obs['comps'][j]]), zl(obs['orders'][j]))
            ch = obs['choices']
            inp = ('{| md_Nc := %s; md_Ns := %s; md_centre := %s; md_sats := %s; md_choices := %s |}'
                   % (L.nat(case['Nc']), L.nat(case['Ns']), mod(0), L.lst([mod(j) for j in range(1, S + 1)]),
                      L.lst(['(%s, %s)' % (L.nat(ch[2 * j][1]), L.nat(ch[2 * j + 1][1])) for j in range(S)])))
            nodes = L.lst(['(%s, %s, %s)' % (L.z(n), L.z(o if o is not None else -1), L.b(f is True)) for n, o, f in obs['nodes']])
            return 'CMod %s %s %s' % (inp, nodes, el(obs['edges']))
        if k == 'reuse':
            pl = obs.get('plc')
            if not pl:
                return None
            evs = L.lst(['PK %s %s' % (L.nat(e[1]), L.q(e[2])) if e[0] == 'k' else 'PIdx %s' % L.nat(e[1]) for e in pl['evs']])
            return 'CPlc %s %s %s %s' % (L.lst(pl['ptab'], L.q), L.nat(pl['N']), evs, L.lst(pl['ns'], L.nat))
        if k == 'plc':
            if case['N'] > 100:
                return None            # the large sparse instances are for the direct oracle only
            if obs['exception'] or obs['ns'] is None:
                return 'CPlc [] 0 [] [7%nat]'
            evs = L.lst(['PK %s %s' % (L.nat(e[1]), L.q(e[2])) if e[0] == 'k' else 'PIdx %s' % L.nat(e[1]) for e in obs['evs']])
            return 'CPlc %s %s %s %s' % (L.lst(obs['ptab'], L.q), L.nat(case['N']), evs, L.lst(obs['ns'], L.nat))
        return None

    def nontrivial(self, case, obs):
        try:
            return self._nontrivial(case, obs)
        except (KeyError, IndexError, TypeError):      # an observation too broken to classify
            return None

    def _nontrivial(self, case, obs):
        k = case['kind']
        key = None
        if k == 'quota':
            seen_set = seen_mut = False
            for o in case['ops']:
                if o[0] == 'set':
                    seen_set, seen_mut = True, False
                elif o[0] == 'mut':
                    seen_mut = seen_set
                elif seen_mut:
                    key = True
        elif k == 'cp':
            key = obs.get('g') is not None and (len(obs['comps'][0]) >= 2 or any(r <= case['phi_per'] for r in obs['rs']))
        elif k == 'mod':
            key = obs.get('g') is not None and (case['sats'] >= 1 or len(obs['comps'][0]) >= 2)
        elif k == 'plc':
            key = any(e[0] == 'k' for e in obs['evs']) and len(obs['evs']) > case['N']
        elif k == 'reuse':
            key = sum(1 for o in obs['steps'] if o.get('reused') is not None) >= 2
        else:
            key = True
        if not key:
            return None
        c = {kk: vv for kk, vv in case.items() if kk != 'ints'}
        return str(sorted(c.items()))

    def sample_view(self, case, obs):
        o = {k: v for k, v in obs.items() if k not in ('g', 'graphs', 'ptab', 'evs', 'after', 'plc', 'steps', 'views', 'final_others')}
        return {'case': {k: v for k, v in case.items() if k != 'ints'}, 'observed': o}
