"""Rendering of a compartmented-model run for Tie/Compart.v (tie A: the loci table and the event
registrations come from the live objects of this run; tie B: the observations)."""
from vlib import coqlit as L
from harness import compart
from harness.kcommon import c_elem

IN_COQ = ('SIR', 'SIS', 'SIRS', 'SEIR', 'SIR_FixedRecovery', 'SIS_FixedRecovery', 'Opinion', 'Vaccinate')
IN_COQ_V = ('SIvR',)


def hkind(model, fn, code, sp, pv, kpost):
    import epydemic as ep
    cls = compart.models()[model]
    if fn in sp['infect_fns']:
        post = 'None'
        if model in ('SIR_FixedRecovery', 'SIS_FixedRecovery'):
            post = '(Some (%s, %s))' % (L.q(pv['tInf']), L.nat(kpost))
        return '(HLeft %s true %s)' % (L.z(code[sp['I']]), post)
    if fn == 'remove':
        return '(HNode %s)' % L.z(code[cls.REMOVED])
    if fn == 'recover':
        return '(HNode %s)' % L.z(code[cls.SUSCEPTIBLE])
    if fn == 'resuscept':
        return '(HNode %s)' % L.z(code[cls.SUSCEPTIBLE])
    if fn == 'symptoms':
        return '(HNode %s)' % L.z(code[cls.INFECTED])
    if fn == 'stifle':
        return '(HLeft %s false None)' % L.z(code[cls.STIFLER])
    if fn == 'vaccinate':
        return 'HNop'
    raise KeyError(fn)


def to_coq(case, obs):
    import epydemic as ep
    model = case['model']
    if model not in IN_COQ or obs.get('skipped') or case.get('second'):
        return None
    sp = compart.spec(model)
    pv = case['pv']
    ok = obs['exception'] is None and obs['time'] is not None and bool(obs['snaps'])
    if not ok:
        return ('{| c_model := {| cm_specs := []; cm_events := []; cm_extra := []; cm_seed_post := None; cm_equil := [] |}; c_nodes := []; c_edges := []; c_init := []; '
                'c_maxtime := 0; c_monitor := None; c_sync := false; c_rands := []; c_lns := []; c_draws := []; o_handlers := []; o_taps := []; '
                'o_final_comp := []; o_final_loci := []; o_occ := []; o_hit := []; o_counts := []; o_observations := []; o_time := 0; '
                'o_events := 0%nat; o_steps := 0%nat; o_ok := false |}')
    names = sorted(set(sp['comps']))
    code = {c: i + 1 for i, c in enumerate(names)}
    for ls in obs['loci_specs']:
        if ls[1] == 'plain':
            return None
    specs = []
    for ls in obs['loci_specs']:
        if ls[1] == 'node':
            specs.append('(NodeLocus %s)' % L.z(code[ls[2]]))
        elif ls[1] == 'edge':
            specs.append('(EdgeLocus %s %s)' % (L.z(code[ls[2]]), L.z(code[ls[3]])))
        else:
            specs.append('(MultiEdgeLocus %s %s)' % (L.z(code[ls[2]]), L.lst([code[c] for c in ls[3]], L.z)))
    lname = [ls[0] for ls in obs['loci_specs']]
    mpi = 1 if case.get('seq') else 0
    regs = obs['registration'].get(mpi, [])
    regs = [r for r in regs if r['kind'] == 'elem'] + [r for r in regs if r['kind'] != 'elem']
    nprog = len(regs)
    fixed = model in ('SIR_FixedRecovery', 'SIS_FixedRecovery')
    events = ['{| ce_elem := %s; ce_locus := %s; ce_p := %s; ce_kind := %s |}' % (
        L.b(r['kind'] == 'elem'), L.nat(r['li']), L.q(r['p']), hkind(model, r['fn'], code, sp, pv, nprog)) for r in regs]
    extra = []
    seed_post = 'None'
    if fixed:
        back = ep.SIR.REMOVED if model == 'SIR_FixedRecovery' else ep.SIS.SUSCEPTIBLE
        extra = ['(HNode %s)' % L.z(code[back])]
        seed_post = '(Some (%s, %s, %s))' % (L.z(code[sp['I']]), L.q(pv['tInf']), L.nat(nprog))
    equil = []
    if model in ('Opinion', 'Vaccinate'):
        equil = [i for i, ls in enumerate(obs['loci_specs']) if ls[0].split('@')[0] in (ep.Opinion.GP, ep.Opinion.PPT)]
    cm = '{| cm_specs := %s; cm_events := %s; cm_extra := %s; cm_seed_post := %s; cm_equil := %s |}' % (
        L.lst(specs), L.lst(events), L.lst(extra), seed_post, L.lst(equil, L.nat))
    s0 = obs['snaps'][0]
    g = compart.make_graph(case['graph'])
    nodes = list(g.nodes())
    edges = list(g.edges())
    init = [(n, code[s0['comps'][n]]) for n in nodes]
    # randoms served after the simulation started (initialCompartments consumed the earlier ones)
    rands = obs['rands'][obs['started_rand']:]
    key = {(r['fn'], r['li']): j for j, r in enumerate(regs)}
    handlers = []
    for en in obs['entries']:
        if en['posted'] or en['member'] is None:
            continue
        handlers.append('(%s, %s, %s, %s)' % (L.nat(key[(en['fn'], en['li'])]), L.q(en['t']), c_elem(en['e']), L.b(en['member'])))
    taps = []
    for s in obs['snaps'][1:]:
        e = s['e'] if s['e'] is not None else 0
        taps.append('(%s, %s, %s, %s)' % (L.q(s['t']), L.nat(max(0, s['pi'])), L.b(bool(s.get('posted'))), c_elem(e)))
    fin = obs['final']
    final_comp = [(n, code[c]) for n, c in fin['comps'].items()]
    final_loci = [L.lst(fin['loci'][nm], c_elem) for nm in lname]
    occ_key = 'occupied' if obs['inst'] is None else 'occupied@' + obs['inst']
    occ = ['(%s, %s, %s)' % (L.z(a), L.z(b), L.q(d.get('tOccupied'))) for a, b, d in fin['edges'] if d.get(occ_key)]
    hit = ['(%s, %s)' % (L.z(n), L.q(d['tHitting'])) for n, d in fin['nodes'].items() if 'tHitting' in d]
    counts = []
    for c in sp['comps']:
        got = obs['results'].get(c)
        if got is None and obs['inst'] is not None:
            got = obs['results'].get(c + '@' + obs['inst'])
        counts.append('(%s, %s)' % (L.z(code[c]), L.nat(got if got is not None else 4999)))
    observations = []
    mon = obs.get('monitor')
    if mon:
        for i, t in enumerate(mon['times']):
            observations.append('(%s, %s)' % (L.q(t), L.lst([ser[i] if i < len(ser) else 4999 for ser in mon['series']], L.nat)))
    return ('{| c_model := %s; c_nodes := %s; c_edges := %s; c_init := %s; c_maxtime := %s; c_monitor := %s; c_sync := %s; '
            'c_rands := %s; c_lns := %s; c_draws := %s; o_handlers := %s; o_taps := %s; o_final_comp := %s; o_final_loci := %s; '
            'o_occ := %s; o_hit := %s; o_counts := %s; o_observations := %s; o_time := %s; o_events := %s; o_steps := %s; o_ok := true |}') % (
        cm, L.lst(nodes, L.z), L.lst(edges, L.zpair), L.lst(init, L.zpair), L.q(case['maxtime']),
        '(Some %s)' % L.q(case.get('delta', 0.5)) if case.get('seq') else 'None', L.b(case['dynamics'] == 'synchronous'),
        L.lst(rands, L.q), L.lst(obs['lns'], L.q), L.lst([max(0, d) for d in obs['draws']], L.nat),
        L.lst(handlers), L.lst(taps), L.lst(final_comp, L.zpair), L.lst(final_loci), L.lst(occ), L.lst(hit), L.lst(counts),
        L.lst(observations), L.q(obs['time']), L.nat(obs['events']), L.nat(obs.get('steps') or 0))


def to_coq_all(case, obs):
    """the sum tie of Tie/CompartAll.v: static-table models, SIvR, SIR_VariableInfection"""
    if case['model'] == 'SIR_VariableInfection':
        from harness import compart_vi
        t = compart_vi.to_coq_vi(case, obs)
        return None if t is None else '(AVar %s)' % t
    if case['model'] in IN_COQ_V:
        t = to_coq_sivr(case, obs)
        return None if t is None else '(AVacc %s)' % t
    t = to_coq(case, obs)
    return None if t is None else '(ABase %s)' % t


def to_coq_any(case, obs):
    """C07's tie: base models as CBase, SIvR as CVacc"""
    if case['model'] in IN_COQ_V:
        t = to_coq_sivr(case, obs)
        return None if t is None else '(CVacc %s)' % t
    t = to_coq(case, obs)
    return None if t is None else '(CBase %s)' % t


def to_coq_sivr(case, obs):
    import epydemic as ep
    if obs.get('skipped') or case.get('seq') or case.get('second'):
        return None
    sp = compart.spec('SIvR')
    pv = case['pv']
    ok = obs['exception'] is None and obs['time'] is not None and bool(obs['snaps'])
    if not ok:
        return ('{| v_model := {| vm_specs := []; vm_events := []; vm_plain := 0 |}; v_nodes := []; v_edges := []; v_init := []; v_maxtime := 0; v_sync := false; '
                'v_vacc := []; v_gate := []; v_rands := []; v_lns := []; v_draws := []; vo_handlers := []; vo_taps := []; vo_final_comp := []; vo_final_loci := []; '
                'vo_occ := []; vo_counts := []; vo_gate_used := 0; vo_time := 0; vo_events := 0; vo_steps := 0; vo_ok := false |}')
    names = sorted(set(sp['comps']))
    code = {c: i + 1 for i, c in enumerate(names)}
    specs = []
    plain = []
    for i, ls in enumerate(obs['loci_specs']):
        if ls[1] == 'node':
            specs.append('(NodeLocus %s)' % L.z(code[ls[2]]))
        elif ls[1] == 'edge':
            specs.append('(EdgeLocus %s %s)' % (L.z(code[ls[2]]), L.z(code[ls[3]])))
        elif ls[1] == 'plain':
            plain.append(i)
        else:
            return None
    if plain != list(range(len(specs), len(obs['loci_specs']))) or len(plain) != 2:
        return None       # the model expects the two plain loci after the tracked ones
    lname = [ls[0] for ls in obs['loci_specs']]
    undec = [n.split('@')[0] for n in lname]
    iN = undec.index(ep.SIvR.INFECTED_N)
    iV = undec.index(ep.SIvR.INFECTED_V)
    regs = obs['registration'].get(0, [])
    regs = [r for r in regs if r['kind'] == 'elem'] + [r for r in regs if r['kind'] != 'elem']
    events = []
    for r in regs:
        if r['fn'] == 'infect':
            k = '(VInfect %s %s %s %s %s)' % (L.z(code[ep.SIR.INFECTED]), L.q(pv['eff']), L.q(pv['off']), L.nat(iN), L.nat(iV))
        elif r['fn'] == 'remove':
            k = '(VRemove %s %s %s)' % (L.z(code[ep.SIR.REMOVED]), L.nat(iN), L.nat(iV))
        else:
            return None
        events.append('{| ve_elem := %s; ve_locus := %s; ve_p := %s; ve_kind := %s |}' % (L.b(r['kind'] == 'elem'), L.nat(r['li']), L.q(r['p']), k))
    vm = '{| vm_specs := %s; vm_events := %s; vm_plain := %s |}' % (L.lst(specs), L.lst(events), L.nat(len(plain)))
    s0 = obs['snaps'][0]
    g = compart.make_graph(case['graph'])
    nodes = list(g.nodes())
    edges = list(g.edges())
    init = [(n, code[s0['comps'][n]]) for n in nodes]
    allr = obs['rands']
    gp = set(obs['gate_positions'])
    rands = [v for i, v in enumerate(allr) if i >= obs['started_rand'] and i not in gp]
    gate = [allr[i] for i in obs['gate_positions']]
    key = {(r['fn'], r['li']): j for j, r in enumerate(regs)}
    handlers = ['(%s, %s, %s, %s)' % (L.nat(key[(en['fn'], en['li'])]), L.q(en['t']), c_elem(en['e']), L.b(en['member']))
                for en in obs['entries'] if not en['posted'] and en['member'] is not None]
    taps = ['(%s, %s, %s, %s)' % (L.q(s['t']), L.nat(max(0, s['pi'])), L.b(bool(s.get('posted'))), c_elem(s['e'] if s['e'] is not None else 0)) for s in obs['snaps'][1:]]
    fin = obs['final']
    final_comp = [(n, code[c]) for n, c in fin['comps'].items()]
    final_loci = [L.lst(fin['loci'][nm], c_elem) for nm in lname]
    occ_key = 'occupied' if obs['inst'] is None else 'occupied@' + obs['inst']
    occ = ['(%s, %s, %s)' % (L.z(a), L.z(b), L.q(d.get('tOccupied'))) for a, b, d in fin['edges'] if d.get(occ_key)]
    counts = []
    for c in sp['comps']:
        got = obs['results'].get(c)
        if got is None and obs['inst'] is not None:
            got = obs['results'].get(c + '@' + obs['inst'])
        counts.append('(%s, %s)' % (L.z(code[c]), L.nat(got if got is not None else 4999)))
    vacc = ['(%s, %s)' % (L.z(n), L.q(0.0)) for n in case.get('vacc', [])]
    return ('{| v_model := %s; v_nodes := %s; v_edges := %s; v_init := %s; v_maxtime := %s; v_sync := %s; v_vacc := %s; v_gate := %s; '
            'v_rands := %s; v_lns := %s; v_draws := %s; vo_handlers := %s; vo_taps := %s; vo_final_comp := %s; vo_final_loci := %s; vo_occ := %s; '
            'vo_counts := %s; vo_gate_used := %s; vo_time := %s; vo_events := %s; vo_steps := %s; vo_ok := true |}') % (
        vm, L.lst(nodes, L.z), L.lst(edges, L.zpair), L.lst(init, L.zpair), L.q(case['maxtime']), L.b(case['dynamics'] == 'synchronous'),
        L.lst(vacc), L.lst(gate, L.q), L.lst(rands, L.q), L.lst(obs['lns'], L.q), L.lst([max(0, d) for d in obs['draws']], L.nat),
        L.lst(handlers), L.lst(taps), L.lst(final_comp, L.zpair), L.lst(final_loci), L.lst(occ), L.lst(counts), L.nat(len(gate)),
        L.q(obs['time']), L.nat(obs['events']), L.nat(obs.get('steps') or 0))
