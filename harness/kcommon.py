"""Shared by the kernel properties (C03, C04, C05, C06, C12): generation of ScriptProcess
tables, running them on the implementation, and rendering case + observations for Tie/Kernel.v."""
import re
from fractions import Fraction

import networkx

from vlib import coqlit as L
from vlib.oracle import Oracle
from harness import kscript

DTS = [0.0, 0.25, 0.5, 0.5, 1.0, 1.0, 1.5, 2.5]
PS_STOCH = [0.0, 0.125, 0.25, 0.5, 1.0, 1.0, 2.0]
PS_SYNC = [0.0, 0.25, 0.5, 0.5, 0.75, 1.0, 1.0]


def gen_actions(rnd, k, nprogs, nloci, allow, maxacts=3):
    acts = []
    for _ in range(rnd.randrange(0, maxacts + 1)):
        kind = rnd.choice(allow)
        if kind == 'post':
            dt = rnd.choice(DTS)
            if dt == 0.0:
                # zero-delay posting only forwards in the program order, so that it terminates
                tg = [j for j in range(nprogs) if j > k]
                if not tg:
                    dt = 0.5
                    tg = list(range(nprogs))
            else:
                tg = list(range(nprogs))
            acts.append(['post', dt, rnd.choice(tg)])
        elif kind == 'postrep':
            acts.append(['postrep', rnd.choice(DTS), rnd.choice([0.25, 0.5, 0.75, 1.0, 1.5]), rnd.randrange(nprogs)])
        elif kind == 'postpast':
            acts.append(['postpast'])
        elif kind == 'unpost':
            # fatal is three-valued: True, False, or None = the plain call unpostEvent(id) (the default decides); one draw, as ever
            k, r = rnd.randrange(0, 6), rnd.random()
            acts.append(['unpost', k, None if r < 0.2 else r < 0.5])
        elif kind == 'peek':
            acts.append(['peek'])
        elif kind == 'query':
            acts.append(['query', rnd.randrange(0, 6)])
        elif kind in ('ladd', 'ldiscard'):
            acts.append([kind, rnd.randrange(nloci), rnd.randrange(0, 6)])
        elif kind in ('laddself', 'ldiscardself'):
            acts.append([kind, rnd.randrange(nloci)])
    return acts


def gen_table(rnd, dynamics, allow=None, nprocs=None, maxtime=None, maxacts=3, setup_posts=True, rep_in_progs=False, unnamed_ok=False):
    allow = allow or ['post', 'post', 'unpost', 'query', 'ladd', 'ldiscard', 'laddself', 'ldiscardself', 'postpast']
    nprocs = nprocs or rnd.choice([1, 1, 2])
    nloci = rnd.randrange(1, 4)
    nprogs = rnd.randrange(1, 5)
    loci = []
    for li in range(nloci):
        loci.append({'owner': rnd.randrange(nprocs), 'init': rnd.sample(range(6), rnd.randrange(0, 5))})
    ps = PS_STOCH if dynamics == 'stochastic' else PS_SYNC
    procs = []
    for pi in range(nprocs):
        own = [li for li in range(nloci) if loci[li]['owner'] == pi]
        evs = []
        if own:
            for _ in range(rnd.randrange(0, 4)):
                evs.append({'kind': rnd.choice(['elem', 'elem', 'fixed']), 'locus': rnd.choice(own),
                            'p': rnd.choice(ps), 'prog': rnd.randrange(nprogs)})
        # events on a SIBLING's locus (handed over as a Locus object, the documented way for components of a sequence to
        # cooperate): only on loci of earlier components, which exist when this one is built; such a component may own no locus
        earlier = [li for li in range(nloci) if loci[li]['owner'] < pi]
        if earlier and rnd.random() < 0.35:
            for _ in range(rnd.randrange(1, 3)):
                evs.append({'kind': rnd.choice(['elem', 'elem', 'fixed']), 'locus': rnd.choice(earlier),
                            'p': rnd.choice(ps), 'prog': rnd.randrange(nprogs)})
        if unnamed_ok and evs and rnd.random() < 0.3:
            for ev in evs:
                ev['unnamed'] = True          # registered without a name (often several on one locus)
        setup = []
        if setup_posts:
            sa = [a for a in allow if a in ('post', 'unpost', 'query', 'postpast', 'peek')] or ['post']
            setup = gen_actions(rnd, -1, nprogs, nloci, sa + ['postrep'], maxacts=3)
        procs.append({'events': evs, 'setup': setup})
    if nprocs >= 2 and rnd.random() < 0.35:
        # one component with a shorter maximum time of its own (the sequence still runs to the longest)
        procs[rnd.randrange(nprocs)]['maxfrac'] = rnd.choice([0.25, 0.5])
    pallow = allow + (['postrep'] if rep_in_progs else [])
    progs = [gen_actions(rnd, k, nprogs, nloci, pallow, maxacts=maxacts) for k in range(nprogs)]
    if maxtime is None:
        maxtime = rnd.choice([2.0, 3.0, 4.0, 6.0]) if dynamics == 'synchronous' else rnd.choice([1.0, 2.0, 3.5, 5.0])
    return {'maxtime': maxtime, 'loci': loci, 'procs': procs, 'progs': progs}


def run_case(case):
    """case = {'table':…, 'dynamics':…, 'seed':…, optional 'script': {...}}"""
    import epyc
    from epydemic import Dynamics, SynchronousDynamics
    g = networkx.path_graph(3)
    orc = Oracle(seed=case.get('seed', 0), script=case.get('script'))
    rec, rc, exc = kscript.run_table(case['table'], case['dynamics'], g, orc, prerun=case.get('prerun') or False,
                                      abort_first=case.get('abort_first', case.get('seed', 0) % 5 == 0))
    md = (rc or {}).get(epyc.Experiment.METADATA, {}) if rc else {}
    obs = {
        'exception': exc,
        'obs': rec.obs,
        'rands': [e[1] for e in orc.values('random')],
        'lns': list(rec.logs),
        'draws': [d[1] for d in rec.draws],
        'draw_sizes': [d[0] for d in rec.draws],
        'time': md.get(Dynamics.TIME), 'events': md.get(Dynamics.EVENTS),
        'steps': md.get(SynchronousDynamics.TIMESTEPS_WITH_EVENTS, 0),
        'tranches': rec.tranches,
        'pending_after': None,
    }
    if exc and exc.startswith('Budget'):
        obs['skipped'] = True
    return obs


# ---- rendering for Coq

def c_action(a):
    k = a[0]
    if k == 'post':
        return '(APost %s %s)' % (L.q(a[1]), L.nat(a[2]))
    if k == 'postrep':
        return '(APostRep %s %s %s)' % (L.q(a[1]), L.q(a[2]), L.nat(a[3]))
    if k == 'postpast':
        return 'APostPast'
    if k == 'unpost':
        # fatal left out (None): the plain call, whose documented default is fatal=True
        return '(AUnpost %s %s)' % (L.nat(a[1]), L.b(a[2] if len(a) > 2 and a[2] is not None else True))
    if k == 'query':
        return '(AQuery %s)' % L.nat(a[1])
    if k == 'ladd':
        return '(ALAdd %s (EN %s))' % (L.nat(a[1]), L.z(a[2]))
    if k == 'ldiscard':
        return '(ALDiscard %s (EN %s))' % (L.nat(a[1]), L.z(a[2]))
    if k == 'laddself':
        return '(ALAddSelf %s)' % L.nat(a[1])
    if k == 'ldiscardself':
        return '(ALDiscardSelf %s)' % L.nat(a[1])
    if k == 'observe':
        return 'AObserve'
    raise ValueError(a)


def c_elem(e):
    if isinstance(e, (tuple, list)):
        return '(EE %s %s)' % (L.z(e[0]), L.z(e[1]))
    return '(EN %s)' % L.z(e)


def model_actions(acts):
    """the actions the kernel model knows: 'peek' (Dynamics.nextPendingEventTime, no observable effect) is left out"""
    return [a for a in acts if a[0] != 'peek']


def c_table(tb):
    loci = L.lst(['(%s, %s)' % (L.nat(l['owner']), L.lst(l['init'], c_elem)) for l in tb['loci']])
    procs = L.lst(['{| p_events := %s; p_setup := %s |}' % (
        L.lst(['{| ev_elem := %s; ev_locus := %s; ev_p := %s; ev_prog := %s |}' % (
            L.b(e['kind'] == 'elem'), L.nat(e['locus']), L.q(e['p']), L.nat(e['prog'])) for e in p['events']]),
        L.lst(model_actions(p['setup']), c_action)) for p in tb['procs']])
    progs = L.lst(['(static %s)' % L.lst(model_actions(pr), c_action) for pr in tb['progs']])
    return '{| t_maxtime := %s; t_loci := %s; t_procs := %s; t_progs := %s; t_world := tt; t_equil := fun _ _ => false |}' % (L.q(tb['maxtime']), loci, procs, progs)


def c_name(n):
    m = re.match(r'ev(\d+)_(\d+)$', n or '')
    if m:
        return '(NEv %s %s)' % (L.nat(m.group(1)), L.nat(m.group(2)))
    m = re.match(r'p(\d+)$', n or '')
    if m:
        return '(NPost %s)' % L.nat(m.group(1))
    return '(NPost 4999%nat)'


def c_obs(o):
    k = o[0]
    if k == 'handler':
        return '(OHandler %s %s %s %s %s)' % (L.nat(o[1]), L.q(o[2]), L.q(o[3]), c_elem(o[4]), L.opt(o[5], L.b))
    if k == 'tap':
        # the library reports the process of the LOCUS; for an event on a sibling's locus the model's tap carries the
        # registrant, which the event name encodes (ev<process>_<index>)
        m = re.match(r'ev(\d+)_(\d+)$', o[3] or '')
        pi = int(m.group(1)) if m else o[2]
        return '(OTap %s %s %s %s)' % (L.q(o[1]), L.nat(max(0, pi)) if pi >= 0 else '4999%nat', c_name(o[3]), c_elem(o[4]))
    if k == 'posted':
        return '(OPosted %s %s)' % (L.nat(o[1]), L.q(o[2]))
    if k == 'postedrep':
        return '(OPostedRep %s)' % L.q(o[1])
    if k == 'valueerror':
        return 'OValueError'
    if k == 'observe':
        return '(OObserve %s %s)' % (L.q(o[1]), L.lst(o[2], L.nat))
    if k == 'posted-into-past-accepted':
        return '(OPosted 4999%nat 0)'
    if k == 'unpost':
        r = o[2]
        rr = 'None' if r == 'KeyError' else ('(Some None)' if r is None else '(Some (Some %s))' % L.q(r))
        return '(OUnpost %s %s)' % (L.nat(o[1]), rr)
    if k == 'query':
        r = o[2]
        return '(OQuery %s %s)' % (L.nat(o[1]), 'None' if r == 'KeyError' else '(Some %s)' % L.q(r))
    raise ValueError(o)


def rounding_hazard(obs):
    """two DIFFERENT floating-point times closer than rounding error: the implementation orders them, the model (exact
    rational arithmetic over the same inputs) may see them as equal - (t + 0.5) + 1.0 and t + 1.5 can differ in the last
    bit.  Such a run is judged by the direct oracle only (which uses the times the implementation reported)."""
    ts = sorted({float(o[2]) for o in obs.get('obs', []) if o[0] in ('posted', 'handler') and isinstance(o[2], (int, float))})
    return any(b - a < 1e-9 * (1.0 + abs(a)) for a, b in zip(ts, ts[1:]))


def to_coq(case, obs):
    if obs.get('skipped'):
        return None
    if rounding_hazard(obs):
        obs.setdefault('stats', {})['float_rounding_hazard_judged_by_D_only'] = 1
        return None
    ok = obs['exception'] is None and obs['time'] is not None
    return ('{| c_tb := %s; c_sync := %s; c_rands := %s; c_lns := %s; c_draws := %s; o_obs := %s; '
            'o_time := %s; o_events := %s; o_steps := %s; o_ok := %s |}') % (
        c_table(case['table']), L.b(case['dynamics'] == 'synchronous'),
        L.lst(obs['rands'], L.q), L.lst(obs['lns'], L.q), L.lst([max(0, d) for d in obs['draws']], L.nat),
        L.lst([o for o in obs['obs'] if o[0] != 'peek'], c_obs), L.q(obs['time'] if ok else 0), L.nat(obs['events'] if ok else 0),
        L.nat(obs['steps'] if ok else 0), L.b(ok))


TIE_IMPORT = 'From EpyV Require Import Model.Kernel Tie.Kernel.\nOpen Scope Q_scope.'
CHECK_FN = 'EpyV.Tie.Kernel.check_case'
