"""Enumerating random source: explores the tree of outcomes of the random doors of epydemic instead
of sampling it, so that the exact distribution of a result can be computed (no statistics).

Installed exactly like vlib.oracle.Oracle (``vlib.oracle.install`` accepts any object with the same
methods): every epydemic module's ``rng`` and ``numpy.random.shuffle`` point at it.  Every door is a
node of a choice tree with finitely many EQUALLY LIKELY outcomes:

    numpy.random.shuffle(x) / rng.shuffle(x) / rng.permutation(x)   len(x)! outcomes
    rng.integers(lo, hi)                                             hi - lo outcomes (size=k: k successive draws)
    rng.choice(seq)                                                  len(seq) outcomes
    rng.choice(seq, size=k, replace=False)                           n!/(n-k)! ordered selections

Any other source (rng.random(), weighted choice, another numpy.random / random entry point, an
unknown method of rng) raises ``Refused``: the law cannot be evaluated exactly and the caller skips
the case (it never becomes an alarm).  ``explore`` re-runs a deterministic function of the oracle
once per root-to-leaf path (depth first) and returns the exact probability of every result."""
import itertools
import math
import random as _pyrandom
from fractions import Fraction

import numpy


class Refused(Exception):
    """a random source whose outcomes cannot be enumerated as finitely many equally likely ones"""


class NotReplayable(Exception):
    """the function under exploration did not make the same draws when re-run on the same path prefix"""


def _nth_perm(n, i):
    """the i-th permutation of range(n) in lexicographic order (factoradic unranking)"""
    pool = list(range(n))
    out = []
    for k in range(n, 0, -1):
        f = math.factorial(k - 1)
        out.append(pool.pop(i // f))
        i %= f
    return out


class EnumOracle:
    def __init__(self, path=()):
        self.path = list(path)     # outcome index to take at the first len(path) doors; 0 afterwards
        self.trace = []            # (outcome index, number of outcomes) of every door passed
        self.log = []              # (kind, ..., value) as vlib.oracle.Oracle

    def _pick(self, arity):
        if arity <= 0:
            raise ValueError('no outcome')
        pos = len(self.trace)
        i = self.path[pos] if pos < len(self.path) else 0
        if i >= arity:
            raise NotReplayable('door %d has %d outcomes, the path asks for outcome %d' % (pos, arity, i))
        self.trace.append((i, arity))
        return i

    def probability(self):
        p = Fraction(1)
        for _, a in self.trace:
            p /= a
        return p

    # -- numpy Generator look-alike
    def random(self, *a, **k):
        raise Refused('rng.random()')

    def integers(self, low, high=None, size=None, dtype=None, endpoint=False):
        if high is None:
            low, high = 0, low
        lo = int(low); hi = int(high) + (1 if endpoint else 0)
        if lo != low or int(high) != high:
            raise Refused('rng.integers with non-integral bounds')
        if hi <= lo:
            raise ValueError('high <= low')
        if size is None:
            v = lo + self._pick(hi - lo)
            self.log.append(('integers', lo, hi, v))
            return v
        if not isinstance(size, (int, numpy.integer)):
            raise Refused('rng.integers(size=%r)' % (size,))
        vs = [lo + self._pick(hi - lo) for _ in range(int(size))]
        self.log.append(('integers', lo, hi, tuple(vs)))
        return numpy.array(vs, dtype=numpy.int64)

    def choice(self, a, size=None, replace=True, p=None, axis=0, shuffle=True):
        if p is not None or axis != 0:
            raise Refused('weighted rng.choice')
        seq = list(range(int(a))) if isinstance(a, (int, numpy.integer)) else a
        if isinstance(seq, numpy.ndarray) and seq.ndim != 1:
            raise Refused('rng.choice on a matrix')
        n = len(seq)
        if size is None:
            if n == 0:
                raise ValueError('empty choice')
            i = self._pick(n)
            self.log.append(('choice', n, i))
            return seq[i]
        if not isinstance(size, (int, numpy.integer)):
            raise Refused('rng.choice(size=%r)' % (size,))
        k = int(size)
        if replace:
            idx = [self._pick(n) for _ in range(k)]
        else:
            if not shuffle:
                raise Refused('rng.choice(shuffle=False): the order of the selection is not specified')
            if k > n:
                raise ValueError('cannot take a larger sample than population when replace is False')
            idx = []
            pool = list(range(n))
            for _ in range(k):         # k successive draws without replacement: n (n-1) ... equally likely
                idx.append(pool.pop(self._pick(len(pool))))
        self.log.append(('choice', n, tuple(idx)))
        out = [seq[i] for i in idx]
        return numpy.array(out) if isinstance(a, (int, numpy.integer, numpy.ndarray)) else out

    def _perm(self, n):
        perm = _nth_perm(n, self._pick(math.factorial(n)))
        self.log.append(('shuffle', tuple(perm)))
        return perm

    def shuffle(self, lst, axis=0):
        if axis != 0:
            raise Refused('shuffle along another axis')
        n = len(lst)
        perm = self._perm(n)
        if isinstance(lst, numpy.ndarray):
            lst[:] = lst[list(perm)]
        else:
            old = list(lst)
            for i in range(n):
                lst[i] = old[perm[i]]

    def permutation(self, x, axis=0):
        if axis != 0:
            raise Refused('permutation along another axis')
        if isinstance(x, (int, numpy.integer)):
            return numpy.array(self._perm(int(x)))
        perm = self._perm(len(x))
        if isinstance(x, numpy.ndarray):
            return x[list(perm)]
        return numpy.array([x[i] for i in perm])

    def __getattr__(self, name):
        if name.startswith('__'):
            raise AttributeError(name)

        def refuse(*a, **k):
            raise Refused('rng.' + name)
        return refuse

    def values(self, kind):
        return [e for e in self.log if e[0] == kind]


# entry points to randomness that the oracle does not stand for: refused while a law is explored, so that an
# implementation drawing from them is skipped instead of being judged on a distribution that was not explored
_NUMPY_DOORS = ['permutation', 'choice', 'random', 'rand', 'randn', 'randint', 'random_sample', 'sample', 'ranf',
                'uniform', 'random_integers', 'bytes', 'default_rng', 'binomial', 'multinomial', 'normal']
_PY_DOORS = ['random', 'shuffle', 'choice', 'choices', 'sample', 'randrange', 'randint', 'uniform', 'getrandbits']


def _refuser(name):
    def refuse(*a, **k):
        raise Refused(name)
    return refuse


class _Fence:
    def __enter__(self):
        self.saved = []
        for mod, names, label in ((numpy.random, _NUMPY_DOORS, 'numpy.random.'), (_pyrandom, _PY_DOORS, 'random.')):
            for n in names:
                if hasattr(mod, n):
                    self.saved.append((mod, n, getattr(mod, n)))
                    setattr(mod, n, _refuser(label + n))
        return self

    def __exit__(self, *exc):
        for mod, n, v in self.saved:
            setattr(mod, n, v)
        return False


def explore(run, max_paths=5000):
    """run(oracle) -> hashable result, deterministic given the outcomes served by the oracle.
    Returns (dist, paths): dist maps every result to its exact probability (a Fraction; they sum to 1).
    Raises Refused (a source that cannot be enumerated, or more than max_paths paths) or NotReplayable."""
    from vlib.oracle import install
    dist = {}
    path = []
    prev = None
    paths = 0
    with _Fence():
        while True:
            if paths >= max_paths:
                raise Refused('more than %d paths' % max_paths)
            orc = install(EnumOracle(path))
            res = run(orc)
            tr = list(orc.trace)
            L = len(path)
            if prev is None:
                # the same (all-zero) path once more: a result that changes betrays a source the oracle does not see
                orc2 = install(EnumOracle(path))
                if run(orc2) != res or orc2.trace != tr:
                    raise Refused('the result changes between two runs on identical draws')
            elif len(tr) < L or tr[:L - 1] != prev[:L - 1] or tr[L - 1] != (path[L - 1], prev[L - 1][1]):
                raise NotReplayable('the doors passed on a common path prefix differ between two runs')
            paths += 1
            dist[res] = dist.get(res, Fraction(0)) + orc.probability()
            prev = tr
            nxt = list(tr)
            while nxt and nxt[-1][0] == nxt[-1][1] - 1:
                nxt.pop()
            if not nxt:
                break
            path = [i for i, _ in nxt[:-1]] + [nxt[-1][0] + 1]
    if sum(dist.values()) != 1:
        raise NotReplayable('path probabilities do not sum to 1')
    return dist, paths
