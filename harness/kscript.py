"""ScriptProcess: a generic user process interpreted from a table, driven only through the
public Process API.  The same table is given to the Coq kernel model (Model/Kernel.v).

table = {
  'maxtime': float,
  'loci':   [ {'owner': p, 'init': [ints]} ... ]               global locus index = position
  'procs':  [ {'events': [ {'kind': 'elem'|'fixed', 'locus': li, 'p': float, 'prog': k} ... ],
               'setup': [actions] } ... ]
  'progs':  [ [actions] ... ]
}
action = ['post', dt, prog] | ['postrep', dt0, ddt, prog] | ['unpost', k, fatal] | ['query', k]
       | ['postpast'] | ['ladd', li, x] | ['ldiscard', li, x] | ['laddself', li] | ['ldiscardself', li] | ['peek']

['unpost', k, fatal]: fatal is True, False or None (also: left out).  None is the PLAIN call unpostEvent(id), which
exercises the default of the parameter (through Process.unpostEvent for even k, Dynamics.unpostEvent for odd k); the kernel
model knows it as `AUnpost k true`.
['peek'] records Dynamics.nextPendingEventTime().  It has no counterpart in the kernel model: action and observation are
left out of the Coq rendering (the call changes nothing observable: it only drops un-posted heads from the heap).

Observations (rec.obs), the ones with more fields than the Coq rendering uses:
  ['valueerror', t_requested, clock]      a postEvent that raised ValueError
  ['unpost', id, result|'KeyError', fatal]
  ['peek', clock, time|None]
"""
import math

from epydemic import Process, ProcessSequence, Locus, DrawSet


class Recorder:
    """everything observable about one run, in order"""
    def __init__(self):
        self.obs = []          # the observation stream compared with the model
        self.ids = []          # ids returned by postEvent, in posting order (shared registry)
        self.draws = []        # (size, rank) of every DrawSet.draw
        self.logs = []         # values returned by math.log in stochasticdynamics
        self.tranches = []     # synchronous dynamics: (t, loci snapshot, #randoms before, #randoms after, chosen)
        self.dyn = None


class ScriptProcess(Process):
    def __init__(self, pi, table, rec):
        super().__init__()
        self.pi = pi
        self.table = table
        self.rec = rec

    def lname(self, li):
        return 'L%d' % li

    def build(self, params):
        super().build(params)
        for li, l in enumerate(self.table['loci']):
            if l['owner'] == self.pi:
                loc = self.addLocus(self.lname(li))
                for x in l['init']:
                    loc.add(x)
        for j, ev in enumerate(self.table['procs'][self.pi]['events']):
            h = self.event_handler(j, ev)
            # some events are registered WITHOUT a name (the name is optional): several unnamed events on one locus are
            # still several events
            name = None if ev.get('unnamed') else 'ev%d_%d' % (self.pi, j)
            # a locus of a sibling component is handed over as the Locus object
            own = self.table['loci'][ev['locus']]['owner'] == self.pi
            loc = self.lname(ev['locus']) if own else self.dynamics().loci()[self.lname(ev['locus'])]
            if ev['kind'] == 'elem':
                self.addEventPerElement(loc, ev['p'], h, name=name)
            else:
                self.addFixedRateEvent(loc, ev['p'], h, name=name)

    def setUp(self, params):
        super().setUp(params)
        self.run_actions(self.table['procs'][self.pi]['setup'], 0.0, 0)

    def event_handler(self, j, ev):
        def h(t, e):
            self.rec.last_ev = 'ev%d_%d' % (self.pi, j)      # lets the tap of an unnamed event be attributed
            member = e in self.dynamics().loci()[self.lname(ev['locus'])]
            self.rec.obs.append(['handler', ev['prog'], t, self.currentSimulationTime(), e, member])
            self.run_actions(self.table['progs'][ev['prog']], t, e)
        return h

    def posted_handler(self, prog):
        def h(t, e):
            self.rec.obs.append(['handler', prog, t, self.currentSimulationTime(), e, None])
            self.run_actions(self.table['progs'][prog], t, e)
        return h

    def the_locus(self, li):
        return self.dynamics().locus(self.lname(li))

    def run_actions(self, acts, t, e):
        rec = self.rec
        for a in acts:
            k = a[0]
            if k == 'post':
                clk = self.currentSimulationTime()
                try:
                    i = self.postEvent(t + a[1], e, self.posted_handler(a[2]), name='p%d' % a[2])
                    rec.ids.append(i)
                    rec.obs.append(['posted', i, t + a[1], a[2], e])
                except ValueError:
                    rec.obs.append(['valueerror', t + a[1], clk])
            elif k == 'postrep':
                n0 = self.dynamics()._eventId
                self.postRepeatingEvent(t + a[1], a[2], e, self.posted_handler(a[3]), name='p%d' % a[3])
                rec.obs.append(['postedrep', t + a[1], a[2], a[3], e])
            elif k == 'postpast':
                clk = self.currentSimulationTime()
                try:
                    self.postEvent(clk - 1.0, e, self.posted_handler(0), name='p0')
                    rec.obs.append(['posted-into-past-accepted', clk - 1.0, e])
                except ValueError:
                    rec.obs.append(['valueerror', clk - 1.0, clk])
            elif k == 'unpost':
                if not rec.ids:
                    continue
                i = rec.ids[a[1] % len(rec.ids)]
                fatal = a[2] if len(a) > 2 else None
                try:
                    if fatal is None:
                        # the plain call: the default of `fatal` decides
                        r = self.unpostEvent(i) if a[1] % 2 == 0 else self.dynamics().unpostEvent(i)
                    else:
                        r = self.unpostEvent(i, fatal=fatal)
                    rec.obs.append(['unpost', i, r, fatal])
                except KeyError:
                    rec.obs.append(['unpost', i, 'KeyError', fatal])
            elif k == 'query':
                if not rec.ids:
                    continue
                i = rec.ids[a[1] % len(rec.ids)]
                try:
                    r = self.pendingEventTime(i)
                    rec.obs.append(['query', i, r])
                except KeyError:
                    rec.obs.append(['query', i, 'KeyError'])
            elif k == 'peek':
                rec.obs.append(['peek', self.currentSimulationTime(), self.dynamics().nextPendingEventTime()])
            elif k == 'observe':
                rec.obs.append(['observe', t, [len(l) for l in self.dynamics().loci().values()]])
            elif k == 'ladd':
                self.the_locus(a[1]).add(a[2])
            elif k == 'ldiscard':
                self.the_locus(a[1]).discard(a[2])
            elif k == 'laddself':
                self.the_locus(a[1]).add(e)
            elif k == 'ldiscardself':
                self.the_locus(a[1]).discard(e)
            else:
                raise ValueError('unknown action %r' % (a,))


class LogShim:
    """stands in for the `math` module inside stochasticdynamics: records what log returned"""
    def __init__(self, rec):
        self._rec = rec

    def log(self, x):
        v = math.log(x)
        self._rec.logs.append(v)
        return v

    def __getattr__(self, n):
        return getattr(math, n)


_orig_draw = DrawSet.draw


def install_draw_recorder(rec):
    def draw(self):
        before = list(self)
        e = _orig_draw(self)
        rec.draws.append([len(before), before.index(e) if e in before else -1])
        return e
    DrawSet.draw = draw


def uninstall_draw_recorder():
    DrawSet.draw = _orig_draw


class Budget(Exception):
    pass


def run_table(table, dynamics, graph, oracle, rec=None, budget=400, prerun=False, abort_first=False):
    """Run the table under 'stochastic' or 'synchronous' dynamics; returns the Recorder and results."""
    import epydemic
    import epydemic.stochasticdynamics as sd
    from vlib.oracle import install
    rec = rec or Recorder()
    procs = [ScriptProcess(pi, table, rec) for pi in range(len(table['procs']))]
    proc = procs[0] if len(procs) == 1 else ProcessSequence(procs)
    def set_maxtimes(tb):
        # a component may have a SHORTER maximum time of its own: a sequence runs until all its components are at
        # equilibrium, and until then every component's events keep firing
        for p, pr in zip(procs, tb['procs']):
            p.setMaximumTime(tb['maxtime'] * pr.get('maxfrac', 1.0))
    set_maxtimes(table)
    cls = epydemic.StochasticDynamics if dynamics == 'stochastic' else epydemic.SynchronousDynamics
    dyn = cls(proc, graph)
    rec.dyn = dyn
    index = {id(p): i for i, p in enumerate(procs)}

    def tap(t, p, name, e):
        if name is None:
            name = getattr(rec, 'last_ev', None)       # an event registered without a name
        rec.obs.append(['tap', t, index.get(id(p), -1), name, e])
        if len(rec.obs) > budget:
            raise Budget('run exceeds the harness budget of %d observations' % budget)
    dyn.eventFired = tap
    if dynamics != 'stochastic':
        orig_all = dyn.allEventsInTimestep

        def all_events(t):
            snap = {n: list(l) for n, l in dyn.loci().items()}
            n0 = len(oracle.values('random'))
            pend = [ev[0] for ev in dyn._postedEventFinder.values()]
            d0 = len(rec.draws)
            evs = orig_all(t)
            rec.tranches.append({'t': t, 'min_pending': min(pend) if pend else None, 'obs_index': len(rec.obs), 'loci': snap, 'r0': n0, 'r1': len(oracle.values('random')), 'd0': d0, 'd1': len(rec.draws),
                                 'chosen': [[l.name(), e, name] for (l, e, ef, name) in evs]})
            return evs
        dyn.allEventsInTimestep = all_events
    if abort_first:
        # an earlier run on the same objects that is abandoned INSIDE set-up, after every component has been built and set
        # up (events posted): epyc tears no such run down, and the observed run must start from a clean slate all the same
        from vlib.oracle import Oracle as _Oracle
        install(_Oracle(seed=54321))
        last = procs[-1]
        orig_setup = last.setUp

        def abandoned(params_):
            orig_setup(params_)
            raise RuntimeError('set-up abandoned by the harness')
        last.setUp = abandoned
        try:
            dyn.set({}).run(fatal=True)
        except Exception:
            pass
        finally:
            del last.setUp
        del rec.obs[:]
        del rec.ids[:]
        del rec.draws[:]
        del rec.logs[:]
        del rec.tranches[:]
    if prerun:
        # an earlier run on the SAME experiment object with other random choices: by C10 it must not influence
        # the observed run (queue, ids, clock, loci, event tables all start afresh)
        from vlib.oracle import Oracle
        import copy
        install(Oracle(seed=12345))
        # ... and, every other time, with OTHER parameters: a quarter of the run length and every delay halved, so that it
        # ends with events still queued for times at which the observed run has posted nothing yet
        pre = None
        if prerun == 'vary' or len(repr(table)) % 2 == 0:
            pre = copy.deepcopy(table)
            pre['maxtime'] = table['maxtime'] / 4.0

            def halve(acts):
                for a in acts:
                    if a and a[0] in ('post', 'poston', 'postrep') and isinstance(a[1], (int, float)):
                        a[1] = a[1] / 2.0
            for pr in pre['procs']:
                halve(pr['setup'])
            for pg in pre['progs']:
                halve(pg)
            for p in procs:
                p.table = pre
            set_maxtimes(pre)
        try:
            dyn.set({}).run(fatal=True)
        except Exception:
            pass
        if pre is not None:
            for p in procs:
                p.table = table
            set_maxtimes(table)
        del rec.obs[:]
        del rec.ids[:]
        del rec.draws[:]
        del rec.logs[:]
        del rec.tranches[:]
    install(oracle)
    install_draw_recorder(rec)
    saved_math = sd.math
    sd.math = LogShim(rec)
    exc = None
    rc = None
    try:
        rc = dyn.set({}).run(fatal=True)
    except Exception as e:
        exc = type(e).__name__ + ': ' + str(e)
    finally:
        sd.math = saved_math
        uninstall_draw_recorder()
    return rec, rc, exc
