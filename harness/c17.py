"""C17: degree-distribution generating functions match their distributions  (PARTIAL).

kind 'net'   gf_from_network: tie B with Model/GFNet.v (vm_compute) + D (degree fractions recomputed from
             the edge list, gf(1) = 1, gf.dx()(1) = 2M/N).
kind 'poly'  ContinuousGF on exact (dyadic) polynomials: the implementation's floats against the closed
             form of theorem C17_contour_exact (sum over the residue class, aliasing included) - a tie
             between the proved algebra and the numpy code, evaluated here because Q has no roots of unity.
kind 'er' / 'plc' / 'geo'   the analytic families against independently computed Poisson / power-law-
             with-cutoff / geometric probabilities (mpmath at 50 digits, direct summation): the numerical
             clause of the property, which is outside Coq.  Tolerance for the property: relative 1e-6 or
             absolute 1e-6 on the scale of the contour mean (DESIGN section 5, C17); inside that absolute tolerance a
             coefficient that is neither the Taylor value nor the aliased sum of C17_contour_exact to 1e-9 of the scale
             is reported as a wrong coefficient as well (with its input), not only as a broken tie.
Series cases carry, per query, the steps (scale / dx k) from the series object to the object asked: see PLANS."""
import itertools
import math
from fractions import Fraction

import mpmath
import networkx

from vlib import coqlit as L
from vlib.core import Harness

MP = mpmath.mp.clone()
MP.dps = 50

REL = 1e-6            # property tolerance (relative) ...
ABS = 1e-6            # ... or absolute, on the scale of the mean over the contour
TIE = 1e-9            # implementation vs the proved closed form, relative to the scale of the summands


def contour_points(i):
    """exact 100 * ceil((i + 1) / 99) (Model/GFNet.v contour_points)"""
    return 100 * ((i + 1 + 98) // 99)


def fact(n):
    return math.factorial(n)


# ------------------------------------------------------------------ reference distributions (independent of epydemic)

def poisson(k, n):
    k = MP.mpf(Fraction(k).numerator) / Fraction(k).denominator
    return MP.exp(-k) * k ** n / MP.factorial(n)


_PLCZ = {}


def plc_norm(a, c):
    key = (a, c)
    if key not in _PLCZ:
        A = MP.mpf(Fraction(a).numerator) / Fraction(a).denominator
        C = MP.mpf(Fraction(c).numerator) / Fraction(c).denominator
        z = MP.mpf(0)
        k = 1
        while True:
            t = MP.mpf(k) ** (-A) * MP.exp(-k / C)
            z += t
            if t < MP.mpf(10) ** -48 and k > 10:
                break
            k += 1
        _PLCZ[key] = (A, C, z)
    return _PLCZ[key]


def plc(a, c, n):
    if n == 0:
        return MP.mpf(0)
    A, C, z = plc_norm(a, c)
    return MP.mpf(n) ** (-A) * MP.exp(-n / C) / z


def geo(q, n):
    q = MP.mpf(Fraction(q).numerator) / Fraction(q).denominator
    return (1 - q) * q ** n


def family_coeff(case, n):
    k = case['kind']
    if k == 'er':
        return poisson(case['kmean'], n)
    if k == 'plc':
        return plc(case['exponent'], case['cutoff'], n)
    if k == 'geo':
        return geo(case['q'], n)
    raise ValueError(k)


def alias_sum(coeff, n, m, limit=4000):
    """sum of coeff(j) over j >= 0, j == n (mod m): what C17_contour_exact says the mean is"""
    s = MP.mpf(0)
    j = n % m
    while j < limit:
        t = coeff(j)
        s += t
        if j > n and abs(t) < MP.mpf(10) ** -45:
            break
        j += m
    return s


# ------------------------------------------------------------------ generators

def net_case(g, rnd=None, extra=()):
    degs = [d for _, d in g.degree()]
    mk = max(degs) if degs else 0
    idx = sorted(set([0, 1, mk, mk + 1] + list(extra) + ([rnd.randrange(0, mk + 2) for _ in range(3)] if rnd else [])))
    c = {'kind': 'net', 'nodes': list(g.nodes()), 'edges': [list(e) for e in g.edges()], 'idx': idx}
    if rnd is not None and rnd.random() < 0.35 and g.number_of_edges() >= 1 and g.order() >= 3:
        # the SAME network object asked twice: after the first answer it is rewired in place (one end of some edges moved,
        # keeping the numbers of nodes and edges, changing the degrees); the second answer is the one judged
        moves = []
        h = g.copy()
        for _ in range(rnd.randrange(1, 4)):
            es = list(h.edges())
            a, b = rnd.choice(es)
            cands = [x for x in h.nodes() if x not in (a, b) and not h.has_edge(a, x)]
            if not cands:
                continue
            x = rnd.choice(cands)
            h.remove_edge(a, b)
            h.add_edge(a, x)
            moves.append([a, b, x])
        if moves:
            c['moves'] = moves
            degs = [d for _, d in h.degree()]
            c['idx'] = sorted(set(idx + [max(degs), max(degs) + 1]))
    return c


def rnd_graph(rnd):
    k = rnd.randrange(9)
    n = rnd.randrange(1, 13)
    g = networkx.Graph()
    g.add_nodes_from(range(n))
    if k == 0:
        pass                                              # isolated nodes only
    elif k == 1:
        g.add_edges_from((0, i) for i in range(1, n))     # one hub
    elif k == 2:
        g.add_edges_from(itertools.combinations(range(n), 2))
    elif k == 3:
        g.add_edges_from((i, i + 1) for i in range(n - 1))
    else:
        p = rnd.choice([0.1, 0.3, 0.6])
        for a, b in itertools.combinations(range(n), 2):
            if rnd.random() < p:
                g.add_edge(*((a, b) if rnd.random() < 0.5 else (b, a)))
        if k >= 7:
            for a in range(n):
                if rnd.random() < 0.3:
                    g.add_edge(a, a)                      # self-loops count twice
    if rnd.random() < 0.3:
        g.add_nodes_from(range(n, n + rnd.randrange(1, 4)))   # extra isolated nodes
    return g


def dyadic(rnd):
    return rnd.randrange(-16, 17) / rnd.choice([1, 1, 2, 4, 8])


def poly_case(rnd, alias=False):
    deg = rnd.randrange(0, 81) if not alias else rnd.randrange(101, 160)
    cs = [dyadic(rnd) for _ in range(deg + 1)]
    if alias:       # sparse, so that the alias classes are visible
        cs = [c if rnd.random() < 0.3 else 0.0 for c in cs]
        cs[-1] = 1.0
    qs = []
    for _ in range(6):
        order = rnd.choice([0, 0, 1, 2, 3, 7])
        i = rnd.randrange(0, 61 - order)
        qs.append([order, i])
    if alias:
        qs.append([rnd.choice([100, 130]), rnd.randrange(0, 5)])      # i + order >= m: the step follows i only
        qs.append([rnd.choice([0, 1]), rnd.choice([98, 99, 120, 197, 198, 250])])     # 100, 200, 300 points
    vs = [[rnd.choice([0, 1, 2, 3]), rnd.choice([0.0, 1.0, 0.5, -0.25])] for _ in range(2)]
    return with_plan(rnd, {'kind': 'poly', 'coeffs': cs, 'queries': qs, 'values': vs, 'scale': rnd.choice([None, None, ['*', 0.5], ['/', 4.0], ['*', 3.0]])})


# ------------------------------------------------------------------ plans: the ORDER in which scaling and differentiation are applied
# Each query [order, i] / value [order, x] of a series case carries the steps that lead from the series object to the object
# asked: ['s'] = apply case['scale'] (gf * c or gf / c), ['dx', k] = .dx(k).  The dx steps of a query add up to its order, so the
# reference (which is linear in the series) depends on the total order and the factor only.
#   'sd'   scale, dx(order)              (the derivative of an order-0 object)
#   'dd'   scale, dx(k1), dx(k2)         (a derivative of an object that already represents a derivative: _order > 0)
#   'ds'   dx(order), scale              (scaling an object with _order > 0)
#   'dsd'  dx(k1), scale, dx(k2)
PLANS = ('sd', 'sd', 'dd', 'dd', 'ds', 'dsd')


def steps_for(plan, order, has_scale, cut):
    s = [['s']] if has_scale else []
    if plan == 'sd':
        return s + ([['dx', order]] if order else [])
    if plan == 'ds':
        return ([['dx', order]] if order else []) + s
    if order >= 2:
        k1 = min(cut, order - 1)
        k2 = order - k1
    else:               # order 0 or 1: a dx(0) step (the identity) before or after
        k1, k2 = (order, 0) if cut % 2 else (0, order)
    if plan == 'dd':
        return s + [['dx', k1], ['dx', k2]]
    return [['dx', k1]] + s + [['dx', k2]]


def with_plan(rnd, case, plan=None, cut=None):
    """fix the order of operations of every query and value of a series case (same order -> same steps -> same object)"""
    plan = plan or rnd.choice(PLANS)
    cut = cut or rnd.choice([1, 1, 2, 3])
    hs = case['scale'] is not None
    case['plan'] = plan
    case['steps'] = [steps_for(plan, o, hs, cut) for o, _ in case['queries']]
    case['vsteps'] = [steps_for(plan, o, hs, cut) for o, _ in case['values']]
    return case


def analytic_queries(rnd, nq, maxn=60):
    qs = []
    for _ in range(nq):
        order = rnd.choice([0, 0, 0, 1, 1, 2, 3, 5, 10])
        i = rnd.randrange(0, maxn + 1 - order)
        if rnd.random() < 0.15:
            i = maxn - order
        qs.append([order, i])
    return qs


def er_case(rnd):
    kmean = rnd.choice([rnd.uniform(0.05, 20.0), rnd.uniform(0.05, 3.0), 20.0, float(rnd.randrange(1, 21))])
    via_phi = rnd.random() < 0.3
    N = rnd.choice([100, 1000, 5000])
    c = {'kind': 'er', 'N': N, 'queries': analytic_queries(rnd, 8), 'values': [[o, 1.0] for o in rnd.sample([0, 1, 2, 3], 2)],
         'scale': rnd.choice([None, None, ['*', 0.5], ['/', 4.0], ['*', 3.0]])}
    if via_phi:
        c['phi'] = kmean / N
        c['kmean'] = N * c['phi']
    else:
        c['phi'] = None
        c['kmean'] = kmean
    return with_plan(rnd, c)


def plc_case(rnd, fast):
    a = rnd.choice([2.0, 3.0]) if fast else rnd.choice([rnd.uniform(2.0, 3.5), 2.5, 3.5])
    c = rnd.choice([rnd.uniform(5.0, 60.0), 5.0, 60.0, float(rnd.randrange(5, 61))])
    # values: gf(1) = 1 and the series itself inside the unit disc (order 0 only: no contour involved)
    return with_plan(rnd, {'kind': 'plc', 'exponent': a, 'cutoff': c, 'queries': analytic_queries(rnd, 3 if fast else 1),
                           'values': [[0, 1.0], [0, rnd.choice([0.0, 0.5, 0.25, -0.5, 0.75])]],
                           'scale': rnd.choice([None, None, ['*', 0.5], ['/', 4.0], ['*', 3.0]])})


def geo_case(rnd):
    return with_plan(rnd, {'kind': 'geo', 'q': rnd.choice([0.5, 0.25, 0.125, 0.375]), 'queries': analytic_queries(rnd, 6),
                           'values': [[rnd.choice([0, 1, 2]), rnd.choice([0.0, 0.5, -0.5, 0.25])] for _ in range(2)],
                           'scale': rnd.choice([None, None, ['*', 0.5], ['/', 4.0]])})


# ------------------------------------------------------------------ running the implementation

def scaled(gf, sc):
    if sc is None:
        return gf
    return gf * sc[1] if sc[0] == '*' else gf / sc[1]


def apply_steps(base, steps, sc, memo):
    """the object reached from the series object by the steps; equal prefixes of steps are ONE object (what binding the
    intermediate result to a name does), so a coefficient and a value of the same derivative are asked of the same object"""
    g, key = base, ()
    for st in steps:
        key += (tuple(st),)
        if key not in memo:
            memo[key] = scaled(g, sc) if st[0] == 's' else g.dx(st[1])
        g = memo[key]
    return g


def scale_factor(sc):
    if sc is None:
        return Fraction(1)
    return Fraction(sc[1]) if sc[0] == '*' else Fraction(1 / sc[1])


def series_of(case):
    import epydemic.gf as G
    k = case['kind']
    if k == 'poly':
        cs = [float(c) for c in case['coeffs']]

        def f(x, cs=cs):
            v = 0.0
            for c in reversed(cs):
                v = v * x + c
            return v
        return G.gf_from_series(f)
    if k == 'er':
        return G.gf_er(case['N'], kmean=case['kmean']) if case['phi'] is None else G.gf_er(case['N'], phi=case['phi'])
    if k == 'plc':
        return G.gf_plc(case['exponent'], case['cutoff'])
    if k == 'geo':
        q = case['q']
        return G.gf_from_series(lambda x, q=q: (1 - q) / (1 - q * x))
    raise ValueError(k)


class H(Harness):
    ID = 'C17'
    ANCHOR_FILES = ['epydemic/gf/discrete_gf.py', 'epydemic/gf/continuous_gf.py', 'epydemic/gf/standard_gfs.py', 'epydemic/gf/interface.py']
    LEVEL = 'proof'          # partial: see the level note in MANIFEST.json
    TIE_IMPORT = 'From EpyV Require Import Model.GF Model.GFNet Tie.C17.'
    CHECK_FN = 'EpyV.Tie.C17.check_case'
    VO_TARGETS = ['Properties/C17.vo', 'Tie/C17.vo']
    QUICK_N = 200
    THOROUGH_N = 2600
    CASE_TIMEOUT = 120
    ALLOWED_AXIOMS = set()
    _RULE = ('networks of 1-15 nodes (isolated only / one hub / complete / path / random with both edge orientations / with self-loops / '
            'extra isolated nodes), the empty network, stars with a hub of degree 299-400 (beyond the former 301-term cut-off), asked '
            'gf[i] for i in {0, 1, maxdeg, maxdeg+1, 3 random}, gf(1), gf.dx()(1); ContinuousGF on dyadic polynomials of degree <= 80 '
            '(and sparse ones of degree 101-159 with visible aliasing, incl. i + order >= number of points) for 7 (order, i) pairs '
            'with i + order <= 60 and 2 derivative values; gf_er with mean degree in (0, 20] given directly or as N*phi, gf_plc with '
            'exponent in [2, 3.5] and cutoff in [5, 60] (also gf(x) at one x in [-0.5, 0.75]), a geometric series through gf_from_series; '
            'each optionally scaled by * or /, with scaling and differentiation applied in one of four orders per case (scale, dx k | '
            'scale, dx k1, dx k2 | dx k, scale | dx k1, scale, dx k2; dx(0) steps included), equal prefixes being one object, plus a '
            'fixed block of every order of operations on each family; i + order <= 60, orders 0-10; a case is non-trivial when it is a network with at least one edge or an analytic case; '
            'distinct by the whole case')
    def __init__(self):
        self.maxdev = {}        # family -> largest deviation from the Taylor value seen in this run

    @property
    def RULE(self):
        dev = '; '.join('%s: %.3g of the contour-mean scale at %s, relative %.3g at %s (among coefficients above 1e-9 of that scale)'
                        % (k, d['abs'], d['at'], d['rel'], d['rel_at']) for k, d in sorted(self.maxdev.items()))
        return self._RULE + ' || largest deviation of a coefficient from the independently computed Taylor value in this run, per family: ' + (dev or 'none asked')

    def _note_dev(self, kind, rel, absm, at):
        d = self.maxdev.setdefault(kind, {'rel': 0.0, 'rel_at': '-', 'abs': 0.0, 'at': '-'})
        if absm > d['abs']:
            d['abs'], d['at'] = float(absm), at
        if rel is not None and rel > d['rel']:
            d['rel'], d['rel_at'] = float(rel), at

    TRUSTED = ['Coq 8.16.1 kernel incl. vm_compute', 'MathComp 1.15 (fieldType, bigop, poly, algC) for the contour theorems',
               'harness/c17.py and vlib', 'networkx Graph.degree()/order()/edges() (a self-loop counts twice in its node\'s degree)',
               'mpmath at 50 digits and direct summation for the reference probabilities']
    ASSUMPTIONS = ['the network has at least one node (gf_from_network of the empty network raises ValueError)',
                   'NOT proved, checked numerically only: the alias tail a_(n+m)+a_(n+2m)+... of the exp/polylog series is below tolerance; '
                   'binary64/numpy/cmath/mpmath evaluation of those series',
                   'getCoefficient of a derivative object is sound only for i + order < 100*ceil((i+1)/99) (C17_contour_deriv); the property\'s range i + order <= 60 satisfies it']

    def gen_cases(self, tier, rnd, n):
        out = []
        n_plc = 10 if tier == 'quick' else 110
        n_er = n // 4
        n_poly = n // 5
        n_geo = n // 16
        for _ in range(n_plc):
            out.append(plc_case(rnd, fast=(rnd.random() < (0.8 if tier == 'quick' else 0.4))))
        for _ in range(n_er):
            out.append(er_case(rnd))
        for k in range(n_poly):
            out.append(poly_case(rnd, alias=(k % 5 == 4)))
        for _ in range(n_geo):
            out.append(geo_case(rnd))
        while len(out) < n:
            out.append(net_case(rnd_graph(rnd), rnd))
        return out

    def exhaustive_cases(self, tier):
        out = [net_case(networkx.Graph())]                       # empty network: ValueError
        one = networkx.Graph(); one.add_node(0)
        out.append(net_case(one))
        loop = networkx.Graph(); loop.add_edge(0, 0)
        out.append(net_case(loop))
        for hub in ((300, 301, 340) if tier == 'quick' else (299, 300, 301, 302, 340, 400)):
            out.append(net_case(networkx.star_graph(hub), extra=(hub - 1,)))
        # all graphs on 3 nodes with optional self-loops on node 0 (4 nodes in the thorough tier)
        nn = 3 if tier == 'quick' else 4
        pairs = list(itertools.combinations(range(nn), 2)) + [(0, 0)]
        for mask in range(1 << len(pairs)):
            g = networkx.Graph(); g.add_nodes_from(range(nn))
            g.add_edges_from(p for b, p in enumerate(pairs) if mask >> b & 1)
            out.append(net_case(g))
        # the edges of the stated ranges of the analytic families
        out.append({'kind': 'er', 'N': 1000, 'phi': None, 'kmean': 20.0, 'queries': [[0, 60], [0, 0], [10, 50], [1, 59], [0, 20]], 'values': [[0, 1.0], [1, 1.0], [2, 1.0]], 'scale': None})
        out.append({'kind': 'plc', 'exponent': 2.0, 'cutoff': 5.0, 'queries': [[0, 1], [0, 60], [2, 3]], 'values': [[0, 1.0]], 'scale': None})
        out.append({'kind': 'plc', 'exponent': 2.0, 'cutoff': 60.0, 'queries': [[0, 1], [0, 60], [2, 3]], 'values': [[0, 1.0]], 'scale': None})
        # every order of scaling and differentiation (PLANS) on each family: derivatives of derivative objects, scaled derivative
        # objects, dx(0) on a derivative object, low orders (where the property's relative tolerance bites) and high ones
        qs = [[2, 3], [2, 0], [1, 4], [3, 5], [0, 2], [4, 1], [10, 50], [5, 20]]
        vs = [[2, 1.0], [1, 1.0], [3, 1.0]]
        for plan in ('dd', 'ds', 'dsd', 'sd'):
            for cut, sc in ((1, ['*', 2.0]), (2, ['/', 4.0]), (3, None)):
                if sc is None and plan in ('ds', 'sd'):
                    continue        # without a scaling these are the plain derivative
                out.append(with_plan(None, {'kind': 'er', 'N': 1000, 'phi': None, 'kmean': 5.0, 'queries': qs, 'values': vs, 'scale': sc}, plan, cut))
                out.append(with_plan(None, {'kind': 'geo', 'q': 0.5, 'queries': qs, 'values': [[2, 0.0], [1, 0.25], [3, -0.5]], 'scale': sc}, plan, cut))
                out.append(with_plan(None, {'kind': 'poly', 'coeffs': [1.0, -2.0, 0.5, 3.0, 0.0, -0.25, 4.0, 1.0, -8.0, 2.0, 0.125, 1.0, -1.0],
                                            'queries': [[2, 3], [2, 0], [1, 4], [3, 5], [0, 2], [4, 1], [7, 5], [6, 6]],
                                            'values': [[2, 1.0], [1, 0.5], [3, -0.25]], 'scale': sc}, plan, cut))
            out.append(with_plan(None, {'kind': 'plc', 'exponent': 2.0, 'cutoff': 10.0, 'queries': [[2, 3], [1, 1], [3, 2]], 'values': [[0, 1.0], [0, 0.5]],
                                        'scale': ['*', 2.0]}, plan, 1))
        return out

    # ---------------------------------------------------------------- execute

    # exceptions of the gf code on well-formed input are observable behaviour (reported by D)
    OBSERVABLE = (ArithmeticError, LookupError, TypeError, AttributeError, RecursionError, NotImplementedError)

    def execute(self, case):
        import epydemic.gf as G
        if case['kind'] == 'net':
            g = networkx.Graph()
            g.add_nodes_from(case['nodes'])
            g.add_edges_from(tuple(e) for e in case['edges'])
            try:
                gf = G.gf_from_network(g)
                if case.get('moves'):
                    first = [float(gf[i]) for i in case['idx']]       # asked, and read, before the network changes
                    for a, b, x in case['moves']:
                        g.remove_edge(a, b)
                        g.add_edge(a, x)
                    gf = G.gf_from_network(g)
                return {'valueerror': None, 'raised': None, 'nodes': list(g.nodes()), 'edges': [list(e) for e in g.edges()],
                        'degrees': sorted(d for _, d in g.degree()),
                        'coeffs': [float(gf[i]) for i in case['idx']], 'one': float(gf(1)), 'mean': float(gf.dx()(1))}
            except ValueError as e:
                return {'valueerror': str(e), 'raised': None, 'edges': [list(e) for e in g.edges()], 'nodes': list(g.nodes())}
            except self.OBSERVABLE as e:
                return {'valueerror': None, 'raised': type(e).__name__ + ': ' + str(e), 'edges': [list(e) for e in g.edges()], 'nodes': list(g.nodes())}
        try:
            base = series_of(case)
            memo = {}
            # cases without explicit steps (corpus files written before the plans): scale first, then dx(order)
            hs = case['scale'] is not None
            steps = case.get('steps') or [steps_for('sd', o, hs, 1) for o, _ in case['queries']]
            vsteps = case.get('vsteps') or [steps_for('sd', o, hs, 1) for o, _ in case['values']]
            for (order, _), st in zip(case['queries'] + case['values'], steps + vsteps):
                if sum(t[1] for t in st if t[0] == 'dx') != order or (hs and sum(1 for t in st if t[0] == 's') != 1):
                    raise RuntimeError('malformed case: steps %r do not make order %d / one scaling' % (st, order))
            coeffs = []
            for (order, i), st in zip(case['queries'], steps):
                coeffs.append(float(apply_steps(base, st, case['scale'], memo)[i]))
            values = []
            for (order, x), st in zip(case['values'], vsteps):
                values.append(float(apply_steps(base, st, case['scale'], memo)(x)))
        except self.OBSERVABLE + (ValueError,) as e:
            return {'raised': type(e).__name__ + ': ' + str(e), 'coeffs': [], 'values': []}
        return {'raised': None, 'coeffs': coeffs, 'values': values}

    # ---------------------------------------------------------------- D

    def direct(self, case, obs):
        return self._direct_net(case, obs) if case['kind'] == 'net' else self._direct_series(case, obs)

    def _direct_net(self, case, obs):
        v = []
        N = len(case['nodes'])
        if obs['raised']:
            return [{'signature': 'network-gf-raised', 'detail': obs['raised']}]
        if N == 0:
            return [] if obs['valueerror'] else [{'signature': 'empty-network-accepted', 'detail': None}]
        if obs['valueerror']:
            return [{'signature': 'network-gf-raised', 'detail': obs['valueerror']}]
        deg = {n: 0 for n in case['nodes']}
        for a, b in obs['edges']:
            deg[a] += 1
            deg[b] += 1                        # a self-loop counts twice
        M = len(obs['edges'])
        for i, got in zip(case['idx'], obs['coeffs']):
            want = Fraction(sum(1 for d in deg.values() if d == i), N)
            if abs(Fraction(got) - want) > Fraction(1, 10 ** 12) * want:
                v.append({'signature': 'network-gf-coefficient', 'detail': 'gf[%d] = %r, fraction of nodes of degree %d is %s' % (i, got, i, want)})
                break
        if abs(obs['one'] - 1.0) > 1e-9:
            v.append({'signature': 'network-gf-value', 'detail': 'gf(1) = %r (max degree %d, N = %d)' % (obs['one'], max(deg.values()), N)})
        mean = Fraction(2 * M, N)
        if abs(Fraction(obs['mean']) - mean) > Fraction(1, 10 ** 9) * max(1, mean):
            v.append({'signature': 'network-gf-value' if v else 'network-gf-mean', 'detail': 'gf.dx()(1) = %r, 2M/N = %s' % (obs['mean'], mean)})
        return v

    def _coeff_fn(self, case):
        if case['kind'] == 'poly':
            cs = [Fraction(c) for c in case['coeffs']]
            return lambda j: (MP.mpf(cs[j].numerator) / cs[j].denominator) if j < len(cs) else MP.mpf(0)
        return lambda j: family_coeff(case, j)

    def _direct_series(self, case, obs):
        v = []
        kind = case['kind']
        if obs['raised']:
            return [{'signature': 'analytic-raised:' + kind, 'detail': obs['raised']}]
        a = self._coeff_fn(case)
        sc = scale_factor(case['scale'])
        scm = MP.mpf(sc.numerator) / sc.denominator
        if kind == 'poly':
            S = sum(abs(Fraction(c)) for c in case['coeffs']) or Fraction(1)
            S = MP.mpf(S.numerator) / S.denominator
        else:
            S = MP.mpf(1)                     # |f| <= f(1) = 1 on the unit circle for a probability series
        for qn, ((order, i), got) in enumerate(zip(case['queries'], obs['coeffs'])):
            n = i + order
            m = contour_points(i)
            factor = MP.mpf(fact(n)) / fact(i)
            scale = abs(scm) * factor * S
            taylor = scm * factor * a(n)
            closed = scm * factor * (a(0) if n == 0 else alias_sum(a, n, m))      # n == 0: f(0) itself
            err_t = abs(got - taylor)
            in_range = n <= 60 and (kind != 'poly' or len(case['coeffs']) <= 81)
            if in_range:
                self._note_dev(kind, err_t / abs(taylor) if abs(taylor) > 1e-9 * scale else None, err_t / scale,
                               '%s order=%d i=%d' % ({k: case[k] for k in ('kmean', 'exponent', 'cutoff', 'q') if k in case}, order, i))
            ok_t = err_t <= REL * abs(taylor) or err_t <= ABS * scale
            ok_c = abs(got - closed) <= TIE * scale
            what = '%s%s.dx(%d)[%d]%s = %r, Taylor coefficient %s, sum over the residue class mod %d %s' % (
                kind, '' if case['scale'] is None else case['scale'][0] + repr(case['scale'][1]), order, i,
                ' by steps %r' % (case['steps'][qn],) if case.get('steps') else '', got, MP.nstr(taylor, 12), m, MP.nstr(closed, 12))
            if in_range and not ok_t:
                v.append({'signature': ('contour-aliasing:' if ok_c else 'analytic-coefficient:') + kind, 'detail': what})
            elif in_range and not ok_c and err_t > TIE * scale:
                # inside the property's absolute tolerance 1e-6 * n!/i! (very wide at high orders) but neither the Taylor
                # coefficient nor the aliased sum of C17_contour_exact to 1e-9 of that scale: double-precision evaluation of
                # the contour mean is accurate to ~1e-13 of the scale, so this is a wrong coefficient, with a concrete input
                v.append({'signature': 'analytic-coefficient:' + kind, 'detail': what + ' (neither, to %g of the scale %s)' % (TIE, MP.nstr(scale, 6))})
            elif not ok_c:
                v.append({'signature': 'tie-contour-closed-form:' + kind, 'detail': what, 'kind': 'harness'})
        for qn, ((order, x), got) in enumerate(zip(case['values'], obs['values'])):
            want, closed, scale = self._value_ref(case, order, x)
            want, closed, scale = scm * want, scm * closed, abs(scm) * scale
            err = abs(got - want)
            what = '%s.dx(%d)(%r)%s = %r, derivative value %s, closed form %s' % (
                kind, order, x, ' by steps %r' % (case['vsteps'][qn],) if case.get('vsteps') else '', got, MP.nstr(want, 12), MP.nstr(closed, 12))
            in_range = kind != 'poly' or len(case['coeffs']) <= 81
            if in_range and not (err <= REL * abs(want) or err <= 1e-12 * scale):
                v.append({'signature': ('contour-aliasing-value:' if abs(got - closed) <= TIE * scale else 'analytic-value:') + kind, 'detail': what})
            elif abs(got - closed) > TIE * scale:
                v.append({'signature': 'tie-contour-closed-form-value:' + kind, 'detail': what, 'kind': 'harness'})
        return v

    def _value_ref(self, case, order, x):
        """(order-th derivative at x, what the 100-point contour of radius 1 about x returns, scale of the summands)"""
        kind = case['kind']
        X = MP.mpf(Fraction(x).numerator) / Fraction(x).denominator
        if kind == 'poly':
            cs = [Fraction(c) for c in case['coeffs']]
            xf = Fraction(x)
            b = [sum(cs[k] * math.comb(k, j) * xf ** (k - j) for k in range(j, len(cs))) for j in range(len(cs))]
            bj = lambda j: (MP.mpf(b[j].numerator) / b[j].denominator) if j < len(b) else MP.mpf(0)
            S = sum(abs(c) * (abs(xf) + 1) ** k for k, c in enumerate(cs)) or Fraction(1)
            S = MP.mpf(S.numerator) / S.denominator
        elif kind == 'er':
            k = MP.mpf(Fraction(case['kmean']).numerator) / Fraction(case['kmean']).denominator
            bj = lambda j: MP.exp(k * (X - 1)) * k ** j / MP.factorial(j)
            S = MP.exp(k * X)
        elif kind == 'geo':
            q = MP.mpf(Fraction(case['q']).numerator) / Fraction(case['q']).denominator
            bj = lambda j: (1 - q) * q ** j / (1 - q * X) ** (j + 1)
            S = (1 - q) / (1 - q * (abs(X) + 1))
        else:       # plc: only order 0 at |x| <= 1 is asked (the series is not analytic beyond radius e^(1/cutoff))
            assert order == 0 and abs(x) <= 1.0
            if x == 1.0:
                return MP.mpf(1), MP.mpf(1), MP.mpf(1)
            val, j = MP.mpf(0), 1           # direct summation of p_j x^j, p_j <= e^(-j/60)
            while j < 4000:
                t = plc(case['exponent'], case['cutoff'], j) * X ** j
                val += t
                if abs(t) < MP.mpf(10) ** -45:
                    break
                j += 1
            return val, val, MP.mpf(1)
        f = MP.mpf(fact(order))
        if order == 0:
            return bj(0), bj(0), S
        return f * bj(order), f * alias_sum(bj, order, 100), f * S

    # ---------------------------------------------------------------- tie B (networks)

    def to_coq(self, case, obs):
        if case['kind'] != 'net':
            return None
        if obs['raised']:
            coeffs, one, mean, ve = [], 0, 0, bool(case['nodes'])      # cannot match the model
        elif obs['valueerror']:
            coeffs, one, mean, ve = [], 0, 0, True
        else:
            coeffs, one, mean, ve = obs['coeffs'], obs['one'], obs['mean'], False
        return ('{| c_nodes := %s; c_edges := %s; c_idx := %s; o_valueerror := %s; o_coeffs := %s; o_one := %s; o_mean := %s |}' % (
            L.lst(obs['nodes'], L.z), L.lst(obs['edges'], L.zpair), L.lst(case['idx'], L.nat), L.b(ve),
            L.lst([L.q(c) for c in coeffs]), L.q(one), L.q(mean)))

    def nontrivial(self, case, obs):
        if case['kind'] == 'net' and not case['edges']:
            return None
        return repr(sorted(case.items()))

    def sample_view(self, case, obs):
        c = dict(case)
        if c['kind'] == 'net' and len(c['nodes']) > 20:
            c['nodes'] = '%d nodes' % len(c['nodes']); c['edges'] = '%d edges' % len(c['edges'])
        return {'case': c, 'observed': {k: v for k, v in obs.items() if k not in ('nodes', 'edges')}}
