"""C03: simulation time never runs backwards and all clocks agree."""
import math

from vlib.core import Harness
from harness import kcommon


def rep_times(t0, ddt, limit):
    out = []
    t = t0
    while t <= limit + 1e-9 and len(out) < 10000:
        out.append(t)
        t = t + ddt
    return out


class H(Harness):
    ID = 'C03'
    ANCHOR_FILES = ['epydemic/networkdynamics.py', 'epydemic/stochasticdynamics.py', 'epydemic/synchronousdynamics.py', 'epydemic/networkexperiment.py', 'epydemic/process.py']
    TIE_IMPORT = kcommon.TIE_IMPORT
    CHECK_FN = kcommon.CHECK_FN
    VO_TARGETS = ['Properties/C03.vo', 'Tie/Kernel.vo']
    QUICK_N = 500
    THOROUGH_N = 5000
    RULE = ('random ScriptProcess tables (1-2 processes in a sequence, 1-3 loci, per-element and fixed-rate events with dyadic '
            'probabilities incl. 0, handler programs that post (also zero-delay and earlier-than-queued), post repeating, un-post, query and '
            'mutate loci), both dynamics, scripted random source; D binds every posted handler to a queued (time, program, element) and, '
            'under synchronous dynamics, TIMESTEPS_WITH_EVENTS to the number of steps with an executed event; non-trivial = at least 3 events fired of at least 2 kinds '
            '(posted / per-element / fixed); distinct by the full (table, dynamics, seed)')
    TRUSTED = ['Coq 8.16.1 kernel incl. vm_compute', 'harness/kscript.py (table interpreter over the public Process API), harness/kcommon.py, vlib/oracle.py',
               'heapq modelled as "pop returns the minimum under (time, id)"', 'binary64 times compared with the exact rational model up to 1e-9 relative']
    ASSUMPTIONS = ['ln(1/r1) is supplied to the model by recording math.log in stochasticdynamics (its value is not recomputed in Coq)',
                   'DrawSet.draw is observed (rank of the returned element), its law is the subject of C09']

    def gen_cases(self, tier, rnd, n):
        out = []
        for i in range(n):
            dyn = rnd.choice(['stochastic', 'synchronous'])
            tb = kcommon.gen_table(rnd, dyn, rep_in_progs=(i % 5 == 0), unnamed_ok=True)
            out.append({'table': tb, 'dynamics': dyn, 'seed': rnd.randrange(1 << 30), 'prerun': rnd.random() < 0.25})
        # shipped models (direct oracle only here; their whole-run tie is Tie/Compart.v under C07/C08/C12)
        from harness import compart
        for i in range(max(30, n // 5)):
            c = compart.gen_case(rnd)
            c['seq'] = rnd.random() < 0.5
            if c['seq']:
                # observation intervals whose running sum is not k*dt in binary64 (0.1, 0.3) next to the dyadic ones
                c['delta'] = rnd.choice([0.5, 0.25, 0.1, 0.1, 0.3])
            out.append(c)
        return out

    def execute(self, case):
        if 'model' in case:
            from harness import compart
            return compart.run_case(case)
        return kcommon.run_case(case)

    def to_coq(self, case, obs):
        if 'model' in case:
            return None
        return kcommon.to_coq(case, obs)

    def direct(self, case, obs):
        v = []
        if obs.get('skipped'):
            return []
        if 'model' in case:
            from harness import compart
            return compart.direct_c03(case, obs)
        if obs['exception']:
            return [{'signature': 'run-raised', 'detail': obs['exception']}]
        seq = obs['obs']
        # "for a posted event exactly the time it was posted for": the events that are queued, each with ITS OWN time,
        # handler program and element.  A posted handler must be one of them and uses it up; among queued events that are
        # identical in all three (only an un-post or the interval of a repetition can tell them apart later) it is taken to
        # be the one queued first, which is the order the queue promises for equal times.
        live = {}           # sequence number of queueing -> (time, prog, element, interval of a repeating event | None, id | None)
        nseq = [0]
        repost = None       # the repetition to queue again when the tap of the current posted handler arrives

        def queue(*x):
            live[nseq[0]] = x
            nseq[0] += 1
        cur = None
        last_h = -math.inf
        last_tap = -math.inf
        ntap = 0
        for o in seq:
            if o[0] == 'posted':
                queue(o[2], o[3], o[4], None, o[1])
            elif o[0] == 'postedrep':
                queue(o[1], o[3], o[4], o[2], None)
            elif o[0] == 'posted-into-past-accepted' and len(o) >= 3:
                queue(o[1], 0, o[2], None, None)
            elif o[0] == 'unpost' and o[2] is not None and o[2] != 'KeyError':
                for q in [q for q, x in live.items() if x[4] == o[1]]:
                    del live[q]
            if o[0] == 'handler':
                if cur is not None:
                    v.append({'signature': 'handler-without-tap', 'detail': cur})
                cur = o
                _, prog, targ, clk, e, member = o
                if targ != clk:
                    v.append({'signature': 'clock-differs-from-handler-time:' + ('posted' if member is None else 'stochastic'),
                              'detail': {'handler_time': targ, 'clock': clk, 'obs': o}})
                if member is None:
                    repost = None
                    key = (targ, prog, e)
                    cands = sorted(q for q, x in live.items() if x[:3] == key)
                    if cands:
                        x = live.pop(cands[0])
                        if x[3] is not None:
                            repost = (targ + x[3], prog, e, x[3], None)
                    else:
                        v.append({'signature': 'posted-event-not-at-its-time',
                                  'detail': {'handler': o, 'queued_for_this_program_and_element':
                                             sorted(x[0] for x in live.values() if (x[1], x[2]) == (prog, e))[:6]}})
                if targ < last_h:
                    v.append({'signature': 'time-ran-backwards', 'detail': {'prev': last_h, 'now': targ}})
                last_h = max(last_h, targ)
            elif o[0] == 'tap':
                ntap += 1
                if cur is None:
                    v.append({'signature': 'tap-without-event', 'detail': o})
                else:
                    if o[1] != cur[2] or o[4] != cur[4]:
                        v.append({'signature': 'tap-time-differs-from-event-time:' + ('posted' if cur[5] is None else 'stochastic'),
                                  'detail': {'tap': o, 'handler': cur}})
                if o[1] < last_tap:
                    v.append({'signature': 'tap-time-ran-backwards', 'detail': o})
                last_tap = max(last_tap, o[1])
                if obs['time'] is not None and o[1] > obs['time']:
                    v.append({'signature': 'event-after-end-time', 'detail': {'tap': o, 'TIME': obs['time']}})
                if repost is not None and cur is not None and cur[5] is None:
                    queue(*repost)              # postRepeatingEvent queues the next repetition after the handler returns
                    repost = None
                cur = None
        if cur is not None:
            v.append({'signature': 'handler-without-tap', 'detail': cur})
        if obs['events'] != ntap:
            v.append({'signature': 'event-count-mismatch', 'detail': {'EVENTS': obs['events'], 'taps': ntap}})
        if case['dynamics'] == 'synchronous' and obs['time'] is not None:
            exp = float(max(1, math.ceil(case['table']['maxtime'])))
            if obs['time'] != exp:
                v.append({'signature': 'sync-end-time', 'detail': {'TIME': obs['time'], 'expected': exp}})
            # TIMESTEPS_WITH_EVENTS: the number of steps in which at least one event (posted, per-element or fixed-rate) was
            # executed.  A step = the posted events fired by its runPendingEvents, then its tranche; the harness notes where
            # in the stream each tranche was drawn (after the step's posted events, before its first tranche handler).
            cuts = [tr['obs_index'] for tr in obs.get('tranches', [])]
            per_step = [0] * (len(cuts) + 1)        # the last slot: posted events after the last tranche (there is no such step)
            posted_kind = None
            for idx, o in enumerate(seq):
                if o[0] == 'handler':
                    posted_kind = o[5] is None
                elif o[0] == 'tap' and posted_kind is not None:
                    drawn = sum(1 for c in cuts if c <= idx)        # tranches drawn before this tap
                    # a posted event belongs to the step whose tranche is drawn next, a tranche event to the one drawn last
                    step = drawn if posted_kind else drawn - 1
                    if step < 0:
                        v.append({'signature': 'tranche-event-before-the-first-step', 'detail': o})
                    else:
                        per_step[step] += 1
                    posted_kind = None
            exp_steps = sum(1 for n in per_step if n > 0)
            if obs.get('steps') != exp_steps:
                v.append({'signature': 'timesteps-with-events-mismatch',
                          'detail': {'TIMESTEPS_WITH_EVENTS': obs.get('steps'), 'steps_with_an_executed_event': exp_steps,
                                     'executed_events_per_step': per_step[:-1], 'after_last_step': per_step[-1]}})
        # de-duplicate by signature, keep the first of each
        seen = {}
        for x in v:
            seen.setdefault(x['signature'], x)
        return list(seen.values())

    def nontrivial(self, case, obs):
        if obs.get('skipped'):
            return None
        if 'model' in case:
            return str(sorted(case.items(), key=str)) if len(obs.get('snaps', [])) >= 4 else None
        hs = [o for o in obs.get('obs', []) if o[0] == 'handler']
        kinds = {('posted' if o[5] is None else 'stoch') for o in hs}
        if len(hs) >= 3 and len(kinds) >= 2:
            return None if False else str((case['seed'], case['dynamics'], len(hs)))
        return None

    def sample_view(self, case, obs):
        if 'model' in case:
            return {'case': case, 'events': (obs.get('events_log') or [])[:8]}
        return {'table': case['table'], 'dynamics': case['dynamics'], 'first_observations': obs.get('obs', [])[:12],
                'TIME': obs.get('time'), 'EVENTS': obs.get('events')}
