"""Tie A for the event functions of the shipped compartmented models: a fail-closed translator from
the Python source (ast) of the function a live model object would call -- super().f(...), self.f(...)
and Class.f(self, ...) calls inlined along the MRO -- to the statement language of coq/Model/EvProg.v.
On every run the programs are regenerated from /repo, Coq computes their summaries
(EvProg.summarise, proved sound in Proofs/EvProg.v: a program with summary h IS `handler h`) and checks
that they are the summaries the whole-run models (harness/compart_coq.py) are built from.

Anything outside the fragment raises Untranslatable: the obligation is then broken (never silently passed)."""
import ast
import inspect
import os
import textwrap

import networkx

from vlib import coqlit as L
from vlib import core
from harness import compart


class Untranslatable(Exception):
    pass


def _defining(cls, name, after=None):
    """(class, function) that attribute lookup of `name` reaches on cls; with after=C: what super() reaches from C"""
    mro = inspect.getmro(cls)
    if after is not None:
        mro = mro[mro.index(after) + 1:]
    for c in mro:
        if name in c.__dict__:
            f = c.__dict__[name]
            if not inspect.isfunction(f):
                raise Untranslatable('%s.%s is not a plain function' % (c.__name__, name))
            return c, f
    raise Untranslatable('no method %s' % name)


def _is_self_attr(node, selfname):
    return isinstance(node, ast.Attribute) and isinstance(node.value, ast.Name) and node.value.id == selfname


def _is_super_call(node):
    return (isinstance(node, ast.Attribute) and isinstance(node.value, ast.Call) and isinstance(node.value.func, ast.Name)
            and node.value.func.id == 'super' and not node.value.args and not node.value.keywords)


class Translator:
    def __init__(self, obj):
        self.obj = obj
        self.cls = type(obj)
        # attributes of the network that the Coq world models: writing them directly is outside the fragment
        self.modelled = {obj.COMPARTMENT, obj.OCCUPIED, obj.T_OCCUPIED, obj.T_HITTING}
        self.depth = 0

    def const(self, node, selfname, glob):
        """value of self.NAME or Class.NAME"""
        if _is_self_attr(node, selfname):
            return getattr(self.obj, node.attr)
        if isinstance(node, ast.Attribute) and isinstance(node.value, ast.Name) and node.value.id in glob and inspect.isclass(glob[node.value.id]):
            return getattr(glob[node.value.id], node.attr)
        raise Untranslatable('not a constant: ' + ast.unparse(node))

    def function(self, name, kind, owner=None, after=None, gated=False):
        """statements of method `name` as event function on a node ('node') or edge ('edge') element"""
        self.depth += 1
        if self.depth > 6:
            raise Untranslatable('call depth')
        c, f = _defining(owner or self.cls, name, after)
        try:
            src = textwrap.dedent(inspect.getsource(f))
        except (OSError, TypeError) as e:
            raise Untranslatable('no source for %s.%s: %r' % (c.__name__, name, e))
        fd = ast.parse(src).body[0]
        if not isinstance(fd, ast.FunctionDef) or fd.decorator_list:
            raise Untranslatable('%s.%s: decorated or not a def' % (c.__name__, name))
        a = fd.args
        if a.vararg or a.kwarg or a.kwonlyargs or a.posonlyargs or a.defaults or len(a.args) != 3:
            raise Untranslatable('%s.%s: parameter list is not (self, t, x)' % (c.__name__, name))
        selfname, tname, xname = [x.arg for x in a.args]
        glob = f.__globals__
        env = {'self': selfname, 't': tname, 'x': xname, 'n': xname if kind == 'node' else None, 'g': set()}
        out = []
        body = list(fd.body)
        gate = None
        if gated and body and isinstance(body[-1], ast.If):
            gate = body.pop()
        for s in body:
            out += self.stmt(s, env, kind, c, glob)
        if gate is not None:
            out = self.gate(gate, out, env, kind, c, glob)
        self.depth -= 1
        return out

    def node_attr(self, node, env, glob):
        """<graph>.nodes[n][K] -> K's value"""
        if (isinstance(node, ast.Subscript) and isinstance(node.value, ast.Subscript) and isinstance(node.value.value, ast.Attribute)
                and node.value.value.attr == 'nodes' and self.is_graph(node.value.value.value, env) and self.is_n(node.value.slice, env)):
            return self.const(node.slice, env['self'], glob)
        raise Untranslatable('not a node attribute: ' + ast.unparse(node))

    def gate(self, s, pre, env, kind, cls, glob):
        """if g.nodes[n][VACCINATED] and g.nodes[n][VACCINATION_TIME] + self.<off> < t:
               if rng.random() > self.<eff>: TH
           else: EL"""
        import epydemic as ep
        where = '%s line %d: %s' % (cls.__name__, s.lineno, ast.unparse(s.test)[:100])
        tst = s.test
        if not (isinstance(tst, ast.BoolOp) and isinstance(tst.op, ast.And) and len(tst.values) == 2):
            raise Untranslatable(where)
        a, b = tst.values
        if self.node_attr(a, env, glob) != ep.SIvR.VACCINATED:
            raise Untranslatable(where + ': first conjunct is not the vaccination flag')
        if not (isinstance(b, ast.Compare) and len(b.ops) == 1 and isinstance(b.ops[0], ast.Lt) and self.is_t(b.comparators[0], env)
                and isinstance(b.left, ast.BinOp) and isinstance(b.left.op, ast.Add) and _is_self_attr(b.left.right, env['self'])
                and self.node_attr(b.left.left, env, glob) == ep.SIvR.VACCINATION_TIME):
            raise Untranslatable(where + ': second conjunct is not <vaccination time> + self.<offset> < t')
        off = getattr(self.obj, b.left.right.attr)
        if len(s.body) != 1 or not isinstance(s.body[0], ast.If) or s.body[0].orelse:
            raise Untranslatable(where + ': the effective branch is not a single if without else')
        inner = s.body[0]
        it = inner.test
        if not (isinstance(it, ast.Compare) and len(it.ops) == 1 and isinstance(it.ops[0], ast.Gt) and _is_self_attr(it.comparators[0], env['self'])
                and isinstance(it.left, ast.Call) and not it.left.args and not it.left.keywords and isinstance(it.left.func, ast.Attribute)
                and it.left.func.attr == 'random' and isinstance(it.left.func.value, ast.Name) and glob.get(it.left.func.value.id) is ep.rng):
            raise Untranslatable(where + ': inner test is not rng.random() > self.<efficacy>')
        eff = getattr(self.obj, it.comparators[0].attr)
        if not isinstance(off, (int, float)) or not isinstance(eff, (int, float)):
            raise Untranslatable(where + ': offset / efficacy is not a number')
        env_t, env_e = dict(env, g=set(env['g'])), dict(env, g=set(env['g']))
        th, el = [], []
        for x in inner.body:
            th += self.stmt(x, env_t, kind, cls, glob)
        for x in s.orelse:
            el += self.stmt(x, env_e, kind, cls, glob)
        return [('gated', pre, float(off), float(eff), th, el)]

    def is_t(self, node, env):
        return isinstance(node, ast.Name) and node.id == env['t']

    def is_x(self, node, env):
        return isinstance(node, ast.Name) and node.id == env['x']

    def is_n(self, node, env):
        return env['n'] is not None and isinstance(node, ast.Name) and node.id == env['n']

    def is_graph(self, node, env):
        if isinstance(node, ast.Name) and node.id in env['g']:
            return True
        return (isinstance(node, ast.Call) and _is_self_attr(node.func, env['self']) and node.func.attr == 'network'
                and not node.args and not node.keywords)

    def first_only(self, call, where):
        fo = True
        extra = call.args[2:]
        if len(extra) > 1:
            raise Untranslatable(where + ': too many arguments')
        if extra:
            if not (isinstance(extra[0], ast.Constant) and isinstance(extra[0].value, bool)):
                raise Untranslatable(where + ': firstOnly is not a literal')
            fo = extra[0].value
        for kw in call.keywords:
            if kw.arg != 'firstOnly' or extra or not (isinstance(kw.value, ast.Constant) and isinstance(kw.value.value, bool)):
                raise Untranslatable(where + ': unexpected keyword')
            fo = kw.value.value
        return fo

    def stmt(self, s, env, kind, cls, glob):
        where = '%s line %d: %s' % (cls.__name__, getattr(s, 'lineno', 0), ast.unparse(s)[:80])
        if isinstance(s, ast.Expr) and isinstance(s.value, ast.Constant) and isinstance(s.value.value, str):
            return []                                     # docstring
        if isinstance(s, ast.Pass):
            return []
        if isinstance(s, ast.Assign) and len(s.targets) == 1:
            tg, val = s.targets[0], s.value
            # n, _ = e
            if isinstance(tg, ast.Tuple) and len(tg.elts) == 2 and all(isinstance(x, ast.Name) for x in tg.elts) and self.is_x(val, env):
                if kind != 'edge':
                    raise Untranslatable(where + ': unpacking a node')
                if tg.elts[0].id in (env['self'], env['t'], env['x']) or tg.elts[1].id in (env['self'], env['t'], env['x']):
                    raise Untranslatable(where + ': rebinding a parameter')
                if tg.elts[0].id == tg.elts[1].id:
                    raise Untranslatable(where + ': both ends bound to one name')
                env['n'] = tg.elts[0].id
                env['g'].discard(tg.elts[0].id)
                env['g'].discard(tg.elts[1].id)
                return [('unpack',)]
            # g = self.network()
            if isinstance(tg, ast.Name) and self.is_graph(val, env) and not isinstance(val, ast.Name):
                if tg.id in (env['self'], env['t'], env['x'], env['n']):
                    raise Untranslatable(where + ': rebinding')
                env['g'].add(tg.id)
                return [('setattr',)]
            # <graph>.nodes[n][K] = v    (an attribute outside the model)
            if (isinstance(tg, ast.Subscript) and isinstance(tg.value, ast.Subscript) and isinstance(tg.value.value, ast.Attribute)
                    and tg.value.value.attr == 'nodes' and self.is_graph(tg.value.value.value, env) and self.is_n(tg.value.slice, env)):
                key = self.const(tg.slice, env['self'], glob)
                if key in self.modelled or str(key).split('@')[0] in {str(m).split('@')[0] for m in self.modelled}:
                    raise Untranslatable(where + ': writes a modelled attribute directly')
                if not (self.is_t(val, env) or isinstance(val, ast.Constant)):
                    raise Untranslatable(where + ': value is not t or a literal')
                return [('setattr',)]
            raise Untranslatable(where)
        if isinstance(s, ast.Expr) and isinstance(s.value, ast.Call):
            call = s.value
            fn = call.func
            if _is_self_attr(fn, env['self']):
                m = fn.attr
                if m == 'changeCompartment':
                    if len(call.args) != 2 or call.keywords or not self.is_n(call.args[0], env):
                        raise Untranslatable(where)
                    return [('change', self.const(call.args[1], env['self'], glob))]
                if m == 'markOccupied':
                    if kind != 'edge' or len(call.args) < 2 or not self.is_x(call.args[0], env) or not self.is_t(call.args[1], env):
                        raise Untranslatable(where)
                    return [('markocc', self.first_only(call, where))]
                if m == 'markHit':
                    if len(call.args) < 2 or not self.is_n(call.args[0], env) or not self.is_t(call.args[1], env):
                        raise Untranslatable(where)
                    return [('markhit', self.first_only(call, where))]
                if m == 'postEvent':
                    # self.postEvent(t + self.A, n, self.f, name=...)
                    if len(call.args) != 3 or any(kw.arg != 'name' for kw in call.keywords):
                        raise Untranslatable(where)
                    tm, el, ef = call.args
                    if not (isinstance(tm, ast.BinOp) and isinstance(tm.op, ast.Add) and self.is_t(tm.left, env) and _is_self_attr(tm.right, env['self'])):
                        raise Untranslatable(where + ': time is not t + self.<attr>')
                    if not self.is_n(el, env) or not _is_self_attr(ef, env['self']):
                        raise Untranslatable(where)
                    delay = getattr(self.obj, tm.right.attr)
                    if not isinstance(delay, (int, float)):
                        raise Untranslatable(where + ': delay is not a number')
                    return [('post', float(delay), ef.attr)]
                # self.f(t, x): another event function of the same object on the same element
                if len(call.args) == 2 and not call.keywords and self.is_t(call.args[0], env) and self.is_x(call.args[1], env):
                    return self.function(m, kind)
                raise Untranslatable(where)
            # self.locus(self.L).enterHandler(g, n) / leaveHandler(g, n) on a plain locus
            if (isinstance(fn, ast.Attribute) and fn.attr in ('enterHandler', 'leaveHandler') and isinstance(fn.value, ast.Call)
                    and _is_self_attr(fn.value.func, env['self']) and fn.value.func.attr == 'locus' and len(fn.value.args) == 1
                    and not fn.value.keywords and len(call.args) == 2 and not call.keywords
                    and self.is_graph(call.args[0], env) and self.is_n(call.args[1], env)):
                lname = self.const(fn.value.args[0], env['self'], glob)
                return [('enter' if fn.attr == 'enterHandler' else 'leave', lname)]
            if _is_super_call(fn):
                if len(call.args) == 2 and not call.keywords and self.is_t(call.args[0], env) and self.is_x(call.args[1], env):
                    return self.function(fn.attr, kind, after=cls)
                raise Untranslatable(where)
            # Class.f(self, t, x)
            if (isinstance(fn, ast.Attribute) and isinstance(fn.value, ast.Name) and fn.value.id in glob and inspect.isclass(glob[fn.value.id])
                    and len(call.args) == 3 and not call.keywords and isinstance(call.args[0], ast.Name) and call.args[0].id == env['self']
                    and self.is_t(call.args[1], env) and self.is_x(call.args[2], env)):
                return self.function(fn.attr, kind, owner=glob[fn.value.id])
            raise Untranslatable(where)
        raise Untranslatable(where)


def render(kind, body, code, kpost, lidx=None, vplain=False):
    def st(s):
        if s[0] == 'unpack':
            return 'SUnpack'
        if s[0] == 'change':
            if s[1] not in code:
                raise Untranslatable('changeCompartment to an unknown compartment %r' % (s[1],))
            return '(SChange %s)' % L.z(code[s[1]])
        if s[0] == 'markocc':
            return '(SMarkOcc %s)' % L.b(s[1])
        if s[0] == 'markhit':
            return '(SMarkHit %s)' % L.b(s[1])
        if s[0] == 'setattr':
            return 'SSetAttr'
        if s[0] == 'post':
            return '(SPost %s %s)' % (L.q(s[1]), L.nat(kpost))
        if s[0] in ('enter', 'leave'):
            if lidx is None or s[1] not in lidx:
                raise Untranslatable('enter/leave handler of an unknown locus %r' % (s[1],))
            return '(%s %s)' % ('SEnter' if s[0] == 'enter' else 'SLeave', L.nat(lidx[s[1]]))
        raise Untranslatable(repr(s))
    if body and body[0][0] == 'gated':
        if len(body) != 1 or kind != 'edge':
            raise Untranslatable('gate in an unexpected position')
        _, pre, off, eff, th, el = body[0]
        return '(VGated %s %s %s %s %s)' % (L.lst([st(x) for x in pre]), L.q(off), L.q(eff), L.lst([st(x) for x in th]), L.lst([st(x) for x in el]))
    p = '(%s %s)' % ('PEdge' if kind == 'edge' else 'PNode', L.lst([st(s) for s in body]))
    return '(VPlain %s)' % p if vplain else p


PV = {'pSeed': 0.5, 'pInfect': 0.5, 'pRemove': 0.25, 'pAux': 0.125, 'tInf': 1.5, 'eff': 0.75, 'off': 0.25}
HEADER = ['From Coq Require Import List ZArith QArith Bool.', 'From EpyV Require Import Model.Kernel Model.Loci Model.Compart Model.EvProg Proofs.EvProg.',
          'Import ListNotations.', 'Open Scope Q_scope.']


def live(model):
    import epydemic as ep
    cls = compart.models()[model]
    p = cls()
    dyn = ep.StochasticDynamics(p, networkx.path_graph(3))
    dyn.setUp(dict(compart.params_for(model, PV)))
    return p, dyn


def programs(model, gated=False):
    """[(function name, kind, statements, posted target)] for every registered event of the model, plus posted targets"""
    import epydemic as ep
    from epydemic.opinion_model import MultiCompartmentedEdgeLocus
    p, dyn = live(model)
    try:
        regs = []
        for attr in ('_perElementEvents', '_perLocusEvents'):
            for (l, pr, ef, name) in getattr(p, attr, []):
                kind = 'edge' if isinstance(l, (ep.CompartmentedEdgeLocus, MultiCompartmentedEdgeLocus)) else 'node'
                if getattr(ef, '__self__', None) is not p:
                    raise Untranslatable('event function %r is not a method of the model object' % (ef,))
                regs.append((ef.__func__.__name__, kind))
        out = []
        for fn, kind in regs:
            tr = Translator(p)
            out.append((fn, kind, tr.function(fn, kind, gated=gated)))
        targets = sorted({s[2] for _, _, body in out for s in body if s[0] == 'post'})
        posted = []
        for fn in targets:
            posted.append((fn, 'node', Translator(p).function(fn, 'node')))
        if gated:
            return out, posted, {n.split('@')[0]: i for i, n in enumerate(dyn.loci().keys())}
        return out, posted
    finally:
        dyn.tearDown()


def obligations(workdir, aspect):
    """aspect 'full': the whole summary (C08); 'comp': compartments, loci and posted events only (C07)"""
    from harness import compart_coq
    import epydemic as ep
    res = []
    for model in compart_coq.IN_COQ:
        name = 'tieA:event-functions-from-source:' + model
        try:
            sp = compart.spec(model)
            code = {c: i + 1 for i, c in enumerate(sorted(set(sp['comps'])))}
            evs, posted = programs(model)
            kpost = len(evs)
            lines = list(HEADER)
            for j, (fn, kind, body) in enumerate(evs):
                exp = compart_coq.hkind(model, fn, code, sp, PV, kpost)
                lines.append('Definition src_%d : eprog := %s.' % (j, render(kind, body, code, kpost)))
                if aspect == 'full':
                    lines.append('Lemma sum_%d : summarise src_%d = Some %s. Proof. vm_compute. reflexivity. Qed.' % (j, j, exp))
                    lines.append('Definition is_handler_%d := summarise_sound _ _ sum_%d.' % (j, j))
                else:
                    lines.append('Lemma sum_%d : summarise_comp src_%d = Some (comp_part %s). Proof. vm_compute. reflexivity. Qed.' % (j, j, exp))
                    lines.append('Definition is_handler_%d := summarise_comp_sound _ _ sum_%d %s eq_refl.' % (j, j, exp))
            fixed = model in ('SIR_FixedRecovery', 'SIS_FixedRecovery')
            if fixed:
                back = ep.SIR.REMOVED if model == 'SIR_FixedRecovery' else ep.SIS.SUSCEPTIBLE
                if len(posted) != 1:
                    raise Untranslatable('expected exactly one posted event function, got %r' % [x[0] for x in posted])
                lines.append('Definition src_posted : eprog := %s.' % render('node', posted[0][2], code, kpost))
                lines.append('Lemma sum_posted : summarise src_posted = Some (HNode %s). Proof. vm_compute. reflexivity. Qed.' % L.z(code[back]))
            elif posted:
                raise Untranslatable('model posts events (%r) but its Coq model has none' % [x[0] for x in posted])
            src = os.path.join(workdir, 'EvSrc_%s_%s.v' % (aspect, model))
            with open(src, 'w') as f:
                f.write('\n'.join(lines) + '\n')
            rc, out, dt = core.coqc_file(src, timeout=120)
            res.append((name, rc == 0, out[-1200:] if rc else [fn for fn, _, _ in evs]))
        except Untranslatable as e:
            res.append((name, False, 'outside the translated fragment: %s' % e))
        except Exception as e:          # the model cannot even be built: another property's business, but the tie is not there
            res.append((name, False, repr(e)))
    return res


HEADER_V = ['From Coq Require Import List ZArith QArith Bool.',
            'From EpyV Require Import Model.Kernel Model.Loci Model.Compart Model.CompartV Model.EvProg Model.EvProgV Proofs.EvProgV.',
            'Import ListNotations.', 'Open Scope Q_scope.']


def obligations_sivr(workdir):
    """SIvR: the vaccine gate and the two plain loci, against the summaries Tie/CompartV.v's cases are built from"""
    import epydemic as ep
    name = 'tieA:event-functions-from-source:SIvR'
    try:
        sp = compart.spec('SIvR')
        code = {c: i + 1 for i, c in enumerate(sorted(set(sp['comps'])))}
        evs, posted, lidx = programs('SIvR', gated=True)
        if posted:
            raise Untranslatable('SIvR posts events (%r) but its Coq model has none' % [x[0] for x in posted])
        iN, iV = lidx[ep.SIvR.INFECTED_N], lidx[ep.SIvR.INFECTED_V]
        lines = list(HEADER_V)
        for j, (fn, kind, body) in enumerate(evs):
            if fn == 'infect':
                exp = '(VInfect %s %s %s %s %s)' % (L.z(code[ep.SIR.INFECTED]), L.q(PV['eff']), L.q(PV['off']), L.nat(iN), L.nat(iV))
            elif fn == 'remove':
                exp = '(VRemove %s %s %s)' % (L.z(code[ep.SIR.REMOVED]), L.nat(iN), L.nat(iV))
            else:
                raise Untranslatable('unexpected event function %s' % fn)
            lines.append('Definition src_%d : vprog := %s.' % (j, render(kind, body, code, len(evs), lidx, vplain=True)))
            lines.append('Lemma sum_%d : vsummarise src_%d = Some %s. Proof. vm_compute. reflexivity. Qed.' % (j, j, exp))
            lines.append('Definition is_vhandler_%d := vsummarise_sound _ _ sum_%d.' % (j, j))
        src = os.path.join(workdir, 'EvSrc_SIvR.v')
        with open(src, 'w') as f:
            f.write('\n'.join(lines) + '\n')
        rc, out, dt = core.coqc_file(src, timeout=120)
        return [(name, rc == 0, out[-1200:] if rc else [fn for fn, _, _ in evs])]
    except Untranslatable as e:
        return [(name, False, 'outside the translated fragment: %s' % e)]
    except Exception as e:
        return [(name, False, repr(e))]
