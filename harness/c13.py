"""C13: Newman-Ziff percolation reports true component sizes at every sample.
Tie B: run BondPercolation / SitePercolation with a scripted shuffle and a sample() override that
records the raw component array, largestComponentSize(), components(), componentSize(n) for all n
and a copy of the working network; compare with Model/NewmanZiff.v.
D: the property restated directly on those observables (BFS on the recorded working network,
one sample per requested point, taken after the first k occupations with k/M >= p, ...)."""
import itertools
from fractions import Fraction

import networkx
import numpy

from vlib import coqlit as L
from vlib.core import Harness
from vlib.oracle import Oracle, install


def norm(e):
    a, b = e
    return (a, b) if a <= b else (b, a)


def make_edges(rnd, n, kind):
    """edge list (with orientation and insertion order) of a network on nodes 0..n-1"""
    es = []
    if kind == 'complete':
        es = list(itertools.combinations(range(n), 2))
    elif kind == 'path':
        es = [(i, i + 1) for i in range(n - 1)]
    elif kind == 'star':
        es = [(0, i) for i in range(1, n)]
    elif kind == 'cycle':
        es = [(i, (i + 1) % n) for i in range(n)] if n >= 3 else [(i, i + 1) for i in range(n - 1)]
    elif kind == 'empty':
        es = []
    elif kind == 'two':          # two or three separate clumps
        cut = sorted(rnd.sample(range(1, n), min(n - 1, rnd.choice([1, 2])))) if n >= 2 else []
        blocks, lo = [], 0
        for c in cut + [n]:
            blocks.append(list(range(lo, c))); lo = c
        for b in blocks:
            for a, c in itertools.combinations(b, 2):
                if rnd.random() < 0.7:
                    es.append((a, c))
    else:                        # 'random', 'loops'
        p = rnd.choice([0.15, 0.3, 0.5, 0.8])
        for a, b in itertools.combinations(range(n), 2):
            if rnd.random() < p:
                es.append((a, b))
        if kind == 'loops':
            for a in range(n):
                if rnd.random() < 0.35:
                    es.append((a, a))
    es = [e if rnd.random() < 0.5 else (e[1], e[0]) for e in es]
    rnd.shuffle(es)
    return es


def sample_points(samples):
    """what NewmanZiff.__init__ makes of its samples argument (numpy's linspace/unique are trusted)"""
    if isinstance(samples, int):
        samples = numpy.linspace(0.0, 1.0, num=samples, endpoint=True)
    return [float(x) for x in sorted(numpy.unique(list(samples)))]


def first_reached(M, p):
    """least k in 0..M with k/M >= p, exactly; None if there is none"""
    fp = Fraction(p)
    for k in range(0, M + 1):
        if (Fraction(k, M) if M > 0 else Fraction(0)) >= fp:
            return k
    return None


def floats_agree(M, ps):
    """does the binary64 comparison (i+1)/M >= p agree with the exact one for every i and p?"""
    for p in ps:
        fp = Fraction(p)
        for k in range(1, M + 1):
            if ((k / M) >= p) != (Fraction(k, M) >= fp):
                return False
    return True


def components_of(nodes, edges):
    """connected components by breadth-first search: {node: frozenset(component)}"""
    adj = {n: set() for n in nodes}
    for a, b in edges:
        adj[a].add(b); adj[b].add(a)
    comp = {}
    for n in nodes:
        if n in comp:
            continue
        seen = {n}; frontier = [n]
        while frontier:
            nxt = []
            for x in frontier:
                for y in adj[x]:
                    if y not in seen:
                        seen.add(y); nxt.append(y)
            frontier = nxt
        fs = frozenset(seen)
        for x in seen:
            comp[x] = fs
    return comp


class H(Harness):
    ID = 'C13'
    ANCHOR_FILES = ['epydemic/newmanziff.py', 'epydemic/networkexperiment.py']
    TIE_IMPORT = 'From EpyV Require Import Model.NewmanZiff Tie.C13.'
    CHECK_FN = 'EpyV.Tie.C13.check_case'
    QUICK_N = 420
    THOROUGH_N = 5000
    ALLOWED_AXIOMS = set()
    RULE = ('bond and site percolation on networks of 1-10 nodes labelled 0..N-1 (complete/path/star/cycle/empty/several clumps/'
            'random/with self-loops, both edge orientations, shuffled insertion order); samples = a count 1-25 or an explicit list '
            '(dyadic values, j/M, j/M +- 2^-30, with and without 0 and 1, possibly more points than elements); a scripted shuffle; '
            'all permutations of the elements for small M (exhaustive part); cases on which the binary64 comparison (i+1)/M >= p '
            'differs from the exact one for some i, p are dropped and counted; a case is non-trivial when M >= 2, at least two '
            'samples are taken, one of them strictly inside the run; distinct by (kind, edges, points, permutation)')
    TRUSTED = ['Coq 8.16.1 kernel incl. vm_compute',
               'harness/c13.py and vlib (scripted shuffle, sample() override calling the public queries, copies of the working network)',
               'networkx Graph add_node/add_edge/neighbors/edges/nodes modelled as duplicate-free node and undirected edge lists',
               'numpy.linspace / numpy.unique / sorted in NewmanZiff.__init__ (the sample points are taken as given)']
    ASSUMPTIONS = ['numpy.random.shuffle produces a uniformly distributed permutation (the occupation order is the shuffled list)',
                   'the binary64 comparison (i+1)/M >= p equals the exact rational one on the generated inputs (checked per case; differing cases are excluded and counted)',
                   'N < 2^31 (int32 array) and Python recursion depth suffices for rootOf']

    # ---------------------------------------------------------------- generation
    def _mk(self, kind, n, es, samples, perm):
        return {'kind': kind, 'n': n, 'edges': [list(e) for e in es], 'samples': samples, 'perm': list(perm)}

    @staticmethod
    def _M(kind, n, es):
        return len(es) if kind == 'bond' else n

    def _points(self, rnd, M):
        t = rnd.randrange(8)
        if t <= 2:
            return rnd.randrange(1, 26)
        k = rnd.randrange(1, 9)
        pts = set()
        style = rnd.randrange(4)
        for _ in range(k):
            if style == 0 or M == 0:
                pts.add(rnd.randrange(0, 65) / 64.0)
            elif style == 1:
                pts.add(rnd.randrange(0, M + 1) / M)
            elif style == 2:
                pts.add(min(1.0, max(0.0, rnd.randrange(0, M + 1) / M + rnd.choice([-1, 1]) * 2.0 ** -30)))
            else:
                pts.add(rnd.randrange(0, 1 << 10) / float(1 << 10))
        ends = rnd.randrange(4)      # with / without 0 and 1
        pts.discard(0.0) if ends in (0, 1) else pts.add(0.0)
        pts.discard(1.0) if ends in (0, 2) else pts.add(1.0)
        if not pts:
            pts.add(0.5)
        pts = list(pts)
        rnd.shuffle(pts)             # the constructor sorts
        return pts

    def gen_cases(self, tier, rnd, n):
        out = []
        kinds = ['complete', 'path', 'star', 'cycle', 'empty', 'two', 'two', 'random', 'random', 'random', 'loops', 'loops']
        self.dropped = 0
        while len(out) < n:
            kind = rnd.choice(['bond', 'site'])
            nn = rnd.randrange(1, 11)
            es = make_edges(rnd, nn, rnd.choice(kinds))
            M = self._M(kind, nn, es)
            samples = self._points(rnd, M)
            if not floats_agree(M, sample_points(samples)):
                self.dropped += 1
                continue
            perm = list(range(M))
            rnd.shuffle(perm)
            out.append(self._mk(kind, nn, es, samples, perm))
        out[-1]['_dropped'] = self.dropped
        return out

    def exhaustive_cases(self, tier):
        out = []
        shapes = [(3, [(0, 1), (2, 1), (0, 2)]), (4, [(0, 1), (2, 3), (1, 1)]), (3, [(1, 2)]), (2, [])]
        if tier == 'thorough':
            shapes += [(4, [(0, 1), (1, 2), (3, 2), (0, 3)]), (5, [(0, 1), (3, 4), (1, 2), (4, 4)]), (4, [(0, 1), (0, 2), (0, 3), (1, 2)])]
        pointsets = [5, 9, [0.25, 0.5], [0.0, 0.5], [0.5, 1.0], 1, 2]
        maxM = 4 if tier == 'thorough' else 3
        for nn, es in shapes:
            for kind in ('bond', 'site'):
                M = self._M(kind, nn, es)
                if M > maxM:
                    continue
                for samples in pointsets:
                    if not floats_agree(M, sample_points(samples)):
                        continue
                    for perm in itertools.permutations(range(M)):
                        out.append(self._mk(kind, nn, es, samples, perm))
        return out

    # ---------------------------------------------------------------- running the implementation
    def execute(self, case):
        from epydemic import BondPercolation, SitePercolation
        n = case['n']
        g = networkx.Graph()
        g.add_nodes_from(range(n))
        g.add_edges_from([tuple(e) for e in case['edges']])
        proto_nodes = list(g.nodes()); proto_edges = list(g.edges())
        proto_adj = {u: list(g.neighbors(u)) for u in g.nodes()}
        rec = {'samples': [], 'events': [], 'arg': None, 'nodes0': None, 'edges0': None}
        base = BondPercolation if case['kind'] == 'bond' else SitePercolation

        class Rec(base):
            def simulationStarted(self, params):
                w = self.network()
                rec['nodes0'] = list(w.nodes()); rec['edges0'] = [tuple(e) for e in w.edges()]
                rec['adj0'] = [list(w.neighbors(u)) for u in range(n)]
                super().simulationStarted(params)

            def percolate(self, xs):
                rec['arg'] = [tuple(x) if isinstance(x, tuple) else int(x) for x in xs]
                super().percolate(xs)

            def eventFired(self, t, p, name, e):
                rec['events'].append((t, name, tuple(e) if isinstance(e, tuple) else int(e)))
                super().eventFired(t, p, name, e)

            def sample(self, p):
                raw = [int(x) for x in self._components]
                gcc = int(self.largestComponentSize())
                nc = int(self.components())
                sizes = [int(self.componentSize(u)) for u in range(n)]
                w = self.network()
                rec['samples'].append({'p': float(p), 'comp': raw, 'gcc': gcc, 'ncomp': nc, 'sizes': sizes,
                                       'wnodes': [int(u) for u in w.nodes()], 'wedges': [(int(a), int(b)) for a, b in w.edges()],
                                       'nocc': len(rec['events'])})
                return super().sample(p)

        samples = case['samples']
        e = Rec(g, samples=samples if isinstance(samples, int) else list(samples))
        orc = install(Oracle(seed=0, script={'shuffle': [case['perm']]}))
        exc = None
        series = None
        try:
            rc = e.run(fatal=True)
            res = rc['results']
            ps = res.get(base.P, []); gs = res.get(base.GCC, [])
            series = [(float(a), int(b)) for a, b in zip(ps, gs)] if len(ps) == len(gs) else None
            if set(res.keys()) - {base.P, base.GCC}:
                series = None
        except Exception as ex:      # observable behaviour (F5: IndexError)
            exc = type(ex).__name__ + ': ' + str(ex)
        taken = len(rec['samples'])
        stats = {'cases_' + case['kind']: 1, 'samples_taken': taken, 'occupations': len(rec['events']),
                 'cases_samples_given_as_count': int(isinstance(samples, int)),
                 'cases_more_points_than_elements': int(len(e._samplepoints) > self._M(case['kind'], n, case['edges'])),
                 'cases_without_0': int(len(e._samplepoints) > 0 and e._samplepoints[0] != 0.0),
                 'cases_without_1': int(len(e._samplepoints) > 0 and e._samplepoints[-1] != 1.0),
                 'cases_raised': int(exc is not None),
                 'generated_cases_dropped_float_boundary': case.get('_dropped', 0)}
        return {'stats': stats, 'exception': exc, 'points': [float(x) for x in e._samplepoints],
                'nodes0': rec['nodes0'], 'edges0': rec['edges0'], 'adj0': rec.get('adj0'), 'arg': rec['arg'],
                'samples': rec['samples'], 'events': rec['events'], 'series': series,
                'proto_same': (list(g.nodes()) == proto_nodes and list(g.edges()) == proto_edges
                               and {u: list(g.neighbors(u)) for u in g.nodes()} == proto_adj),
                'proto_edges': proto_edges,
                'shuffles': [list(s[1]) for s in orc.values('shuffle')]}

    # ---------------------------------------------------------------- D
    def direct(self, case, obs):
        v = []
        kind, n = case['kind'], case['n']
        es = [tuple(e) for e in case['edges']]
        M = self._M(kind, n, es)
        want = sample_points(case['samples'])
        if obs['exception']:
            return [{'signature': 'percolation-raised', 'detail': {'exception': obs['exception'], 'points': want, 'M': M,
                                                                  'samples_taken': [s['p'] for s in obs['samples']]}}]
        if not obs['proto_same']:
            v.append({'signature': 'prototype-modified', 'detail': None})
        # the occupation order is the shuffled element list
        base = [norm(e) for e in obs['proto_edges']] if kind == 'bond' else list(range(n))
        arg = obs['arg']
        if arg is None:
            return v + [{'signature': 'percolate-not-called', 'detail': None}]
        order = [norm(x) for x in arg] if kind == 'bond' else list(arg)
        pre = [norm(e) for e in obs['edges0']] if kind == 'bond' else list(obs['nodes0'])
        if not (len(obs['shuffles']) == 1 and obs['shuffles'][0] == case['perm'] and sorted(pre) == sorted(base)
                and order == [pre[i] for i in case['perm']]):
            v.append({'signature': 'order-not-the-shuffle', 'detail': {'arg': arg, 'before': pre, 'shuffles': obs['shuffles']}})
        evs = [norm(e[2]) if kind == 'bond' else e[2] for e in obs['events']]
        if evs != order[:len(evs)]:
            v.append({'signature': 'occupation-order', 'detail': {'events': evs, 'order': order}})
        # one sample per requested point, labelled with it, in order
        labels = [s['p'] for s in obs['samples']]
        if M >= 1 and all(0.0 <= p <= 1.0 for p in want):
            if labels != want:
                v.append({'signature': 'sample-points', 'detail': {'requested': want, 'sampled': labels, 'M': M}})
        elif labels != want[:len(labels)]:
            v.append({'signature': 'sample-points', 'detail': {'requested': want, 'sampled': labels, 'M': M}})
        # every sample: taken after the first k occupations with k/M >= p; true component structure
        proto_e = {norm(e) for e in obs['proto_edges']}
        for j, s in enumerate(obs['samples']):
            k = first_reached(M, s['p'])
            if k is None or s['nocc'] != k:
                v.append({'signature': 'sample-time', 'detail': {'sample': j, 'p': s['p'], 'occupied': s['nocc'], 'expected': k, 'M': M}})
                continue
            wn = list(s['wnodes']); we = [norm(e) for e in s['wedges']]
            if kind == 'bond':
                exp_n = set(range(n)); exp_e = set(order[:k])
            else:
                exp_n = set(order[:k]); exp_e = {e for e in proto_e if e[0] in exp_n and e[1] in exp_n}
            if set(wn) != exp_n or len(wn) != len(set(wn)) or set(we) != exp_e or len(we) != len(set(we)):
                v.append({'signature': 'working-network', 'detail': {'sample': j, 'p': s['p'], 'nodes': wn, 'edges': we,
                                                                     'expected_nodes': sorted(exp_n), 'expected_edges': sorted(exp_e)}})
                continue
            comp = components_of(wn, we)
            classes = set(comp.values())
            t_gcc = max([len(c) for c in classes], default=0)
            t_sizes = [len(comp[u]) if u in comp else 0 for u in range(n)]
            if s['gcc'] != t_gcc:
                v.append({'signature': 'largest-component', 'detail': {'sample': j, 'p': s['p'], 'reported': s['gcc'], 'true': t_gcc}})
            if s['ncomp'] != len(classes):
                v.append({'signature': 'number-of-components', 'detail': {'sample': j, 'p': s['p'], 'reported': s['ncomp'], 'true': len(classes)}})
            if s['sizes'] != t_sizes:
                v.append({'signature': 'component-size', 'detail': {'sample': j, 'p': s['p'], 'reported': s['sizes'], 'true': t_sizes}})
        # the results dict: one entry per sample, labelled, GCC as observed, non-decreasing
        ser = obs['series']
        if ser is None or [a for a, _ in ser] != labels or [b for _, b in ser] != [s['gcc'] for s in obs['samples']]:
            v.append({'signature': 'results-series', 'detail': {'series': ser, 'labels': labels}})
        elif any(ser[i][1] > ser[i + 1][1] for i in range(len(ser) - 1)):
            v.append({'signature': 'series-decreases', 'detail': ser})
        return v

    # ---------------------------------------------------------------- tie B
    def to_coq(self, case, obs):
        n = case['n']
        site = case['kind'] == 'site'
        pe = lambda e: '(%s, %s)' % (L.nat(e[0]), L.nat(e[1]))
        raised = bool(obs['exception']) or obs['arg'] is None or obs['nodes0'] is None
        ok_shuffle = len(obs.get('shuffles', [])) == 1 and obs['shuffles'][0] == case['perm']
        if raised or not ok_shuffle:
            # the model never raises and always uses the scripted shuffle once: an observation that cannot match
            return ('{| c_site := %s; c_nodes := []; c_edges := []; c_adj := []; c_perm := []; c_ps := []; o_raised := true; '
                    'o_arg_edges := []; o_arg_nodes := []; o_samples := []; o_series := []; o_ev_edges := []; o_ev_nodes := [] |}') % L.b(site)

        def smp(s):
            return ('{| o_p := %s; o_comp := %s; o_gcc := %s; o_ncomp := %s; o_sizes := %s; o_wnodes := %s; o_wedges := %s |}'
                    % (L.q(s['p']), L.lst(s['comp'], L.z), L.z(s['gcc']), L.z(s['ncomp']), L.lst(s['sizes'], L.z),
                       L.lst(s['wnodes'], L.nat), L.lst(s['wedges'], pe)))
        series = obs['series'] if obs['series'] is not None else [(-1.0, -1)]
        evs = [e[2] for e in obs['events']]
        return ('{| c_site := %s; c_nodes := %s; c_edges := %s; c_adj := %s; c_perm := %s; c_ps := %s; o_raised := false; '
                'o_arg_edges := %s; o_arg_nodes := %s; o_samples := %s; o_series := %s; o_ev_edges := %s; o_ev_nodes := %s |}') % (
            L.b(site), L.lst(obs['nodes0'], L.nat), L.lst(obs['edges0'], pe),
            L.lst([L.lst(a, L.nat) for a in obs['adj0']]), L.lst(case['perm'], L.nat),
            L.lst(sample_points(case['samples']), L.q),
            L.lst([] if site else obs['arg'], pe), L.lst(obs['arg'] if site else [], L.nat),
            L.lst([smp(s) for s in obs['samples']]),
            L.lst(['(%s, %s)' % (L.q(a), L.z(b)) for a, b in series]),
            L.lst([] if site else evs, pe), L.lst(evs if site else [], L.nat))

    def nontrivial(self, case, obs):
        M = self._M(case['kind'], case['n'], case['edges'])
        ss = obs.get('samples') or []
        if M >= 2 and len(ss) >= 2 and any(0 < s['nocc'] < M for s in ss):
            return (case['kind'], tuple(map(tuple, case['edges'])), tuple(sample_points(case['samples'])), tuple(case['perm']))
        return None

    def sample_view(self, case, obs):
        return {'case': case, 'points': obs.get('points'), 'exception': obs.get('exception'),
                'samples': [{k: s[k] for k in ('p', 'nocc', 'gcc', 'ncomp', 'sizes')} for s in (obs.get('samples') or [])][:6],
                'dropped_float_boundary_cases': getattr(self, 'dropped', None)}
