"""C13: Newman-Ziff percolation reports true component sizes at every sample.
Tie B: run BondPercolation / SitePercolation with a scripted shuffle and a sample() override that
records the raw component array, largestComponentSize(), components(), componentSize(n) for all n
and a copy of the working network; compare with Model/NewmanZiff.v.
D: the property restated directly on those observables (BFS on the recorded working network,
one sample per requested point, taken after the first k occupations with k/M >= p, ...).
A case is a history of 1-3 runs of ONE experiment object; between runs the prototype network may be
edited in place (edge/node added, edge removed) or replaced (setNetworkGenerator); tie and D are applied
to every run against the network as it is at that run.
The nodes are LABELLED 0..N-1; in about 30% of the networks they are not INSERTED in that order (shuffled
insertion order, or the graph is built from its edge list and the isolated nodes are added afterwards), so
that a node's label and its position in g.nodes() differ."""
import itertools
import json
import math
from fractions import Fraction

import networkx
import numpy

from vlib import coqlit as L
from vlib.core import Harness
from vlib.oracle import Oracle, install


def norm(e):
    a, b = e
    return (a, b) if a <= b else (b, a)


def make_edges(rnd, n, kind):
    """edge list (with orientation and insertion order) of a network on nodes 0..n-1"""
    es = []
    if kind == 'complete':
        es = list(itertools.combinations(range(n), 2))
    elif kind == 'path':
        es = [(i, i + 1) for i in range(n - 1)]
    elif kind == 'star':
        es = [(0, i) for i in range(1, n)]
    elif kind == 'cycle':
        es = [(i, (i + 1) % n) for i in range(n)] if n >= 3 else [(i, i + 1) for i in range(n - 1)]
    elif kind == 'empty':
        es = []
    elif kind == 'two':          # two or three separate clumps
        cut = sorted(rnd.sample(range(1, n), min(n - 1, rnd.choice([1, 2])))) if n >= 2 else []
        blocks, lo = [], 0
        for c in cut + [n]:
            blocks.append(list(range(lo, c))); lo = c
        for b in blocks:
            for a, c in itertools.combinations(b, 2):
                if rnd.random() < 0.7:
                    es.append((a, c))
    else:                        # 'random', 'loops'
        p = rnd.choice([0.15, 0.3, 0.5, 0.8])
        for a, b in itertools.combinations(range(n), 2):
            if rnd.random() < p:
                es.append((a, b))
        if kind == 'loops':
            for a in range(n):
                if rnd.random() < 0.35:
                    es.append((a, a))
    es = [e if rnd.random() < 0.5 else (e[1], e[0]) for e in es]
    rnd.shuffle(es)
    return es


def node_order(rnd, n, es):
    """how the nodes 0..n-1 get into the graph: None (in label order), an explicit insertion order, or
    'edges' (networkx.Graph(edge list), the nodes the edges do not mention added afterwards)"""
    t = rnd.randrange(10)
    if t < 7 or n < 2:
        return None
    if t == 9:
        return 'edges'
    order = list(range(n))
    while order == list(range(n)):
        rnd.shuffle(order)
    return order


def build_graph(n, edges, order):
    edges = [tuple(e) for e in edges]
    if order == 'edges':
        g = networkx.Graph(edges)
        g.add_nodes_from(range(n))
        return g
    g = networkx.Graph()
    g.add_nodes_from(order if order else range(n))
    g.add_edges_from(edges)
    return g


def sample_points(samples):
    """what NewmanZiff.__init__ makes of its samples argument (numpy's linspace/unique are trusted)"""
    if isinstance(samples, int):
        samples = numpy.linspace(0.0, 1.0, num=samples, endpoint=True)
    return [float(x) for x in sorted(numpy.unique(list(samples)))]


def first_reached(M, p):
    """least k in 0..M with k/M >= p, exactly; None if there is none"""
    fp = Fraction(p)
    for k in range(0, M + 1):
        if (Fraction(k, M) if M > 0 else Fraction(0)) >= fp:
            return k
    return None


def floats_agree(M, ps):
    """does the binary64 comparison (i+1)/M >= p agree with the exact one for every i and p?"""
    for p in ps:
        fp = Fraction(p)
        for k in range(1, M + 1):
            if ((k / M) >= p) != (Fraction(k, M) >= fp):
                return False
    return True


def components_of(nodes, edges):
    """connected components by breadth-first search: {node: frozenset(component)}"""
    adj = {n: set() for n in nodes}
    for a, b in edges:
        adj[a].add(b); adj[b].add(a)
    comp = {}
    for n in nodes:
        if n in comp:
            continue
        seen = {n}; frontier = [n]
        while frontier:
            nxt = []
            for x in frontier:
                for y in adj[x]:
                    if y not in seen:
                        seen.add(y); nxt.append(y)
            frontier = nxt
        fs = frozenset(seen)
        for x in seen:
            comp[x] = fs
    return comp


class H(Harness):
    ID = 'C13'
    ANCHOR_FILES = ['epydemic/newmanziff.py', 'epydemic/networkexperiment.py']
    TIE_IMPORT = 'From EpyV Require Import Model.NewmanZiff Tie.C13.'
    CHECK_FN = 'EpyV.Tie.C13.check_case'
    QUICK_N = 420
    THOROUGH_N = 5000
    ALLOWED_AXIOMS = set()
    RULE = ('bond and site percolation on networks of 1-10 nodes labelled 0..N-1 (complete/path/star/cycle/empty/several clumps/'
            'random/with self-loops, both edge orientations, shuffled insertion order of the edges; in 30% of the networks the nodes are '
            'inserted in a shuffled order or the graph is built from its edge list with the isolated nodes added afterwards, so that '
            'label and position in g.nodes() differ) and rings with M = 6, 12, 24 elements; '
            'samples = a count 1-25 (often) or 26-101 (linspace points as users pass them) or omitted (the default of 100 points) or an '
            'explicit list, tuple or numpy array (dyadic values, j/M, '
            'j/M +- 2^-30, the binary64 neighbours of j/M (nextafter up/down), with and without 0 and 1, possibly more points than '
            'elements); a scripted shuffle per run; histories of 1-3 runs of one experiment object with in-place edits of the '
            'prototype (edge added/removed, node added) or setNetworkGenerator(other graph) between runs; all permutations of the '
            'elements for small M (exhaustive part); a fixed list of linspace counts x highly divisible M; cases on which the '
            'binary64 comparison (i+1)/M >= p differs from the exact one for some i, p (in any run) are dropped and counted; a case '
            'is non-trivial when some run has M >= 2, at least two samples, one of them strictly inside the run; distinct by '
            '(kind, edges, points, history)')
    TRUSTED = ['Coq 8.16.1 kernel incl. vm_compute',
               'harness/c13.py and vlib (scripted shuffle, sample() override calling the public queries, copies of the working network)',
               'networkx Graph add_node/add_edge/neighbors/edges/nodes modelled as duplicate-free node and undirected edge lists',
               'numpy.linspace / numpy.unique / sorted in NewmanZiff.__init__ (the sample points are taken as given)']
    ASSUMPTIONS = ['numpy.random.shuffle produces a uniformly distributed permutation (the occupation order is the shuffled list)',
                   'the binary64 comparison (i+1)/M >= p equals the exact rational one on the generated inputs (checked per case; differing cases are excluded and counted)',
                   'N < 2^31 (int32 array) and Python recursion depth suffices for rootOf']

    # ---------------------------------------------------------------- generation
    def _mk(self, kind, n, es, samples, perm, order=None, samples_as=None):
        """single-run case (also the format of older corpus files)"""
        c = {'kind': kind, 'n': n, 'edges': [list(e) for e in es], 'samples': samples, 'perm': list(perm)}
        if order:
            c['order'] = order
        if samples_as:
            c['samples_as'] = samples_as
        return c

    @staticmethod
    def _samples_as(rnd, samples):
        """how the sample points are handed to the constructor: as they are, as a tuple, as a numpy array"""
        if isinstance(samples, list) and rnd.randrange(3) == 0:
            return rnd.choice(['tuple', 'array'])
        return None

    @staticmethod
    def _runs(case):
        return case['runs'] if 'runs' in case else [{'edit': None, 'perm': case['perm']}]

    @staticmethod
    def _M(kind, n, es):
        return len(es) if kind == 'bond' else n

    def _points(self, rnd, M, big=True):
        t = rnd.randrange(20)
        if t <= 6 or (t == 7 and not big):     # (many samples x several runs make the Coq literal of a case large)
            return rnd.randrange(1, 26)
        if t == 7:
            return rnd.randrange(26, 102)
        k = rnd.randrange(1, 9)
        pts = set()
        style = rnd.randrange(6)
        for _ in range(k):
            if style == 0 or M == 0:
                pts.add(rnd.randrange(0, 65) / 64.0)
            elif style == 1:
                pts.add(rnd.randrange(0, M + 1) / M)
            elif style == 2:
                pts.add(min(1.0, max(0.0, rnd.randrange(0, M + 1) / M + rnd.choice([-1, 1]) * 2.0 ** -30)))
            elif style in (3, 4):    # the binary64 neighbours of j/M
                pts.add(min(1.0, max(0.0, math.nextafter(rnd.randrange(0, M + 1) / M, rnd.choice([-math.inf, math.inf])))))
            else:
                pts.add(rnd.randrange(0, 1 << 10) / float(1 << 10))
        ends = rnd.randrange(4)      # with / without 0 and 1
        pts.discard(0.0) if ends in (0, 1) else pts.add(0.0)
        pts.discard(1.0) if ends in (0, 2) else pts.add(1.0)
        if not pts:
            pts.add(0.5)
        pts = list(pts)
        rnd.shuffle(pts)             # the constructor sorts
        return pts

    GRAPH_KINDS = ['complete', 'path', 'star', 'cycle', 'empty', 'two', 'two', 'random', 'random', 'random', 'loops', 'loops']

    def _gen_single(self, rnd):
        kind = rnd.choice(['bond', 'site'])
        if rnd.randrange(8) == 0:        # rings with a highly divisible number of elements
            nn = rnd.choice([6, 12, 12, 24])
            es = make_edges(rnd, nn, 'cycle')
        else:
            nn = rnd.randrange(1, 11)
            es = make_edges(rnd, nn, rnd.choice(self.GRAPH_KINDS))
        M = self._M(kind, nn, es)
        samples = self._points(rnd, M, nn <= 12)
        samples_as = self._samples_as(rnd, samples)
        if nn <= 12 and rnd.randrange(40) == 0:
            samples, samples_as = 100, 'none'       # the constructor's default: samples is not passed
        if not floats_agree(M, sample_points(samples)):
            return None
        perm = list(range(M))
        rnd.shuffle(perm)
        return self._mk(kind, nn, es, samples, perm, node_order(rnd, nn, es), samples_as)

    def _gen_history(self, rnd):
        """2-3 runs of one experiment object, the prototype edited or replaced between them"""
        kind = rnd.choice(['bond', 'site', 'site'])
        n = rnd.randrange(2, 9)
        es = make_edges(rnd, n, rnd.choice(self.GRAPH_KINDS))
        samples = self._points(rnd, self._M(kind, n, es), False)
        samples_as = self._samples_as(rnd, samples)
        order = node_order(rnd, n, es)
        pts = sample_points(samples)
        cur_n, cur = n, [tuple(e) for e in es]
        runs = []
        for r in range(rnd.choice([2, 2, 3])):
            edit = None
            if r > 0:
                op = rnd.choice(['add_edge', 'add_edge', 'add_edge', 'remove_edge', 'remove_edge', 'add_node', 'setgen', 'none'])
                have = {norm(e) for e in cur}
                if op == 'add_edge':
                    free = [(a, b) for a in range(cur_n) for b in range(a + 1, cur_n) if (a, b) not in have]
                    if free:
                        a, b = rnd.choice(free)
                        e = (a, b) if rnd.random() < 0.5 else (b, a)
                        cur.append(e); edit = {'op': 'add_edge', 'e': list(e)}
                elif op == 'remove_edge':
                    if cur:
                        e = cur.pop(rnd.randrange(len(cur))); edit = {'op': 'remove_edge', 'e': list(e)}
                elif op == 'add_node':
                    nbrs = sorted(rnd.sample(range(cur_n), rnd.randrange(0, min(cur_n, 2) + 1)))
                    edit = {'op': 'add_node', 'node': cur_n, 'nbrs': nbrs}
                    cur += [(cur_n, b) for b in nbrs]; cur_n += 1
                elif op == 'setgen':
                    cur_n = rnd.randrange(1, 9)
                    cur = [tuple(e) for e in make_edges(rnd, cur_n, rnd.choice(self.GRAPH_KINDS))]
                    edit = {'op': 'setgen', 'n': cur_n, 'edges': [list(e) for e in cur]}
                    o2 = node_order(rnd, cur_n, cur)
                    if o2:
                        edit['order'] = o2
            M = self._M(kind, cur_n, cur)
            if not floats_agree(M, pts):
                return None
            perm = list(range(M))
            rnd.shuffle(perm)
            runs.append({'edit': edit, 'perm': perm})
        c = {'kind': kind, 'n': n, 'edges': [list(e) for e in es], 'samples': samples, 'runs': runs}
        if order:
            c['order'] = order
        if samples_as:
            c['samples_as'] = samples_as
        return c

    def gen_cases(self, tier, rnd, n):
        out = []
        self.dropped = 0
        while len(out) < n:
            c = self._gen_history(rnd) if rnd.randrange(4) == 0 else self._gen_single(rnd)
            if c is None:
                self.dropped += 1
                continue
            out.append(c)
        # the driver cuts the case list into files of 300: spread the cases with long literals over the files
        heavy = [c for c in out if isinstance(c['samples'], int) and c['samples'] > 25]
        light = [c for c in out if not (isinstance(c['samples'], int) and c['samples'] > 25)]
        third = (len(heavy) + 2) // 3
        cut = max(0, min(len(light), 300 - 250))
        out = heavy[:third] + light[:cut] + heavy[third:2 * third] + light[cut:] + heavy[2 * third:]
        out[-1]['_dropped'] = self.dropped
        return out

    def exhaustive_cases(self, tier):
        out = []
        shapes = [(3, [(0, 1), (2, 1), (0, 2)]), (4, [(0, 1), (2, 3), (1, 1)]), (3, [(1, 2)]), (2, [])]
        if tier == 'thorough':
            shapes += [(4, [(0, 1), (1, 2), (3, 2), (0, 3)]), (5, [(0, 1), (3, 4), (1, 2), (4, 4)]), (4, [(0, 1), (0, 2), (0, 3), (1, 2)])]
        pointsets = [5, 9, [0.25, 0.5], [0.0, 0.5], [0.5, 1.0], 1, 2]
        maxM = 4 if tier == 'thorough' else 3
        for nn, es in shapes:
            for kind in ('bond', 'site'):
                M = self._M(kind, nn, es)
                if M > maxM:
                    continue
                for samples in pointsets:
                    if not floats_agree(M, sample_points(samples)):
                        continue
                    for perm in itertools.permutations(range(M)):
                        out.append(self._mk(kind, nn, es, samples, perm))
        # label and position in g.nodes() differ: all occupation orders of a path 1 - 0 - 2 inserted as 2, 0, 1 and of the
        # path 3 - 1 - 0 - 2 built from its edge list (insertion order 3, 1, 0, 2)
        for nn, es, order in [(3, [(2, 0), (0, 1)], [2, 0, 1]), (4, [(3, 1), (1, 0), (0, 2)], 'edges')]:
            for kind in ('bond', 'site'):
                M = self._M(kind, nn, es)
                for samples in ([5, [0.25, 0.5]] if nn > 3 else [5, [0.25, 0.5], [0.0, 0.5], 2]):
                    if not floats_agree(M, sample_points(samples)):
                        continue
                    for perm in itertools.permutations(range(M)):
                        out.append(self._mk(kind, nn, es, samples, perm, order, 'tuple' if samples == [0.25, 0.5] else None))
        # the constructor's default (samples not passed: 100 points) on rings
        for M in (6, 12):
            if floats_agree(M, sample_points(100)):
                ring = [(i, (i + 1) % M) for i in range(M)]
                for kind in ('bond', 'site'):
                    out.append(self._mk(kind, M, ring, 100, [(5 * i + 2) % M for i in range(M)], None, 'none'))
        # linspace sample counts x rings with a highly divisible number of elements: the requested points
        # include binary64 neighbours of j/M (e.g. 11/33 computed by linspace lies one ulp above 1/3)
        hot = [34, 46, 67, 76, 91, 94]
        pairs = [(c, M) for c in hot[:3] for M in (6, 12)] if tier == 'quick' else \
            [(c, 12) for c in range(26, 102)] + [(c, M) for c in hot for M in (3, 6, 24)]
        for cnt, M in pairs:
            if True:
                if not floats_agree(M, sample_points(cnt)):
                    continue
                ring = [(i, (i + 1) % M) for i in range(M)]
                for kind in ('bond', 'site'):
                    perm = [(7 * i + 3) % M for i in range(M)] if math.gcd(7, M) == 1 else list(range(M))[::-1]
                    out.append(self._mk(kind, M, ring, cnt, perm))
        return out

    # ---------------------------------------------------------------- running the implementation
    def execute(self, case):
        from epydemic import BondPercolation, SitePercolation
        kind = case['kind']
        g = build_graph(case['n'], case['edges'], case.get('order'))
        rec = {}
        base = BondPercolation if kind == 'bond' else SitePercolation

        class Rec(base):
            def simulationStarted(self, params):
                w = self.network()
                rec['n'] = w.order()
                rec['nodes0'] = list(w.nodes()); rec['edges0'] = [tuple(e) for e in w.edges()]
                rec['adj0'] = [list(w.neighbors(u)) if u in w else None for u in range(w.order())]
                super().simulationStarted(params)

            def percolate(self, xs):
                rec['arg'] = [tuple(x) if isinstance(x, tuple) else int(x) for x in xs]
                super().percolate(xs)

            def eventFired(self, t, p, name, e):
                rec['events'].append((t, name, tuple(e) if isinstance(e, tuple) else int(e)))
                super().eventFired(t, p, name, e)

            def sample(self, p):
                raw = [int(x) for x in self._components]
                gcc = int(self.largestComponentSize())
                nc = int(self.components())
                sizes = [int(self.componentSize(u)) for u in range(rec['n'])]
                w = self.network()
                rec['samples'].append({'p': float(p), 'comp': raw, 'gcc': gcc, 'ncomp': nc, 'sizes': sizes,
                                       'wnodes': [int(u) for u in w.nodes()], 'wedges': [(int(a), int(b)) for a, b in w.edges()],
                                       'nocc': len(rec['events'])})
                return super().sample(p)

        samples = case['samples']
        sa = case.get('samples_as')
        if sa == 'none':                 # the default of the constructor (the case records it as the count 100)
            e = Rec(g)
        elif sa == 'tuple':
            e = Rec(g, samples=tuple(samples))
        elif sa == 'array':
            e = Rec(g, samples=numpy.array(samples, dtype=float))
        else:
            e = Rec(g, samples=samples if isinstance(samples, int) else list(samples))
        points = [float(x) for x in e._samplepoints]
        robs = []
        stats = {'cases_' + kind: 1, 'cases_with_several_runs': int(len(self._runs(case)) > 1),
                 'cases_samples_given_as_count': int(isinstance(samples, int)),
                 'cases_count_above_25': int(isinstance(samples, int) and samples > 25),
                 'cases_samples_not_passed_default_100': int(sa == 'none'), 'cases_samples_given_as_tuple': int(sa == 'tuple'),
                 'cases_samples_given_as_numpy_array': int(sa == 'array'), 'runs_nodes_not_inserted_in_label_order': 0,
                 'cases_without_0': int(len(points) > 0 and points[0] != 0.0),
                 'cases_without_1': int(len(points) > 0 and points[-1] != 1.0),
                 'generated_cases_dropped_float_boundary': case.get('_dropped', 0),
                 'runs': 0, 'samples_taken': 0, 'occupations': 0, 'runs_raised': 0, 'runs_more_points_than_elements': 0,
                 'runs_after_inplace_edit': 0, 'runs_after_setNetworkGenerator': 0}
        kept = []
        for run in self._runs(case):
            ed = run.get('edit')
            if ed:
                if ed['op'] == 'add_edge':
                    g.add_edge(*ed['e'])
                elif ed['op'] == 'remove_edge':
                    g.remove_edge(*ed['e'])
                elif ed['op'] == 'add_node':
                    g.add_node(ed['node'])
                    for b in ed['nbrs']:
                        g.add_edge(ed['node'], b)
                elif ed['op'] == 'setgen':
                    g = build_graph(ed['n'], ed['edges'], ed.get('order'))
                    e.setNetworkGenerator(g)
                stats['runs_after_setNetworkGenerator' if ed['op'] == 'setgen' else 'runs_after_inplace_edit'] += 1
            n = g.order()
            proto_nodes = list(g.nodes()); proto_edges = list(g.edges())
            proto_adj = {u: list(g.neighbors(u)) for u in g.nodes()}
            rec.clear()
            rec.update({'samples': [], 'events': [], 'arg': None, 'nodes0': None, 'edges0': None, 'adj0': None, 'n': n})
            orc = install(Oracle(seed=0, script={'shuffle': [run['perm']]}))
            exc = None
            series = None
            res = None
            try:
                rc = e.run(fatal=True)
                res = rc['results']
                ps = res.get(base.P, []); gs = res.get(base.GCC, [])
                series = [(float(a), int(b)) for a, b in zip(ps, gs)] if len(ps) == len(gs) else None
                if set(res.keys()) - {base.P, base.GCC}:
                    series = None
            except Exception as ex:      # observable behaviour (F5: IndexError)
                exc = type(ex).__name__ + ': ' + str(ex)
            M = self._M(kind, n, proto_edges)
            stats['runs'] += 1; stats['samples_taken'] += len(rec['samples']); stats['occupations'] += len(rec['events'])
            stats['runs_raised'] += int(exc is not None); stats['runs_more_points_than_elements'] += int(len(points) > M)
            stats['runs_nodes_not_inserted_in_label_order'] += int(proto_nodes != sorted(proto_nodes))
            robs.append({'exception': exc, 'n': n, 'perm': list(run['perm']),
                         'nodes0': rec['nodes0'], 'edges0': rec['edges0'], 'adj0': rec['adj0'], 'arg': rec['arg'],
                         'samples': rec['samples'], 'events': rec['events'], 'series': series,
                         'proto_same': (list(g.nodes()) == proto_nodes and list(g.edges()) == proto_edges
                                        and {u: list(g.neighbors(u)) for u in g.nodes()} == proto_adj),
                         'proto_nodes': proto_nodes, 'proto_edges': proto_edges,
                         'proto_adj': [sorted(proto_adj[u]) if u in proto_adj else None for u in range(n)],    # keyed by LABEL, as adj0
                         'shuffles': [list(s[1]) for s in orc.values('shuffle')]})
            kept.append(res)
            if exc is not None:
                break
        # the results handed out by every run, read again after ALL runs are over: a later run must not reach into them
        for ro, res in zip(robs, kept):
            later = None
            if res is not None:
                ps = res.get(base.P, []); gs = res.get(base.GCC, [])
                later = [(float(a), int(b)) for a, b in zip(ps, gs)] if len(ps) == len(gs) and not (set(res.keys()) - {base.P, base.GCC}) else None
            ro['series_after_all_runs'] = later
        return {'stats': stats, 'points': points, 'runs': robs}

    # ---------------------------------------------------------------- D
    def direct(self, case, obs):
        out = []
        want = sample_points(case['samples'])
        for r, ro in enumerate(obs['runs']):
            for v in self._direct_run(case['kind'], want, ro):
                v['detail'] = {'run': r, 'edits_before': [x.get('edit') for x in self._runs(case)[:r + 1]], 'what': v.get('detail')}
                out.append(v)
        return out

    def _direct_run(self, kind, want, obs):
        """the property on one run, against the prototype network as it is at that run"""
        v = []
        n = obs['n']
        M = self._M(kind, n, obs['proto_edges'])
        if obs['exception']:
            return [{'signature': 'percolation-raised', 'detail': {'exception': obs['exception'], 'points': want, 'M': M,
                                                                  'samples_taken': [s['p'] for s in obs['samples']]}}]
        if not obs['proto_same']:
            v.append({'signature': 'prototype-modified', 'detail': None})
        if 'series_after_all_runs' in obs and obs['series_after_all_runs'] != obs['series']:
            v.append({'signature': 'results-of-a-run-changed-by-a-later-run', 'detail': {'when_returned': obs['series'], 'after_all_runs': obs['series_after_all_runs']}})
        if sorted(obs['proto_nodes']) != list(range(n)):
            return v          # outside the quantifier of the property (nodes labelled 0..N-1, inserted in any order)
        # the working copy is a copy of the prototype as it is now; the occupation order is its shuffled element list
        proto_e = {norm(e) for e in obs['proto_edges']}
        base = sorted(proto_e) if kind == 'bond' else list(range(n))
        arg = obs['arg']
        if arg is None or obs['nodes0'] is None:
            return v + [{'signature': 'percolate-not-called', 'detail': None}]
        if sorted(obs['nodes0']) != list(range(n)) or sorted(norm(e) for e in obs['edges0']) != sorted(proto_e) \
                or len(obs['edges0']) != len(proto_e) or [sorted(a) if a is not None else None for a in obs['adj0']] != obs['proto_adj']:
            v.append({'signature': 'working-copy-not-the-network', 'detail': {'nodes': obs['nodes0'], 'edges': obs['edges0']}})
        order = [norm(x) for x in arg] if kind == 'bond' else list(arg)
        pre = [norm(e) for e in obs['edges0']] if kind == 'bond' else list(obs['nodes0'])
        if not (len(obs['shuffles']) == 1 and obs['shuffles'][0] == obs['perm'] and sorted(pre) == sorted(base)
                and order == [pre[i] for i in obs['perm']]):
            v.append({'signature': 'order-not-the-shuffle', 'detail': {'arg': arg, 'before': pre, 'shuffles': obs['shuffles']}})
        evs = [norm(e[2]) if kind == 'bond' else e[2] for e in obs['events']]
        if evs != order[:len(evs)]:
            v.append({'signature': 'occupation-order', 'detail': {'events': evs, 'order': order}})
        # one sample per requested point, labelled with it, in order
        labels = [s['p'] for s in obs['samples']]
        if M >= 1 and all(0.0 <= p <= 1.0 for p in want):
            if labels != want:
                v.append({'signature': 'sample-points', 'detail': {'requested': want, 'sampled': labels, 'M': M}})
        elif labels != want[:len(labels)]:
            v.append({'signature': 'sample-points', 'detail': {'requested': want, 'sampled': labels, 'M': M}})
        # every sample: taken after the first k occupations with k/M >= p (exact arithmetic); true component structure
        for j, s in enumerate(obs['samples']):
            k = first_reached(M, s['p'])
            if k is None or s['nocc'] != k:
                v.append({'signature': 'sample-time', 'detail': {'sample': j, 'p': s['p'], 'occupied': s['nocc'], 'expected': k, 'M': M}})
                continue
            wn = list(s['wnodes']); we = [norm(e) for e in s['wedges']]
            if kind == 'bond':
                exp_n = set(range(n)); exp_e = set(order[:k])
            else:
                exp_n = set(order[:k]); exp_e = {e for e in proto_e if e[0] in exp_n and e[1] in exp_n}
            if set(wn) != exp_n or len(wn) != len(set(wn)) or set(we) != exp_e or len(we) != len(set(we)):
                v.append({'signature': 'working-network', 'detail': {'sample': j, 'p': s['p'], 'nodes': wn, 'edges': we,
                                                                     'expected_nodes': sorted(exp_n), 'expected_edges': sorted(exp_e)}})
                continue
            comp = components_of(wn, we)
            classes = set(comp.values())
            t_gcc = max([len(c) for c in classes], default=0)
            t_sizes = [len(comp[u]) if u in comp else 0 for u in range(n)]
            if s['gcc'] != t_gcc:
                v.append({'signature': 'largest-component', 'detail': {'sample': j, 'p': s['p'], 'reported': s['gcc'], 'true': t_gcc}})
            if s['ncomp'] != len(classes):
                v.append({'signature': 'number-of-components', 'detail': {'sample': j, 'p': s['p'], 'reported': s['ncomp'], 'true': len(classes)}})
            if s['sizes'] != t_sizes:
                v.append({'signature': 'component-size', 'detail': {'sample': j, 'p': s['p'], 'reported': s['sizes'], 'true': t_sizes}})
        # the results dict: one entry per sample, labelled, GCC as observed, non-decreasing
        ser = obs['series']
        if ser is None or [a for a, _ in ser] != labels or [b for _, b in ser] != [s['gcc'] for s in obs['samples']]:
            v.append({'signature': 'results-series', 'detail': {'series': ser, 'labels': labels}})
        elif any(ser[i][1] > ser[i + 1][1] for i in range(len(ser) - 1)):
            v.append({'signature': 'series-decreases', 'detail': ser})
        return v

    # ---------------------------------------------------------------- tie B
    def to_coq(self, case, obs):
        site = case['kind'] == 'site'
        pts = sample_points(case['samples'])
        return L.lst([self._run_to_coq(site, pts, ro) for ro in obs['runs']])

    def _run_to_coq(self, site, pts, obs):
        pe = lambda e: '(%s, %s)' % (L.nat(e[0]), L.nat(e[1]))
        raised = bool(obs['exception']) or obs['arg'] is None or obs['nodes0'] is None
        ok_shuffle = len(obs.get('shuffles', [])) == 1 and obs['shuffles'][0] == obs['perm']
        # the model is run on the prototype as the harness knows it at this run (node order, g.edges() order and
        # neighbour order of a networkx copy are those of the original).  The nodes are labelled 0..N-1 but need not
        # be inserted in that order: c_nodes carries the insertion order, c_adj and the component array are keyed by
        # label (the guard nodes_ok of the theorems, In n nodes <-> n < length nodes, is about labels only)
        same_copy = (not raised and obs['nodes0'] == obs['proto_nodes']
                     and sorted(norm(e) for e in obs['edges0']) == sorted(norm(e) for e in obs['proto_edges'])
                     and [sorted(a) if a is not None else None for a in obs['adj0']] == obs['proto_adj'])
        if raised or not ok_shuffle or not same_copy or sorted(obs['proto_nodes']) != list(range(obs['n'])):
            # the model never raises, always uses the scripted shuffle once and works on a copy of the current
            # prototype: an observation that cannot match
            return ('{| c_site := %s; c_nodes := []; c_edges := []; c_adj := []; c_perm := []; c_ps := []; o_raised := true; '
                    'o_arg_edges := []; o_arg_nodes := []; o_samples := []; o_series := []; o_ev_edges := []; o_ev_nodes := [] |}') % L.b(site)

        def smp(s):
            return ('{| o_p := %s; o_comp := %s; o_gcc := %s; o_ncomp := %s; o_sizes := %s; o_wnodes := %s; o_wedges := %s |}'
                    % (L.q(s['p']), L.lst(s['comp'], L.z), L.z(s['gcc']), L.z(s['ncomp']), L.lst(s['sizes'], L.z),
                       L.lst(s['wnodes'], L.nat), L.lst(s['wedges'], pe)))
        series = obs['series'] if obs['series'] is not None else [(-1.0, -1)]
        evs = [e[2] for e in obs['events']]
        return ('{| c_site := %s; c_nodes := %s; c_edges := %s; c_adj := %s; c_perm := %s; c_ps := %s; o_raised := false; '
                'o_arg_edges := %s; o_arg_nodes := %s; o_samples := %s; o_series := %s; o_ev_edges := %s; o_ev_nodes := %s |}') % (
            L.b(site), L.lst(obs['nodes0'], L.nat), L.lst(obs['edges0'], pe),
            L.lst([L.lst(a, L.nat) for a in obs['adj0']]), L.lst(obs['perm'], L.nat),
            L.lst(pts, L.q),
            L.lst([] if site else obs['arg'], pe), L.lst(obs['arg'] if site else [], L.nat),
            L.lst([smp(s) for s in obs['samples']]),
            L.lst(['(%s, %s)' % (L.q(a), L.z(b)) for a, b in series]),
            L.lst([] if site else evs, pe), L.lst(evs if site else [], L.nat))

    def nontrivial(self, case, obs):
        for ro in obs.get('runs') or []:
            M = self._M(case['kind'], ro['n'], ro['proto_edges'])
            ss = ro.get('samples') or []
            if M >= 2 and len(ss) >= 2 and any(0 < s['nocc'] < M for s in ss):
                return (case['kind'], tuple(map(tuple, case['edges'])), tuple(sample_points(case['samples'])),
                        json.dumps(self._runs(case), sort_keys=True))
        return None

    def sample_view(self, case, obs):
        runs = obs.get('runs') or []
        return {'case': case, 'points': obs.get('points'),
                'runs': [{'exception': ro.get('exception'), 'n': ro.get('n'),
                          'samples': [{k: s[k] for k in ('p', 'nocc', 'gcc', 'ncomp', 'sizes')} for s in (ro.get('samples') or [])][:6]}
                         for ro in runs],
                'dropped_float_boundary_cases': getattr(self, 'dropped', None)}
