"""C01: loci always equal the sets they are declared to track.

Tie A: the loci specs (class, _compartment / _left / _right / _rights) and the registration
table CompartmentedModel._effects of every shipped compartmented model are read off the live
objects on every run (build() against a real dynamics) and handed to Coq as the table of each
case; Coq re-checks wf_loci / single_orientation of every extracted table and instantiates the
general theorems at it.
Tie B: histories of the six mutating calls and of the four bulk calls of Process (addNodesFrom,
removeNodesFrom, addEdgesFrom, removeEdgesFrom: one call = the single-element calls in order up to
the first that raises) are driven through the real CompartmentedModel API on a real dynamics;
after set-up and after every call the network, every node's compartment attribute and list(locus)
of every compartment-tracking locus are dumped and compared with Model/Loci.v by vm_compute.
D: truth is recomputed from Dynamics.network() and the node attributes after every call and
compared with every locus and with the per-element event rates, with no reference to the model;
every call of a history is judged (also calls that raise, whatever they left behind) up to the
first MISUSE that does not raise (setCompartment on a node that has a compartment)."""
import itertools
import json
import os

import networkx

from vlib import coqlit as L
from vlib import core
from vlib.core import Harness
from vlib.oracle import Oracle, install

# ------------------------------------------------------------------ the models under test

SHIPPED = ['SIR', 'SIS', 'SIRS', 'SEIR', 'SIR_FixedRecovery', 'SIS_FixedRecovery',
           'SIR_VariableInfection', 'SIvR', 'Opinion', 'Vaccinate']

# synthetic tables: ('node', c) | ('edge', l, r) | ('multi', l, [rs]) over compartments 0..k-1
SYNTH = {
    'synth_cc': (3, [('edge', 0, 0), ('node', 0), ('edge', 0, 1)]),
    'synth_overlap': (3, [('node', 0), ('node', 0), ('edge', 0, 1), ('edge', 1, 0), ('edge', 0, 2), ('node', 2)]),
    'synth_multi': (4, [('multi', 0, [0, 1, 2]), ('edge', 3, 0), ('node', 1), ('multi', 1, [1])]),
    'synth_all_pairs': (2, [('edge', 0, 1), ('edge', 1, 0), ('edge', 0, 0), ('edge', 1, 1), ('node', 0), ('node', 1)]),
}


def _params(name):
    import epydemic as E
    p = {}
    for cls in (E.SIR, E.SIS, E.SIRS, E.SEIR, E.SIR_FixedRecovery, E.SIS_FixedRecovery, E.SIvR, E.Opinion, E.Vaccinate):
        for k in dir(cls):
            v = getattr(cls, k)
            if k.isupper() and isinstance(v, str) and (k.startswith('P_') or k.startswith('T_') or k in ('EFFICACY',)):
                if k in ('T_OCCUPIED', 'T_HITTING'):
                    continue
                p[v] = 0.25
    p[E.SIR_FixedRecovery.T_INFECTED] = 1.0
    p[E.SIS_FixedRecovery.T_INFECTED] = 1.0
    p[E.SIvR.T_OFFSET] = 0.0
    return p


def make_model(name, inst=None, retrack=False):
    """An instance (optionally a NAMED instance) of the named model whose initial occupancies are all
    equal, so that the scripted rng.random() values select each node's initial compartment.
    retrack: build() ends by asking AGAIN for every locus it already has, catching the documented rejection ("Locus ...
    already exists"): the rejected calls must leave no trace, the loci the process reports stay the live ones."""
    import epydemic as E
    from epydemic.opinion_model import MultiCompartmentedEdgeLocus
    if name in SYNTH:
        k, specs = SYNTH[name]

        class Synth(E.CompartmentedModel):
            def build(self, params):
                super().build(params)
                cs = ['cmp%d' % i for i in range(k)]
                for c in cs:
                    self.addCompartment(c, 1.0 / k)
                for i, sp in enumerate(specs):
                    nm = 'L%d' % i
                    if sp[0] == 'node':
                        self.trackNodesInCompartment(cs[sp[1]], name=nm)
                    elif sp[0] == 'edge':
                        self.trackEdgesBetweenCompartments(cs[sp[1]], cs[sp[2]], name=nm)
                    else:
                        self.addLocus(nm, MultiCompartmentedEdgeLocus(nm, cs[sp[1]], [cs[j] for j in sp[2]]))
                if retrack:
                    _retrack(self)
        return Synth()
    base = getattr(E, name)

    class Uniform(base):
        def build(self, params):
            super().build(params)
            cs = self.compartments()
            for c in cs:
                self.changeCompartmentInitialOccupancy(c, 1.0 / len(cs))
            if retrack:
                _retrack(self)
    Uniform.__name__ = name
    return Uniform(inst) if inst is not None else Uniform()


def _retrack(m):
    import epydemic as E
    from epydemic.opinion_model import MultiCompartmentedEdgeLocus
    for nm, l in list(m.loci().items()):
        try:
            if isinstance(l, MultiCompartmentedEdgeLocus):
                m.addLocus(nm, MultiCompartmentedEdgeLocus(nm, l._left, list(l._rights)))
            elif isinstance(l, E.CompartmentedEdgeLocus):
                m.trackEdgesBetweenCompartments(l._left, l._right, name=nm)
            elif isinstance(l, E.CompartmentedNodeLocus):
                m.trackNodesInCompartment(l._compartment, name=nm)
            else:
                m.addLocus(nm)
        except Exception:
            pass


_K = {}


def n_compartments(name):
    """number of compartments the model declares (read off a throw-away build)"""
    if name in SYNTH:
        return SYNTH[name][0]
    if name not in _K:
        import epydemic as E
        install(Oracle(seed=1))
        m = make_model(name)
        g = networkx.Graph()
        g.add_node(0)
        E.StochasticDynamics(m, g).setUp(_params(name))
        _K[name] = len(m.compartments())
    return _K[name]


class View:
    """What the harness needs to see of ONE compartmented model instance living on a real dynamics
    (alone, or as a named instance in a ProcessSequence next to others on the same network)."""

    def __init__(self, name, m, d, k):
        import epydemic as E
        from epydemic.opinion_model import MultiCompartmentedEdgeLocus
        self.name = name
        self.m = m
        self.d = d
        self.g = d.network()
        self.comps = list(self.m.compartments())
        assert len(self.comps) == k, (name, self.comps)
        # ---- tie A: what the live loci objects say they track
        self.loci = []        # (name, locus, spec) of the compartment-tracking loci, in addLocus order
        self.other_loci = []
        for nm, l in self.m.loci().items():
            if isinstance(l, MultiCompartmentedEdgeLocus):
                sp = ('multi', l._left, sorted(l._rights))
            elif isinstance(l, E.CompartmentedEdgeLocus):
                sp = ('edge', l._left, l._right)
            elif isinstance(l, E.CompartmentedNodeLocus):
                sp = ('node', l._compartment)
            else:
                self.other_loci.append(nm)
                continue
            self.loci.append((nm, l, sp))
        names = list(self.comps)
        for (_, _, sp) in self.loci:
            for c in ([sp[1]] if sp[0] == 'node' else [sp[1], sp[2]] if sp[0] == 'edge' else [sp[1]] + list(sp[2])):
                if c not in names:
                    names.append(c)
        self.names = names
        self.code = {c: i + 1 for i, c in enumerate(names)}
        # the registration table as built by addLocus: compartment -> indices of the loci whose handlers are listed
        idx = {id(l): i for i, (_, l, _) in enumerate(self.loci)}
        self.effects = {}
        self.stray_keys = []
        for c, hs in self.m._effects.items():
            ixs = []
            for (ah, lh, eh, rh) in hs:
                owner = {id(h.__self__) for h in (ah, lh, eh, rh)}
                assert len(owner) == 1
                ixs.append(idx.get(owner.pop(), -1))      # -1: handlers of a locus the process does not report
            if c in self.code:
                self.effects[c] = ixs
            else:
                self.stray_keys.append(c)     # one-character keys from set(self._left)

    def table(self):
        out = []
        for (_, _, sp) in self.loci:
            if sp[0] == 'node':
                out.append(['node', self.code[sp[1]]])
            elif sp[0] == 'edge':
                out.append(['edge', self.code[sp[1]], self.code[sp[2]]])
            else:
                out.append(['multi', self.code[sp[1]], [self.code[c] for c in sp[2]]])
        return out

    def effects_table(self):
        return [[self.code[c], list(self.effects.get(c, []))] for c in self.names]

    def attr(self, n):
        if n not in self.g:
            return 'absent'
        a = self.g.nodes[n]
        if self.m.COMPARTMENT not in a:
            return 'missing'
        v = a[self.m.COMPARTMENT]
        return None if v is None else self.code.get(v, -1)

    def dump(self, universe, raised=None):
        d = {'raised': raised,
             'nodes': list(self.g.nodes()), 'edges': [list(e) for e in self.g.edges()],
             'attr': [self.attr(n) for n in universe],
             'loci': [[(list(x) if isinstance(x, tuple) else x) for x in l] for (_, l, _) in self.loci],
             'lens': [len(l) for (_, l, _) in self.loci]}
        # per-element events: (index of the locus or None, elements if it is some other locus, pr, rate)
        try:
            dist = self.d.perElementEventDistribution(0.0)
            rates = self.d.eventRateDistribution(0.0)[:len(dist)]      # per-element events come first
            ev = []
            for (l, pr, _, _), (l2, rate, _, _) in zip(dist, rates):
                if l.process() is not self.m:
                    continue                                           # an event of another instance
                ix = [i for i, (_, ll, _) in enumerate(self.loci) if ll is l]
                ev.append({'locus': ix[0] if ix else None,
                           'elements': None if ix else [(list(x) if isinstance(x, tuple) else x) for x in l],
                           'pr': pr, 'rate': rate, 'same': l is l2, 'ltype': type(l).__name__})
            d['events'] = ev
            d['events_exc'] = None if len(dist) == len(rates) == len(self.d.perElementEventRateDistribution(0.0)) else 'length mismatch'
        except Exception as e:   # observable: e.g. KeyError on a stale edge
            d['events'] = []
            d['events_exc'] = type(e).__name__ + ': ' + str(e)
        return d

    def apply(self, op):
        m = self.m
        k = op[0]
        c = (lambda i: self.comps[i])
        kw = {}
        if k in ('addedge', 'addedges') and hasattr(m, 'INFECTIVITY'):
            kw = {m.INFECTIVITY: 0.5}
        try:
            if k == 'set':
                m.setCompartment(op[1], c(op[2]))
            elif k == 'change':
                m.changeCompartment(op[1], c(op[2]))
            elif k == 'addnode':
                if op[2] is None:
                    m.addNode(op[1])
                else:
                    m.addNode(op[1], c(op[2]))
            elif k == 'rmnode':
                m.removeNode(op[1])
            elif k == 'addedge':
                m.addEdge(op[1], op[2], **kw)
            elif k == 'rmedge':
                m.removeEdge(op[1], op[2])
            elif k == 'addnodes':
                # Process.addNodesFrom(ns, **kwds) -> self.addNode(n, **kwds): the compartment travels as keyword c
                if op[2] is None:
                    m.addNodesFrom(list(op[1]))
                else:
                    m.addNodesFrom(list(op[1]), c=c(op[2]))
            elif k == 'rmnodes':
                m.removeNodesFrom(list(op[1]))
            elif k == 'addedges':
                m.addEdgesFrom([tuple(e) for e in op[1]], **kw)
            elif k == 'rmedges':
                m.removeEdgesFrom([tuple(e) for e in op[1]])
            else:
                raise AssertionError(op)
            return None
        except AssertionError:
            raise
        except Exception as e:      # observable behaviour of an invalid call
            return type(e).__name__ + ': ' + str(e)[:80]


def used_network(name, g, dynamics):
    """the working network an EARLIER experiment with the same model left behind (every node in the model's second
    compartment, attributes and all): a legitimate prototype for the next experiment, whose set-up must start afresh"""
    import epydemic as E
    m0 = make_model(name)
    k = n_compartments(name)
    install(Oracle(seed=7, script={'random': [(1 + 0.5) / k] * g.order() + [0.5] * (g.number_of_edges() + 8)}))
    cls = E.StochasticDynamics if dynamics == 'stochastic' else E.SynchronousDynamics
    d0 = cls(m0, E.FixedNetwork(g))
    d0.setUp(_params(name))
    used = d0.network()
    for a, b in used.edges():
        used.edges[a, b][m0.OCCUPIED] = True
    return used


class Live(View):
    """A single model instance set up on a real dynamics."""

    def __init__(self, name, nodes, edges, init, dynamics='stochastic', seed=1, used=False, retrack=False):
        import epydemic as E
        g = networkx.Graph()
        g.add_nodes_from(nodes)
        g.add_edges_from([tuple(e) for e in edges])
        if used:
            g = used_network(name, g, dynamics)
        m = make_model(name, retrack=retrack)
        k = n_compartments(name)
        script = [(i + 0.5) / k for i in init]
        self.oracle = install(Oracle(seed=seed, script={'random': script}))
        cls = E.StochasticDynamics if dynamics == 'stochastic' else E.SynchronousDynamics
        d = cls(m, E.FixedNetwork(g))
        self.params = _params(name)
        d.setUp(self.params)
        View.__init__(self, name, m, d, k)


class LiveMulti:
    """Several (named) instances on one network: ProcessSequence built from a dict, as the cookbook's
    co-infection recipe does.  instances: [(model name, instance name or None)]; inits: one list of
    initial compartment indices per instance (initialCompartments runs instance after instance)."""

    def __init__(self, instances, nodes, edges, inits, dynamics='stochastic', seed=1):
        import epydemic as E
        g = networkx.Graph()
        g.add_nodes_from(nodes)
        g.add_edges_from([tuple(e) for e in edges])
        ms = [make_model(nm, inst) for (nm, inst) in instances]
        ks = [n_compartments(nm) for (nm, _) in instances]
        script = []
        for m, k, init in zip(ms, ks, inits):
            script += [(i + 0.5) / k for i in init]
            if hasattr(m, 'INFECTIVITY'):
                script += [0.5] * g.number_of_edges()      # SIR_VariableInfection.setUp draws one infectivity per edge
        self.oracle = install(Oracle(seed=seed, script={'random': script}))
        self.seq = E.ProcessSequence({(inst if inst is not None else nm): m for (nm, inst), m in zip(instances, ms)})
        cls = E.StochasticDynamics if dynamics == 'stochastic' else E.SynchronousDynamics
        self.d = cls(self.seq, E.FixedNetwork(g))
        self.params = {}
        for (nm, _) in instances:
            self.params.update(_params(nm))
        self.d.setUp(self.params)
        self.views = [View(nm, m, self.d, k) for (nm, _), m, k in zip(instances, ms, ks)]


# ------------------------------------------------------------------ a shadow of the network state for the generator and for D

BULK = {'addnodes': 'addnode', 'rmnodes': 'rmnode', 'addedges': 'addedge', 'rmedges': 'rmedge'}


def expand(op):
    """a bulk call as the single-element calls Process makes for it, in order (a single call: itself)"""
    k = op[0]
    if k == 'addnodes':
        return [['addnode', n, op[2]] for n in op[1]]
    if k == 'rmnodes':
        return [['rmnode', n] for n in op[1]]
    if k == 'addedges':
        return [['addedge', e[0], e[1]] for e in op[1]]
    if k == 'rmedges':
        return [['rmedge', e[0], e[1]] for e in op[1]]
    return [op]


class Shadow:
    """nodes / undirected edges / compartment attribute, as far as the calls change them
    (independent of the loci; used to steer the generator and to evaluate the preconditions).
    A bulk call is its single-element calls in order, up to the first one that raises."""

    def __init__(self, nodes, edges, init):
        self.nodes = list(nodes)
        self.edges = {frozenset(e) for e in edges}
        self.comp = {n: c for n, c in zip(nodes, init)}     # value 'missing' = no attribute

    def copy(self):
        sh = Shadow([], [], [])
        sh.nodes = list(self.nodes); sh.edges = set(self.edges); sh.comp = dict(self.comp)
        return sh

    # ---- one single-element call
    def _has(self, n):
        return n in self.comp and self.comp[n] != 'missing'

    def _pre1(self, op):
        k = op[0]
        has = self._has
        if k == 'set':
            return op[1] in self.comp and self.comp[op[1]] in ('missing', None)
        if k == 'change':
            return has(op[1])
        if k == 'addnode':
            return op[1] not in self.comp
        if k == 'rmnode':
            return has(op[1])
        if k == 'addedge':
            return has(op[1]) and has(op[2])
        if k == 'rmedge':
            return frozenset((op[1], op[2])) in self.edges
        raise AssertionError(op)

    def _raises1(self, op):
        """the call raises (and, by the comparison with the model made after every call, changes nothing)"""
        k = op[0]
        has = self._has
        if k == 'set':
            return op[1] not in self.comp
        if k in ('change', 'rmnode'):
            return not has(op[1])
        if k == 'addedge':
            return op[1] not in self.comp or op[2] not in self.comp
        if k == 'rmedge':
            return not (has(op[1]) and has(op[2])) or frozenset((op[1], op[2])) not in self.edges
        return False

    def _outside1(self, op):
        # addEdge on an existing node without the attribute: the edge is added, then KeyError
        return op[0] == 'addedge' and op[1] in self.comp and op[2] in self.comp and \
            (self.comp[op[1]] == 'missing' or self.comp[op[2]] == 'missing')

    def _misuse1(self, op):
        """a call the code accepts without complaint although its documented precondition fails: setCompartment (also
        through addNode(n, c) on a node that is already there) on a node that HAS a compartment - 'assumes that the
        node doesn't already have a compartment set'; the loci are not constrained after it"""
        occupied = op[1] in self.comp and self.comp[op[1]] not in ('missing', None)
        if op[0] == 'set':
            return occupied
        if op[0] == 'addnode':
            return op[2] is not None and occupied
        return False

    def _apply1(self, op):
        k = op[0]
        if k == 'set':
            if op[1] in self.comp:
                self.comp[op[1]] = op[2]
        elif k == 'change':
            if op[1] in self.comp and self.comp[op[1]] != 'missing':
                self.comp[op[1]] = op[2]
        elif k == 'addnode':
            if op[1] not in self.comp:
                self.nodes.append(op[1]); self.comp[op[1]] = 'missing'
            if op[2] is not None:
                self.comp[op[1]] = op[2]
        elif k == 'rmnode':
            if op[1] in self.comp and self.comp[op[1]] != 'missing':
                self.nodes.remove(op[1]); del self.comp[op[1]]
                self.edges = {e for e in self.edges if op[1] not in e}
        elif k == 'addedge':
            if self._pre1(op):
                self.edges.add(frozenset((op[1], op[2])))
        elif k == 'rmedge':
            self.edges.discard(frozenset((op[1], op[2])))

    # ---- one call, single or bulk
    def classify(self, op):
        """('outside' | 'misuse' | 'raises' | 'ok', every element satisfied its precondition): the class of the first
        element that is not a plain accepted call, the elements taken in order on the state the earlier ones left"""
        sh = self.copy()
        allpre = True
        for e in expand(op):
            if sh._outside1(e):
                return 'outside', False
            if sh._misuse1(e):
                return 'misuse', False
            if sh._raises1(e):
                return 'raises', False
            allpre = allpre and sh._pre1(e)
            sh._apply1(e)
        return 'ok', allpre

    def pre(self, op):
        return self.classify(op) == ('ok', True)

    def raises(self, op):
        return self.classify(op)[0] == 'raises'

    def outside(self, op):
        return self.classify(op)[0] == 'outside'

    def apply(self, op):
        for e in expand(op):
            if op[0] in BULK and self._raises1(e):
                break            # the exception leaves the loop of the bulk call
            self._apply1(e)


def make_graph(rnd, n, kind):
    nodes = list(range(n))
    es = []
    if kind == 'complete':
        es = list(itertools.combinations(nodes, 2))
    elif kind == 'path':
        es = [(i, i + 1) for i in range(n - 1)]
    elif kind == 'star':
        es = [(0, i) for i in range(1, n)]
    elif kind == 'tailed_triangle' and n >= 3:
        es = [(0, 1), (1, 2), (2, 0)] + [(i, i + 1) for i in range(2, n - 1)]
    else:
        p = rnd.choice([0.2, 0.4, 0.7])
        es = [(a, b) for a, b in itertools.combinations(nodes, 2) if rnd.random() < p]
    es = [(a, b) if rnd.random() < 0.5 else (b, a) for (a, b) in es]
    if kind == 'loops' or rnd.random() < 0.15:
        es += [(a, a) for a in nodes if rnd.random() < 0.3]
    rnd.shuffle(es)
    return nodes, es


OPKINDS = ['set', 'change', 'addnode', 'rmnode', 'addedge', 'rmedge', 'addnodes', 'rmnodes', 'addedges', 'rmedges']
WEIGHTS = [1, 6, 2, 2, 4, 3, 1, 1, 1, 1]
WEIGHTS_BULK = [1, 3, 1, 1, 1, 1, 3, 3, 4, 3]        # stream 'bulk': mostly the four bulk calls


def gen_history(rnd, sh, k, length, universe, stream):
    """A history of `length` calls; ~70 % of them satisfy their precondition."""
    ops = []

    def push(op):
        if sh.outside(op):
            return False
        ops.append(op); sh.apply(op)
        return True

    def present():
        return [n for n in sh.nodes if sh.comp.get(n) != 'missing']

    def rc():
        return rnd.randrange(k)

    def valid_op():
        for _ in range(20):
            kind = rnd.choices(OPKINDS, weights=WEIGHTS_BULK if stream == 'bulk' else WEIGHTS)[0]
            pr = present()
            if kind == 'set':
                c = [n for n in sh.nodes if sh.comp[n] in ('missing', None)]
                if c:
                    return ['set', rnd.choice(c), rc()]
            elif kind == 'change' and pr:
                n = rnd.choice(pr)
                if stream == 'noop_change' and rnd.random() < 0.6 and sh.comp[n] is not None:
                    return ['change', n, sh.comp[n]]
                return ['change', n, rc()]
            elif kind == 'addnode':
                free = [n for n in universe if n not in sh.comp]
                if free:
                    return ['addnode', rnd.choice(free), rc() if rnd.random() < 0.85 else None]
            elif kind == 'rmnode' and pr:
                if stream == 'rmnode_edges':
                    withe = [n for n in pr if any(n in e for e in sh.edges)]
                    if withe:
                        return ['rmnode', rnd.choice(withe)]
                return ['rmnode', rnd.choice(pr)]
            elif kind == 'addedge' and pr:
                a = rnd.choice(pr)
                if stream == 'selfloop' and rnd.random() < 0.5:
                    return ['addedge', a, a]
                if stream == 'same_comp_edge':
                    same = [b for b in pr if b != a and sh.comp[b] == sh.comp[a]]
                    if same:
                        return ['addedge', a, rnd.choice(same)]
                b = rnd.choice(pr)
                if a != b or rnd.random() < 0.3:
                    return ['addedge', a, b]
            elif kind == 'rmedge' and sh.edges:
                e = sorted(rnd.choice(sorted(map(sorted, sh.edges))))
                a, b = (e[0], e[0]) if len(e) == 1 else e
                return ['rmedge', a, b] if rnd.random() < 0.5 else ['rmedge', b, a]
            # ---- the bulk calls: one to three elements, each valid on the state the earlier ones leave
            elif kind == 'addnodes':
                free = [n for n in universe if n not in sh.comp]
                if free:
                    return ['addnodes', rnd.sample(free, rnd.randrange(1, min(3, len(free)) + 1)), rc() if rnd.random() < 0.85 else None]
            elif kind == 'rmnodes' and pr:
                pool = pr
                if stream in ('rmnode_edges', 'bulk'):
                    pool = [n for n in pr if any(n in e for e in sh.edges)] or pr
                return ['rmnodes', rnd.sample(pool, rnd.randrange(1, min(3, len(pool)) + 1))]
            elif kind == 'addedges' and pr:
                es = []
                for _ in range(rnd.randrange(1, 4)):
                    a, b = rnd.choice(pr), rnd.choice(pr)
                    if stream == 'same_comp_edge':
                        same = [x for x in pr if x != a and sh.comp[x] == sh.comp[a]]
                        b = rnd.choice(same) if same else b
                    if a != b or rnd.random() < 0.3:
                        es.append([a, b])
                if es:
                    return ['addedges', es]
            elif kind == 'rmedges' and sh.edges:
                cand = sorted(map(sorted, sh.edges))
                es = []
                for e in rnd.sample(cand, rnd.randrange(1, min(3, len(cand)) + 1)):
                    a, b = (e[0], e[0]) if len(e) == 1 else e
                    es.append([a, b] if rnd.random() < 0.5 else [b, a])
                return ['rmedges', es]
        return None

    def any_op():
        kind = rnd.choices(OPKINDS, weights=[3, 3, 3, 3, 3, 3, 1, 1, 1, 1])[0]
        a, b = rnd.choice(universe), rnd.choice(universe)
        if kind in ('set', 'change'):
            return [kind, a, rc()]
        if kind == 'addnode':
            return ['addnode', a, rc() if rnd.random() < 0.7 else None]
        if kind == 'rmnode':
            return ['rmnode', a]
        if kind in BULK:
            # a bulk call whose elements are plausible (present nodes, existing edges) or arbitrary: some raise in
            # the middle, after the earlier elements have taken effect; now and then no element at all
            cnt = rnd.choice([0, 1, 2, 2, 3, 3])
            pr = present() or universe
            pick = lambda: rnd.choice(pr) if rnd.random() < 0.6 else rnd.choice(universe)
            if kind == 'addnodes':
                return ['addnodes', [rnd.choice(universe) for _ in range(cnt)], rc() if rnd.random() < 0.7 else None]
            if kind == 'rmnodes':
                return ['rmnodes', [pick() for _ in range(cnt)]]
            if kind == 'rmedges' and sh.edges and rnd.random() < 0.6:
                cand = sorted(map(sorted, sh.edges))
                es = [list(rnd.choice(cand)) for _ in range(cnt)]
                return ['rmedges', [[e[0], e[-1]] for e in es]]       # a repeated edge raises the second time
            return [kind, [[pick(), pick()] for _ in range(cnt)]]
        return [kind, a, b]

    tries = 0
    while len(ops) < length and tries < 10 * length + 20:
        tries += 1
        if stream in ('readd', 'bulk') and rnd.random() < 0.25:
            pr = present()
            if pr:
                n = rnd.choice(pr)
                nb = [m for m in pr if m != n]
                if stream == 'bulk':
                    # remove a node or two with their edges, put them back and reconnect them, all by bulk calls
                    ns = [n] + ([rnd.choice(nb)] if nb and rnd.random() < 0.5 else [])
                    rest = [m for m in pr if m not in ns]
                    push(['rmnodes', ns]); push(['addnodes', list(reversed(ns)), rc()])
                    es = [[x, rnd.choice(rest)] for x in ns if rest] + ([[ns[0], ns[-1]]] if len(ns) > 1 else [])
                    if es:
                        push(['addedges', es])
                    continue
                push(['rmnode', n]); push(['addnode', n, rc()])
                if nb:
                    push(['addedge', n, rnd.choice(nb)])
                continue
        op = valid_op() if rnd.random() < 0.7 else any_op()
        if op is not None and sh.classify(op)[0] == 'misuse' and rnd.random() < 0.7:
            continue      # D cannot judge anything after a misuse that does not raise: keep most histories free of one
        if op is not None:
            push(op)
    return ops[:length]


def flip(x):
    return (x[1], x[0]) if isinstance(x, tuple) else x


def tup(x):
    return tuple(x) if isinstance(x, list) else x


class H(Harness):
    ID = 'C01'
    ANCHOR_FILES = ['epydemic/compartmentedmodel.py', 'epydemic/loci.py', 'epydemic/opinion_model.py', 'epydemic/process.py', 'epydemic/networkdynamics.py', 'epydemic/drawset.py']
    TIE_IMPORT = 'From EpyV Require Import Model.Loci Tie.C01.'
    CHECK_FN = 'EpyV.Tie.C01.check_mcase'
    QUICK_N = 1400
    THOROUGH_N = 4000
    CASE_TIMEOUT = 20
    ALLOWED_AXIOMS = set()
    RULE = ('histories of 1-40 calls of setCompartment/changeCompartment/addNode/removeNode/addEdge/removeEdge and of the bulk calls '
            'addNodesFrom(ns, c=...)/removeNodesFrom/addEdgesFrom/removeEdgesFrom (0-3 elements each; some with an element that '
            'raises after earlier elements have taken effect) (about 70 % satisfying their precondition; most histories contain no '
            'misuse that does not raise, so that the direct oracle judges every call of them, also the calls that raise) '
            'on networks of 2-8 nodes (path/star/complete/tailed triangle/random, both edge '
            'orientations, self-loops), every shipped compartmented model plus synthetic tables (EdgeLocus c c, overlapping loci, '
            'multi loci), both dynamics, streams: random, rmnode_edges, noop_change, readd, same_comp_edge, selfloop, bulk (mostly bulk calls, '
            'remove/re-add/reconnect by bulk calls), explicit minimal bulk histories for every model with an edge locus; named multi-instance '
            'combinations (two and three named instances in a ProcessSequence built from a dict on one network: interleaved '
            'setCompartment/changeCompartment through each instance with the network fixed, and whole simulated runs; every '
            'instance is compared with its own copy of the model and its own truth after every call of any instance); pairs of '
            'histories from one set-up state for the state-function clause (the second one half of the time grouped into bulk calls); all histories of single-element calls of length <= 2 (quick) / <= 3 '
            '(thorough) over a 3-node universe for the SIR and Opinion tables; one history in six is followed by tearDown and the set-up of a second experiment on the same Dynamics object (direct oracle only); a case is non-trivial when at least 3 calls '
            'satisfied their precondition and some locus was non-empty; distinct by (model, network, initial compartments, calls)')
    TRUSTED = ['Coq 8.16.1 kernel incl. vm_compute',
               'harness/c01.py and vlib (scripted initial compartments, introspection of the loci objects and of _effects, state dumps)',
               'networkx Graph (add_node/add_edge/remove_node/remove_edge/edges(n)) modelled as node list + undirected edge list',
               'DrawSet add/discard/iteration modelled as a duplicate-free list (C09)']
    ASSUMPTIONS = ['node labels are not tuples (the code tells nodes from edges by isinstance(e, tuple))',
                   'compartment names have more than one character (set(self._left) in MultiCompartmentedEdgeLocus.compartments yields characters)',
                   'calls that add an edge to a node without a compartment attribute are outside the model (never generated)',
                   'in a multi-instance combination the network is not mutated through one instance (not a documented use: addNode/removeNode/addEdge/removeEdge of one process do not notify the loci of its siblings); never generated']

    # ---------------------------------------------------------------- generation
    STREAMS = ['random', 'random', 'rmnode_edges', 'noop_change', 'readd', 'same_comp_edge', 'selfloop', 'bulk']
    KINDS = ['path', 'star', 'complete', 'tailed_triangle', 'random', 'random', 'loops']

    def _one(self, rnd, model, stream, maxlen=40):
        n = rnd.randrange(2, 9)
        nodes, edges = make_graph(rnd, n, rnd.choice(self.KINDS))
        k = n_compartments(model)
        init = [rnd.randrange(k) for _ in nodes]
        universe = list(range(n + 2))
        sh = Shadow(nodes, edges, init)
        ops = gen_history(rnd, sh, k, rnd.randrange(1, maxlen + 1), universe, stream)
        return {'model': model, 'nodes': nodes, 'edges': [list(e) for e in edges], 'init': init, 'universe': universe,
                'ops': ops, 'stream': stream, 'dynamics': rnd.choice(['stochastic', 'synchronous']),
                # one case in five starts from the network an earlier experiment left behind (attributes and all)
                'used': rnd.random() < 0.2,
                # one case in six: build() repeats its tracking calls and catches the rejections
                'retrack': rnd.random() < 0.17,
                # one case in six is followed by the set-up of the next experiment on the same Dynamics object
                'again': rnd.random() < 0.17}

    # named multi-instance combinations on one network (ProcessSequence from a dict)
    COMBOS = [[['SIR', 'a'], ['SIR', 'b']], [['SIR', 'a'], ['SIS', 'b']], [['Opinion', None], ['SIR', 'x']],
              [['SIR', 'a'], ['SIS', 'b'], ['SIRS', 'c']], [['Opinion', 'o'], ['Vaccinate', 'v']],
              [['SIR_VariableInfection', 'v'], ['SIR_FixedRecovery', 'f'], ['SIS_FixedRecovery', 'g']]]

    def _multi(self, rnd, combo, run=False):
        n = rnd.randrange(2, 8)
        nodes, edges = make_graph(rnd, n, rnd.choice(self.KINDS))
        ks = [n_compartments(nm) for nm, _ in combo]
        inits = [[rnd.randrange(k) for _ in nodes] for k in ks]
        c = {'instances': combo, 'nodes': nodes, 'edges': [list(e) for e in edges], 'inits': inits, 'universe': list(range(n + 1)),
             'ops': [], 'stream': 'multi_run' if run else 'multi', 'dynamics': rnd.choice(['stochastic', 'synchronous'])}
        if run:
            c.update({'run': True, 'seed': rnd.randrange(1 << 30), 'tmax': 15.0, 'max_calls': 40})
            return c
        # the shared network stays fixed: compartment calls through each instance's own API, interleaved
        for _ in range(rnd.randrange(1, 26)):
            i = rnd.randrange(len(combo))
            r = rnd.random()
            if r < 0.85:
                op = ['change', rnd.choice(nodes), rnd.randrange(ks[i])]
            elif r < 0.93:
                op = ['change', n, rnd.randrange(ks[i])]                 # no such node: raises
            else:
                op = ['set', rnd.choice(nodes + [n]), rnd.randrange(ks[i])]   # misuse (node has a compartment) or raises
            c['ops'].append([i, op])
        return c

    def gen_cases(self, tier, rnd, n):
        out = []
        models = SHIPPED + list(SYNTH)
        for i in range(n):
            if i % 11 == 7:
                out.append(self._multi(rnd, self.COMBOS[(i // 11) % len(self.COMBOS)], run=rnd.random() < 0.3))
                continue
            model = models[i % len(models)] if rnd.random() < 0.8 else rnd.choice(['Opinion', 'SIR', 'synth_cc'])
            stream = rnd.choice(self.STREAMS)
            if i % 9 == 5:
                # a whole simulated run of a shipped model under either dynamics
                nn = rnd.randrange(3, 9)
                nodes, edges = make_graph(rnd, nn, rnd.choice(self.KINDS))
                m = SHIPPED[(i // 9) % len(SHIPPED)]
                out.append({'model': m, 'nodes': nodes, 'edges': [list(e) for e in edges],
                            'init': [rnd.randrange(n_compartments(m)) for _ in nodes], 'universe': nodes, 'ops': [], 'run': True,
                            'seed': rnd.randrange(1 << 30), 'tmax': 15.0, 'max_calls': 60, 'stream': 'run',
                            'dynamics': rnd.choice(['stochastic', 'synchronous'])})
            elif i % 7 == 3:
                # a pair of histories from the same set-up state that end in the same network state:
                # the same calls in another order / with detours (state-function clause)
                c = self._one(rnd, model if model in SHIPPED else 'Opinion', 'random', maxlen=8)
                c['ops_b'] = self._variant(rnd, c)
                c['stream'] = 'pair'
                out.append(c)
            else:
                out.append(self._one(rnd, model, stream))
        # interleave with the exhaustive small scope so that the coqc shards are of even size
        ex = self._all_histories(3 if tier == 'thorough' else 2)
        mixed = []
        step = max(1, len(ex) // max(1, len(out)))
        j = 0
        for i, e in enumerate(ex):
            mixed.append(e)
            if i % step == step - 1 and j < len(out):
                mixed.append(out[j]); j += 1
        return mixed + out[j:]

    def _variant(self, rnd, c):
        """Another history that reaches the same network state: reach the final state of history a
        directly from the set-up state, node by node and edge by edge, in a random order."""
        sh = Shadow(c['nodes'], [tuple(e) for e in c['edges']], c['init'])
        for op in c['ops']:
            sh.apply(op)
        start = Shadow(c['nodes'], [tuple(e) for e in c['edges']], c['init'])
        ops = []
        # remove what must go, add what must come, then fix the compartments in a random order
        for e in sorted(map(sorted, start.edges - sh.edges)):
            a, b = (e[0], e[0]) if len(e) == 1 else e
            ops.append(['rmedge', a, b])
        for n in [n for n in start.nodes if n not in sh.comp]:
            ops.append(['rmnode', n])
        newn = [n for n in sh.nodes if n not in start.comp]
        for n in newn:
            ops.append(['addnode', n, sh.comp[n] if sh.comp[n] not in ('missing', None) else None])
        if any(sh.comp[n] in ('missing', None) for n in sh.nodes):
            return []
        ch = [['change', n, sh.comp[n]] for n in sh.nodes if n in start.comp and sh.comp[n] != start.comp[n]]
        rnd.shuffle(ch)
        ops += ch
        adde = sorted(map(sorted, sh.edges - start.edges))
        rnd.shuffle(adde)
        for e in adde:
            a, b = (e[0], e[0]) if len(e) == 1 else e
            ops.append(['addedge', a, b] if rnd.random() < 0.5 else ['addedge', b, a])
        if rnd.random() < 0.5:
            # the same single-element calls, consecutive ones of a kind made as one bulk call of up to three elements
            grouped = []
            for op in ops:
                kind = {'rmedge': 'rmedges', 'rmnode': 'rmnodes', 'addedge': 'addedges'}.get(op[0])
                if kind is None:
                    grouped.append(op)
                elif grouped and grouped[-1][0] == kind and len(grouped[-1][1]) < 3:
                    grouped[-1][1].append(op[1] if kind == 'rmnodes' else [op[1], op[2]])
                else:
                    grouped.append([kind, [op[1] if kind == 'rmnodes' else [op[1], op[2]]]])
            ops = grouped
        return ops

    WITNESS_F10 = {'model': 'Opinion', 'nodes': [0, 1], 'edges': [[0, 1]], 'init': [0, 0], 'universe': [0, 1],
                   'ops': [['change', 0, 1], ['change', 1, 1]], 'ops_b': [['change', 1, 1], ['change', 0, 1]],
                   'stream': 'pair', 'dynamics': 'stochastic'}

    def exhaustive_cases(self, tier):
        out = [dict(self.WITNESS_F10)]
        # explicit minimal streams (F9, F10 and the clauses of the quantifier), for every model with an edge locus
        for model, init in [('SIR', [0, 1, 1]), ('SIS', [0, 1, 0]), ('SEIR', [0, 1, 2]), ('Opinion', [1, 1, 2]), ('Vaccinate', [1, 1, 0]),
                            ('synth_cc', [0, 0, 1]), ('synth_all_pairs', [0, 1, 1])]:
            base = {'model': model, 'nodes': [0, 1, 2], 'edges': [[0, 1], [2, 1], [0, 2]], 'init': init, 'universe': [0, 1, 2, 3],
                    'dynamics': 'stochastic'}
            for nm, ops in [('rmnode_edges', [['rmnode', 0], ['rmnode', 1]]),
                            ('rmnode_edges', [['rmnode', 1], ['addnode', 1, 0], ['addedge', 1, 0], ['addedge', 2, 1]]),
                            ('rmedge_other_orientation', [['rmedge', 1, 0], ['rmedge', 1, 2], ['rmedge', 0, 2]]),
                            ('rmedge_other_orientation', [['rmedge', 0, 1], ['rmedge', 2, 1], ['rmedge', 2, 0]]),
                            ('leave_other_orientation', [['change', 0, 1], ['change', 1, 1], ['change', 0, 0], ['change', 1, 0], ['change', 0, 2]]),
                            ('noop_change', [['change', 0, init[0]], ['change', 1, init[1]], ['change', 1, init[1]]]),
                            ('selfloop', [['addedge', 1, 1], ['change', 1, 0], ['change', 1, 1], ['rmedge', 1, 1], ['addedge', 0, 0], ['rmnode', 0]]),
                            # the bulk calls of Process: every element must reach the handlers of the loci
                            ('bulk', [['rmnodes', [0, 1]]]),
                            ('bulk', [['rmedges', [[1, 0], [1, 2]]], ['rmedges', [[2, 0]]]]),
                            ('bulk', [['rmnodes', [1]], ['addnodes', [1, 3], 0], ['addedges', [[1, 0], [2, 1], [3, 1]]], ['addnodes', [], 1]]),
                            ('bulk', [['rmedges', [[0, 1], [2, 1], [2, 0]]], ['addedges', [[0, 1], [1, 2]]], ['addedges', [[2, 0], [1, 0]]]]),
                            # an element that raises ends the call: the elements before it have taken effect
                            ('bulk_raise', [['rmnodes', [0, 3, 1]], ['rmedges', [[1, 2], [0, 1]]], ['addedges', [[2, 2], [2, 3], [1, 2]]],
                                            ['addnodes', [3], 1], ['addedges', [[3, 2], [1, 3]]]])]:
                k = n_compartments(model)
                c = dict(base); c['stream'] = nm
                c['ops'] = [[o[0], o[1], o[2] % k] if o[0] in ('set', 'change', 'addnode', 'addnodes') and o[2] is not None else list(o) for o in ops]
                out.append(c)
        return out

    def _all_histories(self, depth):
        """all histories of `depth` calls over a 3-node universe from a two-node network (node 2 can be
        added) for the SIR and Opinion tables; the states after the shorter prefixes are compared too"""
        out = []
        U = [0, 1, 2]
        for model, init in [('SIR', [0, 1]), ('Opinion', [1, 1])]:
            k = 3
            alpha = []
            for n in U:
                alpha += [['set', n, c] for c in range(k)] + [['change', n, c] for c in range(k)]
                alpha += [['addnode', n, c] for c in list(range(k)) + [None]] + [['rmnode', n]]
                alpha += [['addedge', n, m] for m in U] + [['rmedge', n, m] for m in U]
            for hist in itertools.product(alpha, repeat=depth):
                sh = Shadow([0, 1], [(0, 1)], init)
                ok = True
                for j, op in enumerate(hist):
                    if sh.outside(op):
                        ok = False; break
                    if depth >= 3 and j < depth - 1 and sh.raises(op):
                        # a call that raises changes nothing (that is compared wherever it is the LAST call of a
                        # history), so what follows it is a shorter history that is enumerated on its own
                        ok = False; break
                    sh.apply(op)
                if ok:
                    out.append({'model': model, 'nodes': [0, 1], 'edges': [[0, 1]], 'init': init, 'universe': U,
                                'ops': [list(o) for o in hist], 'stream': 'exhaustive', 'dynamics': 'stochastic'})
        return out

    # ---------------------------------------------------------------- execution
    def _run(self, case, ops):
        lv = Live(case['model'], case['nodes'], [tuple(e) for e in case['edges']], case['init'], case.get('dynamics', 'stochastic'), used=bool(case.get('used')),
                  seed=case.get('seed', 1), retrack=bool(case.get('retrack')))
        U = case['universe']
        d0 = lv.dump(U)
        dumps = []
        if case.get('run'):
            # a real simulation: every changeCompartment call the event functions make is a call of the history
            ops = []
            orig = lv.m.changeCompartment

            class Stop(Exception):
                pass

            def recording(n, c):
                exc = None
                try:
                    orig(n, c)
                except Exception as e:
                    exc = type(e).__name__ + ': ' + str(e)[:80]
                ops.append(['change', n, lv.comps.index(c)])
                dumps.append(lv.dump(U, raised=exc))
                if len(ops) >= case.get('max_calls', 60):
                    raise Stop()
            lv.m.changeCompartment = recording
            lv.m.setMaximumTime(case.get('tmax', 6.0))
            try:
                lv.d.do(lv.params)
            except Stop:
                pass
            return lv, d0, dumps, ops
        for op in ops:
            exc = lv.apply(op)
            dumps.append(lv.dump(U, raised=exc))
        lv.again = None
        if case.get('again'):
            # the next experiment on the SAME Dynamics object (tearDown, setUp as Experiment.run does): reset/build/setUp
            # must leave loci that are the truth of the fresh working network, whatever the history did to the old ones
            k = n_compartments(case['model'])
            lv.d.tearDown()
            install(Oracle(seed=case.get('seed', 1), script={'random': [(i + 0.5) / k for i in case['init']]}))
            try:
                lv.d.setUp(lv.params)
            except Exception as e:      # observable: the second experiment cannot be set up
                lv.again = {'raised': type(e).__name__ + ': ' + str(e)[:120]}
                return lv, d0, dumps, list(ops)
            v2 = View(case['model'], lv.m, lv.d, k)
            lv.again = {'raised': None, 'table': v2.table(), 'loci_names': [nm for (nm, _, _) in v2.loci], 'setup': v2.dump(U)}
        return lv, d0, dumps, list(ops)

    def _run_multi(self, case):
        insts = [tuple(x) for x in case['instances']]
        lm = LiveMulti(insts, case['nodes'], [tuple(e) for e in case['edges']], case['inits'], case.get('dynamics', 'stochastic'),
                       seed=case.get('seed', 1))
        U = case['universe']
        d0 = [v.dump(U) for v in lm.views]
        calls = []            # (instance index, op)
        dumps = []            # after every call: one dump per instance; the exception goes to the caller's dump
        def snap(i, exc):
            dumps.append([v.dump(U, raised=(exc if j == i else None)) for j, v in enumerate(lm.views)])
        if case.get('run'):
            class Stop(Exception):
                pass

            def wrap(i, v):
                orig = v.m.changeCompartment

                def recording(n, c):
                    exc = None
                    try:
                        orig(n, c)
                    except Exception as e:
                        exc = type(e).__name__ + ': ' + str(e)[:80]
                    calls.append([i, ['change', n, v.comps.index(c)]])
                    snap(i, exc)
                    if len(calls) >= case.get('max_calls', 60):
                        raise Stop()
                v.m.changeCompartment = recording
            for i, v in enumerate(lm.views):
                wrap(i, v)
            lm.seq.setMaximumTime(case.get('tmax', 6.0))
            try:
                lm.d.do(lm.params)
            except Stop:
                pass
        else:
            for (i, op) in case['ops']:
                exc = lm.views[i].apply(op)
                calls.append([i, op])
                snap(i, exc)
        return lm, d0, dumps, calls

    def _execute_multi(self, case):
        lm, d0, dumps, calls = self._run_multi(case)
        parts = []
        valid = 0
        for j, v in enumerate(lm.views):
            ops = [op if i == j else None for (i, op) in calls]       # None: a call made through another instance
            parts.append({'ops': ops, 'table': v.table(), 'effects': v.effects_table(), 'loci_names': [nm for (nm, _, _) in v.loci],
                          'other_loci': v.other_loci, 'stray_keys': sorted(v.stray_keys), 'compartments': v.names,
                          'attr_name': v.m.COMPARTMENT,
                          'setup': d0[j], 'after': [d[j] for d in dumps],
                          'init_seen': [d0[j]['attr'][case['universe'].index(n)] for n in case['nodes']]})
            sh = Shadow(case['nodes'], [tuple(e) for e in case['edges']], case['inits'][j])
            for op in ops:
                if op is not None:
                    valid += 1 if sh.pre(op) else 0
                    sh.apply(op)
        names = [p['attr_name'] for p in parts] + [nm for p in parts for nm in p['loci_names']]
        obs = {'parts': parts, 'calls': calls, 'names_distinct': len(set(names)) == len(names),
               'stats': {'calls': len(calls), 'calls_pre_ok': valid, 'calls_raised': sum(1 for d in dumps for x in d if x['raised']),
                         'stream_' + case.get('stream', '?'): 1,
                         'model_multi:' + '+'.join(nm for nm, _ in case['instances']): 1}}
        return obs

    def execute(self, case):
        if case.get('instances'):
            return self._execute_multi(case)
        lv, d0, dumps, ops = self._run(case, case['ops'])
        obs = {'ops': ops, 'table': lv.table(), 'effects': lv.effects_table(), 'loci_names': [nm for (nm, _, _) in lv.loci],
               'other_loci': lv.other_loci, 'stray_keys': sorted(lv.stray_keys), 'compartments': lv.names,
               'setup': d0, 'after': dumps,
               'init_seen': [d0['attr'][case['universe'].index(n)] for n in case['nodes']]}
        if getattr(lv, 'again', None):
            obs['again'] = lv.again
        if case.get('ops_b'):
            lv2, d0b, dumps_b, _ = self._run(case, case['ops_b'])
            obs['after_b'] = dumps_b
            obs['setup_b_same'] = (d0b == d0 and lv2.table() == obs['table'])
        valid = judged = 0
        misused = False
        sh = Shadow(case['nodes'], [tuple(e) for e in case['edges']], case['init'])
        for op in ops:
            cls, allpre = sh.classify(op)
            misused = misused or cls in ('misuse', 'outside')
            if cls == 'ok' and allpre:
                valid += 1
            if not misused:
                judged += 1          # D judges every call up to the first misuse that does not raise
            sh.apply(op)
        obs['stats'] = {'calls': len(ops), 'calls_pre_ok': valid, 'calls_raised': sum(1 for d in dumps if d['raised']),
                        'calls_judged_by_D': judged, 'calls_bulk': sum(1 for op in ops if op[0] in BULK),
                        'bulk_calls_raised': sum(1 for op, d in zip(ops, dumps) if op[0] in BULK and d['raised']),
                        'second_setup_on_same_dynamics': 1 if obs.get('again') else 0,
                        'stream_' + case.get('stream', '?'): 1, 'model_' + case['model']: 1}
        return obs

    # ---------------------------------------------------------------- D
    @staticmethod
    def _truth(sp, dump, universe):
        comp = {n: a for n, a in zip(universe, dump['attr'])}
        if sp[0] == 'node':
            return {n for n in dump['nodes'] if comp.get(n) == sp[1]}, set()
        l = sp[1]
        rs = {sp[2]} if sp[0] == 'edge' else set(sp[2])
        T = set()
        for a, b in dump['edges']:
            for (x, y) in ((a, b), (b, a)):
                if comp.get(x) == l and comp.get(y) in rs and comp.get(y) not in ('absent', 'missing', None):
                    T.add((x, y))
        both = {t for t in T if flip(t) in T and t[0] != t[1]}
        return T, both

    def _check_dump(self, case, obs, dump, opname):
        v = []
        U = case['universe']
        for i, sp in enumerate(obs['table']):
            nm = obs['loci_names'][i]
            C = [tup(x) for x in dump['loci'][i]]
            T, both = self._truth(sp, dump, U)
            two = (sp[0] == 'edge' and sp[1] == sp[2]) or (sp[0] == 'multi' and sp[1] in sp[2])
            if len(set(C)) != len(C) or dump['lens'][i] != len(C):
                v.append({'signature': 'duplicate-or-length:%s' % nm, 'detail': {'contents': C, 'len': dump['lens'][i]}})
            stale = [x for x in C if x not in T]
            if stale:
                gone = [x for x in stale if (x not in dump['nodes'] if not isinstance(x, tuple) else
                                             not any(set(x) == set(e) for e in dump['edges']))]
                v.append({'signature': 'stale:%s:%s' % (nm, opname),
                          'detail': {'stale': stale, 'no_longer_in_network': gone, 'contents': C, 'truth': sorted(T, key=str), 'after': opname}})
            if two:
                missing = [x for x in T if x not in C and flip(x) not in C]
            else:
                missing = [x for x in T if x not in C]
            if missing:
                v.append({'signature': 'missing:%s:%s' % (nm, opname),
                          'detail': {'missing': sorted(missing, key=str), 'contents': C, 'truth': sorted(T, key=str), 'after': opname}})
        # rates actually used: probability times the true number of eligible elements
        if dump['events_exc']:
            v.append({'signature': 'rates-raised:%s' % opname, 'detail': dump['events_exc']})
        single_seen = {}
        for ev in dump['events']:
            if ev['locus'] is not None:
                i = ev['locus']
                T, both = self._truth(obs['table'][i], dump, U)
                lo = ev['pr'] * (len(T) - len(both) // 2)
                hi = ev['pr'] * len(T)
                if not (lo <= ev['rate'] <= hi) or ev['rate'] != ev['pr'] * dump['lens'][i]:
                    v.append({'signature': 'rate:%s:%s' % (obs['loci_names'][i], opname),
                              'detail': {'rate': ev['rate'], 'pr': ev['pr'], 'eligible': len(T), 'eligible_undirected': len(T) - len(both) // 2}})
            elif ev.get('ltype', 'SingletonLocus') != 'SingletonLocus':
                # an event whose locus is none of the loci the dynamics holds (e.g. one left over from an earlier experiment):
                # its rate is not the probability times the number of elements eligible NOW
                v.append({'signature': 'rate:event-on-a-locus-the-dynamics-does-not-hold:%s' % opname,
                          'detail': {'elements': ev['elements'], 'pr': ev['pr'], 'rate': ev['rate']}})
            else:
                # SIR_VariableInfection: one singleton locus per SI edge
                for x in ev['elements']:
                    single_seen[tup(x)] = single_seen.get(tup(x), 0) + 1
                if ev['rate'] != ev['pr'] * len(ev['elements']):
                    v.append({'signature': 'rate:singleton:%s' % opname, 'detail': ev})
        if case['model'] == 'SIR_VariableInfection':
            si = [i for i, nm in enumerate(obs['loci_names']) if nm.split('@')[0].endswith('SI')]
            T, _ = self._truth(obs['table'][si[0]], dump, U)
            if set(single_seen) != T or any(c != 1 for c in single_seen.values()):
                v.append({'signature': 'rate:singleton-set:%s' % opname, 'detail': {'events_on': sorted(single_seen), 'truth': sorted(T)}})
        return v

    def _walk(self, case, obs, ops, dumps):
        """Judge the state after every call of the history up to the first MISUSE that does not raise.  The calls are
        classified on the network state their documented effect produces from the set-up state (nodes, edges, who has
        a compartment: Shadow; no loci involved).  A call that satisfies its precondition must not raise.  A call that
        has to raise is judged like any other by the state it left behind: whether and how an invalid call fails is
        not part of the property, but what it leaves is a state user code can observe (for a bulk call the elements
        before the failing one have taken effect).  After a misuse - setCompartment on a node that has a compartment -
        the property constrains nothing, so the walk ends there."""
        v = []
        sh = Shadow(case['nodes'], [tuple(e) for e in case['edges']], case['init'])
        for op, dump in zip(ops, dumps):
            if op is None:
                # a call made through another named instance: this instance's loci must still be its truth
                v += self._check_dump(case, obs, dump, 'other-instance')
                if v:
                    break
                continue
            cls, _ = sh.classify(op)
            if cls in ('misuse', 'outside'):
                return v, False
            sh.apply(op)
            if cls == 'ok' and dump['raised']:
                v.append({'signature': 'valid-call-raised:%s' % op[0], 'detail': {'op': op, 'exception': dump['raised']}})
                break
            v += self._check_dump(case, obs, dump, op[0])
            if v:
                break
        return v, True

    def direct(self, case, obs):
        if 'parts' in obs:
            if not obs['names_distinct']:
                return [{'signature': 'multi-instance-names-clash', 'detail': [p['attr_name'] for p in obs['parts']]}]
            v = []
            for j, part in enumerate(obs['parts']):
                sub = {'model': case['instances'][j][0], 'nodes': case['nodes'], 'edges': case['edges'], 'init': case['inits'][j],
                       'universe': case['universe']}
                for x in self.direct(sub, part):
                    x = dict(x); x['signature'] = 'instance[%s]:%s' % (case['instances'][j][1], x['signature'])
                    v.append(x)
            return v
        v = []
        if obs['init_seen'] != [i + 1 for i in case['init']]:
            return [{'signature': 'harness:initial-compartments-not-scripted', 'detail': obs['init_seen'], 'kind': 'harness'}]
        v += self._check_dump(case, obs, obs['setup'], 'setUp')
        if v:
            return v
        va, oka = self._walk(case, obs, obs['ops'], obs['after'])
        v += va
        if obs.get('again') and not v:
            # before the first event of the next experiment on the same Dynamics object (judged whatever the history was)
            if obs['again']['raised']:
                v.append({'signature': 'second-setup-raised', 'detail': {'exception': obs['again']['raised'], 'history': obs['ops']}})
            else:
                v += self._check_dump(case, obs['again'], obs['again']['setup'], 'setUp-again')
        if case.get('ops_b') and not v:
            vb, okb = self._walk(case, obs, case['ops_b'], obs['after_b'])
            v += vb
            if oka and okb and not v and obs['after'] and obs['after_b']:
                fa, fb = obs['after'][-1], obs['after_b'][-1]
                same = (sorted(fa['nodes']) == sorted(fb['nodes']) and fa['attr'] == fb['attr']
                        and sorted(map(sorted, fa['edges'])) == sorted(map(sorted, fb['edges'])))
                if same:
                    for i, sp in enumerate(obs['table']):
                        A = {tup(x) for x in fa['loci'][i]}
                        B = {tup(x) for x in fb['loci'][i]}
                        if A != B:
                            T, both = self._truth(sp, fa, case['universe'])
                            diff = A ^ B
                            nm = obs['loci_names'][i]
                            if diff <= both:
                                v.append({'signature': 'orientation-history-dependent locus=%s' % nm,
                                          'detail': {'history_a': case['ops'], 'contents_a': sorted(A), 'history_b': case['ops_b'], 'contents_b': sorted(B)}})
                            else:
                                v.append({'signature': 'contents-not-a-function-of-state locus=%s' % nm,
                                          'detail': {'contents_a': sorted(A, key=str), 'contents_b': sorted(B, key=str)}})
        return v

    # ---------------------------------------------------------------- Coq side
    @staticmethod
    def _spec(sp):
        if sp[0] == 'node':
            return '(NodeLocus %s)' % L.z(sp[1])
        if sp[0] == 'edge':
            return '(EdgeLocus %s %s)' % (L.z(sp[1]), L.z(sp[2]))
        return '(MultiEdgeLocus %s %s)' % (L.z(sp[1]), L.lst(sp[2], L.z))

    @staticmethod
    def _elem(x):
        return '(Loci.E %s %s)' % (L.z(x[0]), L.z(x[1])) if isinstance(x, (list, tuple)) else '(Loci.N %s)' % L.z(x)

    @staticmethod
    def _attr(a):
        if a in ('absent', 'missing'):
            return 'None'
        if a is None:
            return '(Some None)'
        return '(Some (Some %s))' % L.z(a)

    def _obs(self, d):
        return '{| o_raised := %s; o_nodes := %s; o_edges := %s; o_attr := %s; o_loci := %s |}' % (
            L.b(bool(d['raised'])), L.lst(d['nodes'], L.z), L.lst(d['edges'], L.zpair), L.lst(d['attr'], self._attr),
            L.lst([L.lst(l, self._elem) for l in d['loci']]))

    @staticmethod
    def _op1(op):
        k = op[0]
        c = lambda i: L.z(i + 1)
        if k == 'set':
            return '(SetC %s %s)' % (L.z(op[1]), c(op[2]))
        if k == 'change':
            return '(ChangeC %s %s)' % (L.z(op[1]), c(op[2]))
        if k == 'addnode':
            return '(AddNode %s %s)' % (L.z(op[1]), 'None' if op[2] is None else '(Some %s)' % c(op[2]))
        if k == 'rmnode':
            return '(RemoveNode %s)' % L.z(op[1])
        if k == 'addedge':
            return '(AddEdge %s %s)' % (L.z(op[1]), L.z(op[2]))
        if k == 'rmedge':
            return '(RemoveEdge %s %s)' % (L.z(op[1]), L.z(op[2]))
        raise AssertionError(op)

    @staticmethod
    def _op(op):
        if op is None:
            return 'Other'
        if op[0] in BULK:
            # one bulk call = its single-element calls in order; the implementation was observed after the whole call
            return '(Bulk %s)' % L.lst(expand(op), H._op1)
        return '(Own %s)' % H._op1(op)

    def to_coq(self, case, obs):
        if 'parts' in obs:
            terms = []
            for j, part in enumerate(obs['parts']):
                sub = {'nodes': case['nodes'], 'edges': case['edges'], 'init': case['inits'][j], 'universe': case['universe']}
                terms.append(self._case_term(sub, part))
            return '{| m_parts := %s |}' % L.lst(terms)
        return '{| m_parts := [%s] |}' % self._case_term(case, obs)

    def _case_term(self, case, obs):
        init = [(n, i + 1) for n, i in zip(case['nodes'], case['init'])]
        ops_b = case.get('ops_b') or []
        return ('{| c_tbl := %s; c_effects := %s; c_universe := %s; c_nodes := %s; c_edges := %s; c_init := %s; '
                'c_ops := %s; c_obs0 := %s; c_obs := %s; c_ops_b := %s; c_obs_b := %s |}') % (
            L.lst(obs['table'], self._spec),
            L.lst(['(%s, %s)' % (L.z(c), L.lst(ix, L.nat)) for c, ix in obs['effects']]),
            L.lst(case['universe'], L.z), L.lst(case['nodes'], L.z), L.lst(case['edges'], L.zpair), L.lst(init, L.zpair),
            L.lst(obs['ops'], self._op), self._obs(obs['setup']), L.lst(obs['after'], self._obs),
            L.lst(ops_b, self._op), L.lst(obs.get('after_b', []) if ops_b else [], self._obs))

    def nontrivial(self, case, obs):
        if 'parts' in obs:
            if obs['stats']['calls_pre_ok'] >= 3:
                return json.dumps([case['instances'], case['nodes'], case['edges'], case['inits'], obs['calls']])
            return None
        if obs['stats']['calls_pre_ok'] >= 3 and any(any(d['lens']) for d in [obs['setup']] + obs['after']):
            return json.dumps([case['model'], case['nodes'], case['edges'], case['init'], obs['ops'], case.get('ops_b')])
        return None

    def sample_view(self, case, obs):
        if 'parts' in obs:
            return {'case': case, 'calls': obs['calls'][:10], 'loci_names': [p['loci_names'] for p in obs['parts']],
                    'loci_at_end': [(p['after'][-1]['loci'] if p['after'] else None) for p in obs['parts']]}
        return {'case': case, 'table': obs['table'], 'loci_names': obs['loci_names'],
                'loci_after_setup': obs['setup']['loci'], 'loci_at_end': (obs['after'][-1]['loci'] if obs['after'] else None)}

    # ---------------------------------------------------------------- tie A
    def extra_obligations(self, workdir, tier):
        """Extract the table of every shipped model from the current code and let Coq check the
        hypotheses of the theorems on it and instantiate them."""
        res = []
        lines = ['From Coq Require Import List ZArith Bool.', 'From EpyV Require Import Model.Loci Properties.C01.',
                 'Import ListNotations.']
        two = []
        tables = {}
        for name in SHIPPED:
            try:
                lv = Live(name, [0, 1], [(0, 1)], [0, 0])
            except Exception as e:
                res.append(('tieA:build:' + name, False, repr(e)))
                continue
            tbl = lv.table()
            tables[name] = {'table': tbl, 'loci': [nm for (nm, _, _) in lv.loci], 'other_loci': lv.other_loci,
                            'compartments': lv.names}
            # the modelling assumption about MultiCompartmentedEdgeLocus.compartments()
            ok = all(len(c) > 1 for c in lv.names) and all(len(k) == 1 for k in lv.stray_keys)
            res.append(('tieA:compartment-names:' + name, ok, (lv.names, lv.stray_keys)))
            t = L.lst(tbl, self._spec)
            lines.append('Definition tbl_%s : list spec := %s.' % (name, t))
            lines.append('Lemma wf_%s : wf_loci tbl_%s = true. Proof. vm_compute. reflexivity. Qed.' % (name, name))
            single = all(not ((sp[0] == 'edge' and sp[1] == sp[2]) or (sp[0] == 'multi' and sp[1] in sp[2])) for sp in tbl)
            if single:
                lines.append('Lemma single_%s : single_orientation tbl_%s = true. Proof. vm_compute. reflexivity. Qed.' % (name, name))
                lines.append('Definition inv_%s := C01_inv_history tbl_%s wf_%s single_%s.' % (name, name, name, name))
            else:
                two.append(name)
                lines.append('Lemma two_%s : single_orientation tbl_%s = false. Proof. vm_compute. reflexivity. Qed.' % (name, name))
            lines.append('Definition weak_%s := C01_weak_history tbl_%s wf_%s.' % (name, name, name))
        if 'Opinion' in tables:
            lines.append('Lemma opinion_is_the_refuted_table : tbl_Opinion = opinion_tbl. Proof. reflexivity. Qed.')
        src = os.path.join(workdir, 'TablesC01.v')
        with open(src, 'w') as f:
            f.write('\n'.join(lines) + '\n')
        json.dump(tables, open(os.path.join(workdir, 'tables.json'), 'w'), indent=1)
        rc, out, dt = core.coqc_file(src, timeout=300)
        res.append(('tieA:tables-wf-and-theorems-instantiate', rc == 0, out[-1500:]))
        res.append(('tieA:two-orientation-models-are-Opinion-and-Vaccinate', sorted(two) == ['Opinion', 'Vaccinate'], two))
        return res
