"""Runs of the shipped compartmented models on small networks with a scripted random source,
observed from outside: every event-function entry (element, membership in its locus, compartments
of the endpoints, clock), a snapshot of all compartments after every event (event tap), the
final network attributes, results and metadata.  Used by C05, C07, C08 (direct oracles) and by
the compartmented tie (Tie/Compart.v)."""
import itertools
import math

import networkx

from vlib.oracle import Oracle, install
from harness import kscript


def models():
    import epydemic as ep
    return {
        'SIR': ep.SIR, 'SIS': ep.SIS, 'SIRS': ep.SIRS, 'SEIR': ep.SEIR,
        'SIR_FixedRecovery': ep.SIR_FixedRecovery, 'SIS_FixedRecovery': ep.SIS_FixedRecovery,
        'SIR_VariableInfection': ep.SIR_VariableInfection, 'SIvR': ep.SIvR,
        'Opinion': ep.Opinion, 'Vaccinate': ep.Vaccinate,
    }


def spec(model):
    """diagram arrows, susceptible compartment(s), infectious compartments, infection event functions"""
    import epydemic as ep
    if model in ('SIR', 'SIR_FixedRecovery', 'SIR_VariableInfection', 'SIvR'):
        c = ep.SIR
        return {'arrows': {(c.SUSCEPTIBLE, c.INFECTED), (c.INFECTED, c.REMOVED)}, 'S': c.SUSCEPTIBLE,
                'infectious': {c.INFECTED}, 'infect_fns': {'infect'}, 'I': c.INFECTED, 'once': True,
                'comps': [c.SUSCEPTIBLE, c.INFECTED, c.REMOVED]}
    if model in ('SIS', 'SIS_FixedRecovery'):
        c = ep.SIS
        return {'arrows': {(c.SUSCEPTIBLE, c.INFECTED), (c.INFECTED, c.SUSCEPTIBLE)}, 'S': c.SUSCEPTIBLE,
                'infectious': {c.INFECTED}, 'infect_fns': {'infect'}, 'I': c.INFECTED, 'once': False,
                'comps': [c.SUSCEPTIBLE, c.INFECTED]}
    if model == 'SIRS':
        c = ep.SIRS
        return {'arrows': {(c.SUSCEPTIBLE, c.INFECTED), (c.INFECTED, c.REMOVED), (c.REMOVED, c.SUSCEPTIBLE)}, 'S': c.SUSCEPTIBLE,
                'infectious': {c.INFECTED}, 'infect_fns': {'infect'}, 'I': c.INFECTED, 'once': False,
                'comps': [c.SUSCEPTIBLE, c.INFECTED, c.REMOVED]}
    if model == 'SEIR':
        c = ep.SEIR
        return {'arrows': {(c.SUSCEPTIBLE, c.EXPOSED), (c.EXPOSED, c.INFECTED), (c.INFECTED, c.REMOVED)}, 'S': c.SUSCEPTIBLE,
                'infectious': {c.EXPOSED, c.INFECTED}, 'infect_fns': {'infect', 'infectAsymptomatic'}, 'I': c.EXPOSED, 'once': True,
                'comps': [c.SUSCEPTIBLE, c.EXPOSED, c.INFECTED, c.REMOVED]}
    if model in ('Opinion', 'Vaccinate'):
        c = ep.Opinion
        return {'arrows': {(c.IGNORANT, c.SPREADER), (c.SPREADER, c.STIFLER)}, 'S': c.IGNORANT,
                'infectious': {c.SPREADER}, 'infect_fns': {'affect'}, 'I': c.SPREADER, 'once': True,
                'comps': [c.IGNORANT, c.SPREADER, c.STIFLER]}
    raise KeyError(model)


def params_for(model, pv, inst=None):
    """pv: dict of generic values (pSeed, pInfect, pRemove, pAux, tInf, eff, off).  When inst is given the
    disease parameters are supplied under decorated names."""
    import epydemic as ep
    d = {}
    if model in ('SIR', 'SIvR'):
        d = {ep.SIR.P_INFECTED: pv['pSeed'], ep.SIR.P_INFECT: pv['pInfect'], ep.SIR.P_REMOVE: pv['pRemove']}
        if model == 'SIvR':
            d[ep.SIvR.EFFICACY] = pv['eff']
            d[ep.SIvR.T_OFFSET] = pv['off']
    elif model == 'SIS':
        d = {ep.SIS.P_INFECTED: pv['pSeed'], ep.SIS.P_INFECT: pv['pInfect'], ep.SIS.P_RECOVER: pv['pRemove']}
    elif model == 'SIRS':
        d = {ep.SIR.P_INFECTED: pv['pSeed'], ep.SIR.P_INFECT: pv['pInfect'], ep.SIR.P_REMOVE: pv['pRemove'], ep.SIRS.P_RESUSCEPT: pv['pAux']}
    elif model == 'SEIR':
        d = {ep.SEIR.P_EXPOSED: pv['pSeed'], ep.SEIR.P_INFECT_ASYMPTOMATIC: pv['pAux'], ep.SEIR.P_INFECT_SYMPTOMATIC: pv['pInfect'],
             ep.SEIR.P_SYMPTOMS: pv.get('pSym', pv['pRemove']), ep.SEIR.P_REMOVE: pv['pRemove']}
    elif model == 'SIR_FixedRecovery':
        d = {ep.SIR.P_INFECTED: pv['pSeed'], ep.SIR.P_INFECT: pv['pInfect'], ep.SIR_FixedRecovery.T_INFECTED: pv['tInf']}
    elif model == 'SIS_FixedRecovery':
        d = {ep.SIS.P_INFECTED: pv['pSeed'], ep.SIS.P_INFECT: pv['pInfect'], ep.SIS_FixedRecovery.T_INFECTED: pv['tInf']}
    elif model == 'SIR_VariableInfection':
        d = {ep.SIR.P_INFECTED: pv['pSeed'], ep.SIR.P_REMOVE: pv['pRemove']}
    elif model == 'Opinion':
        d = {ep.Opinion.P_AFFECTED: pv['pSeed'], ep.Opinion.P_AFFECT: pv['pInfect'], ep.Opinion.P_STIFLE: pv['pRemove']}
    elif model == 'Vaccinate':
        d = {ep.Opinion.P_AFFECTED: pv['pSeed'], ep.Opinion.P_AFFECT: pv['pInfect'], ep.Opinion.P_STIFLE: pv['pRemove'],
             ep.Vaccinate.P_VACCINATE: pv['pAux']}
    if inst is not None and model != 'SEIR':
        d = {k + '@' + inst: v for k, v in d.items()}
    return d


def add_decoys(params):
    """a named instance is given its parameters under decorated names; where nobody else uses the plain name it now
    carries ANOTHER, non-zero value (meant for somebody else): the three-level rule must pick the decorated one, a
    decorated 0 included"""
    for k, v in list(params.items()):
        if '@' in k and isinstance(v, (int, float)) and not isinstance(v, bool):
            plain = k.split('@')[0]
            if plain not in params:
                params[plain] = 0.8125 if v != 0.8125 else 0.4375
    return params


def make_graph(desc):
    g = networkx.Graph()
    g.add_nodes_from(desc['nodes'])
    g.add_edges_from([tuple(e) for e in desc['edges']])
    return g


def gen_graph(rnd, lo=2, hi=7, kinds=None):
    n = rnd.randrange(lo, hi + 1)
    kind = rnd.choice(kinds or ['path', 'star', 'complete', 'cycle', 'random', 'random', 'tri_tail'])
    g = networkx.Graph()
    g.add_nodes_from(range(n))
    if kind == 'path':
        g.add_edges_from((i, i + 1) for i in range(n - 1))
    elif kind == 'star':
        g.add_edges_from((0, i) for i in range(1, n))
    elif kind == 'complete':
        g.add_edges_from(itertools.combinations(range(n), 2))
    elif kind == 'cycle':
        g.add_edges_from((i, (i + 1) % n) for i in range(n) if n > 2)
    elif kind == 'tri_tail':
        if n >= 3:
            g.add_edges_from([(0, 1), (1, 2), (0, 2)])
        g.add_edges_from((i, i + 1) for i in range(2, n - 1))
    else:
        p = rnd.choice([0.3, 0.5, 0.8])
        for a, b in itertools.combinations(range(n), 2):
            if rnd.random() < p:
                g.add_edge(*((a, b) if rnd.random() < 0.5 else (b, a)))
    return {'nodes': list(g.nodes()), 'edges': [list(e) for e in g.edges()], 'kind': kind}


DY = [0.0, 0.125, 0.25, 0.5, 0.5, 0.75, 1.0]


def gen_params(rnd, dynamics):
    return {'pSeed': rnd.choice([0.125, 0.25, 0.5, 0.5]), 'pInfect': rnd.choice(DY[1:] + [1.0] + [0.0]), 'pRemove': rnd.choice(DY),
            'pSym': rnd.choice(DY),
            'pAux': rnd.choice(DY), 'tInf': rnd.choice([0.5, 1.0, 1.5, 2.0]), 'eff': rnd.choice([0.0, 1.0, 0.5]),
            'off': rnd.choice([0.0, 0.5])}


def gen_case(rnd, model=None, dynamics=None, **kw):
    model = model or rnd.choice(list(models()))
    dynamics = dynamics or rnd.choice(['stochastic', 'synchronous'])
    case = {'model': model, 'dynamics': dynamics, 'graph': gen_graph(rnd, **kw), 'pv': gen_params(rnd, dynamics),
            'seed': rnd.randrange(1 << 30), 'inst': rnd.choice([None, None, 'a']), 'seq': rnd.random() < 0.3,
            'maxtime': rnd.choice([2.0, 3.0, 4.0]) if dynamics == 'synchronous' else rnd.choice([1.5, 3.0, 6.0]),
            'vacc': [], 'prerun': rnd.random() < 0.3, 'second': None}
    if model == 'SIvR':
        case['vacc'] = [n for n in case['graph']['nodes'] if rnd.random() < 0.5]
    if model == 'SIR_VariableInfection' and rnd.random() < 0.4:
        # the documented extension point: initialInfectivities() overridden (here: scripted per-edge values, other
        # ones in an earlier run on the same object, which by C10 must not matter)
        m = len(case['graph']['edges'])
        vals = [0.0, 0.25, 0.5, 0.75, 1.0, 1.0]
        case['vi_override'] = {'run': [rnd.choice(vals) for _ in range(m)], 'pre': [rnd.choice(vals) for _ in range(m)]}
        case['prerun'] = True
    if model == 'SIR_VariableInfection' and rnd.random() < 0.3:
        case['vi_post'] = rnd.choice([0.125, 0.25, 0.5, 1.0])
    if rnd.random() < 0.15:
        case['used'] = True          # the prototype is the network an earlier experiment left behind
    if model in ('SIR', 'SEIR', 'SIS', 'SIRS', 'SIR_FixedRecovery', 'SIS_FixedRecovery') and rnd.random() < 0.15:      # not Opinion: the stored orientation of a spreader-spreader pair depends on the placing order (known finding, C01)
        # index cases placed by an overridden initialCompartments(): an edge's two ends and one more node
        es = case['graph']['edges']
        case['reseed'] = (list(rnd.choice(es)) if es else []) + [rnd.choice(case['graph']['nodes'])]
        case['reseed_via'] = rnd.choice(['initial', 'change'])      # through the seeding hook, or by plain changeCompartment calls
    nameable = ('SIR', 'SIS', 'SIRS', 'SIR_FixedRecovery', 'SIS_FixedRecovery')
    if model in nameable and rnd.random() < 0.25:
        # two named instances of disease models on one network (the whole-run Coq tie covers single instances only)
        case['inst'] = 'a'
        case['second'] = {'model': rnd.choice(nameable), 'inst': 'b', 'pv': gen_params(rnd, dynamics), 'plain': rnd.random() < 0.4}
    if rnd.random() < 0.2:
        # an earlier run on the same objects that is abandoned INSIDE set-up, after every component was built and set up
        # (events posted, loci filled): epyc does not tear such a run down, and the observed run must not notice it
        case['abort_first'] = True
    return case


def c05_cases(rnd, n):
    out = []
    for i in range(n):
        c = gen_case(rnd, dynamics='synchronous', kinds=['star', 'complete', 'random'])
        c['pv']['pInfect'] = 1.0
        c['pv']['pAux'] = rnd.choice([0.5, 1.0])
        c['pv']['pSeed'] = rnd.choice([0.25, 0.5])
        if c['model'] == 'SEIR':
            c['pv']['pRemove'] = rnd.choice([0.5, 0.75])      # symptoms: both exposed and infected neighbours around
            c['maxtime'] = 4.0
        out.append(c)
    return out


def vi_post_cases(rnd, n):
    """SIR_VariableInfection whose seeds are removed by a posted event, under Gillespie dynamics with low rates: the posted
    removal tends to fall between the selection of an infection through one edge and its firing"""
    out = []
    for i in range(n):
        c = gen_case(rnd, model='SIR_VariableInfection', dynamics='stochastic', kinds=['star', 'path', 'complete', 'random'])
        m = len(c['graph']['edges'])
        c['vi_override'] = {'run': [rnd.choice([0.125, 0.25, 0.5]) for _ in range(m)], 'pre': [rnd.choice([0.25, 1.0]) for _ in range(m)]}
        c['prerun'] = rnd.random() < 0.3
        c['vi_post'] = rnd.choice([0.0625, 0.125, 0.25, 0.5])
        c['pv']['pRemove'] = rnd.choice([0.0, 0.125])
        c['pv']['pSeed'] = rnd.choice([0.25, 0.5])
        c['seq'] = rnd.random() < 0.2
        c['second'] = None
        out.append(c)
    return out


def vi_cut_cases(rnd, n):
    """SIR_VariableInfection whose susceptible-infected edges are all CUT (removeEdge) by a posted event, under Gillespie
    dynamics with low rates: the cut tends to fall between the selection of an infection through one edge and its firing;
    the edge has left the SI locus (and the network), its end points keep their compartments.  D only."""
    out = []
    for i in range(n):
        c = gen_case(rnd, model='SIR_VariableInfection', dynamics='stochastic', kinds=['star', 'path', 'complete', 'random', 'cycle'])
        m = len(c['graph']['edges'])
        c['vi_override'] = {'run': [rnd.choice([0.125, 0.25, 0.5]) for _ in range(m)], 'pre': [rnd.choice([0.25, 1.0]) for _ in range(m)]}
        c['prerun'] = False
        c.pop('vi_post', None)
        c.pop('abort_first', None)
        c['vi_cut'] = rnd.choice([0.0625, 0.125, 0.25, 0.5])
        c['pv']['pRemove'] = rnd.choice([0.0, 0.125])
        c['pv']['pSeed'] = rnd.choice([0.25, 0.5])
        c['seq'] = False
        c['second'] = None
        out.append(c)
    return out


def vi_sync_rerun_cases(rnd, n):
    """SIR_VariableInfection run twice on the same objects under synchronous dynamics: the earlier run, with low
    infectivities, is stopped by its maximum time with susceptible-infected edges left; in the observed run every
    infectivity is 1, so that several selected edges compete for one susceptible node in one timestep"""
    out = []
    for i in range(n):
        c = gen_case(rnd, model='SIR_VariableInfection', dynamics='synchronous', kinds=['complete', 'star', 'random', 'tri_tail'])
        m = len(c['graph']['edges'])
        c['vi_override'] = {'run': [1.0] * m, 'pre': [rnd.choice([0.0, 0.0, 0.125]) for _ in range(m)]}
        c['prerun'] = True
        c.pop('vi_post', None)
        c.pop('abort_first', None)
        c['pv']['pRemove'] = 0.0
        c['pv']['pSeed'] = rnd.choice([0.25, 0.5])
        c['maxtime'] = rnd.choice([2.0, 3.0])
        c['seq'] = rnd.random() < 0.2
        c['second'] = None
        out.append(c)
    return out


def fr_rerun_cases(rnd, n):
    """the fixed-recovery models (whose build() does not go through Process.build()) run twice on the same objects, the
    earlier run cut off by its time limit with infections still going on"""
    out = []
    for i in range(n):
        c = gen_case(rnd, model=rnd.choice(['SIR_FixedRecovery', 'SIS_FixedRecovery']), kinds=['complete', 'star', 'random', 'cycle'])
        c['prerun'] = True
        c['pv']['tInf'] = rnd.choice([1.5, 2.0])
        c['pv']['pInfect'] = rnd.choice([0.125, 0.25, 0.5])
        c['pv']['pSeed'] = rnd.choice([0.25, 0.5])
        c['maxtime'] = rnd.choice([1.5, 2.0, 3.0])
        c['second'] = None
        c.pop('used', None)
        out.append(c)
    return out


class Obs:
    pass


def run_case(case):
    import epyc
    import epydemic as ep
    from epydemic import Dynamics, SynchronousDynamics, ProcessSequence, Monitor
    model = case['model']
    cls = models()[model]
    sp = spec(model)
    g = make_graph(case['graph'])
    if case.get('used'):
        # the prototype is the working network an EARLIER experiment (its own objects, same model, other random choices)
        # left behind, compartments, occupied edges, hitting times and all: "for every network"
        m0 = cls()
        d0 = (ep.StochasticDynamics if case['dynamics'] == 'stochastic' else ep.SynchronousDynamics)(m0, g)
        m0.setMaximumTime(case['maxtime'])
        install(Oracle(seed=case['seed'] + 17))
        try:
            d0.set(dict(params_for(model, dict(case['pv'], pSeed=0.5, pInfect=1.0)))).run(fatal=True)
            if d0.network() is not None:
                g = d0.network()
        except Exception:
            pass
    inst = case.get('inst')
    if model == 'SIR_VariableInfection' and case.get('vi_post') is not None:
        # a user process in the documented way: variable infection whose seeds are removed by a POSTED event
        # (events interleaved with posted events that empty a one-element locus)
        T_post = case['vi_post']

        class cls(ep.SIR_VariableInfection):
            def setUp(self, params):
                super().setUp(params)
                net = self.network()
                for n in list(net.nodes()):
                    if net.nodes[n][self.COMPARTMENT] == self.INFECTED:
                        self.postEvent(T_post, n, self.remove, name=self.REMOVED)
    if model == 'SIR_VariableInfection' and case.get('vi_cut') is not None:
        T_cut = case['vi_cut']

        class cls(ep.SIR_VariableInfection):
            def setUp(self, params):
                super().setUp(params)
                self.postEvent(T_cut, None, self.cut, name='cut')

            def cut(self, t, e):
                for (n, m) in list(self.locus(ep.SIR.SI)):
                    if self.network().has_edge(n, m):
                        self.removeEdge(n, m)
    if case.get('reseed') and model in ('SIR', 'SEIR', 'SIS', 'SIRS', 'SIR_FixedRecovery', 'SIS_FixedRecovery', 'Opinion'):
        # the documented hook overridden: default seeding, then chosen index cases (neighbours among them) are placed again
        base_cls, picks = cls, list(case['reseed'])

        class cls(base_cls):
            def initialCompartments(self):
                super().initialCompartments()
                target = spec(model)['I']
                for n in picks:
                    if n in self.network().nodes():
                        if case.get('reseed_via') == 'change':
                            if self.getCompartment(n) != target:
                                self.changeCompartment(n, target)
                        else:
                            self.changeInitialCompartment(n, target)
    try:
        proc = cls(inst) if inst is not None else cls()
    except TypeError:
        inst = None
        proc = cls()
    params = params_for(model, case['pv'], inst)
    top = proc
    procs = [proc]
    if case.get('seq'):
        mon = Monitor()
        params[Monitor.DELTA] = case.get('delta', 0.5)
        top = ProcessSequence([mon, proc])
        procs = [mon, proc]
    second = case.get('second')       # {'model', 'inst', 'pv'}: another named instance on the same network
    proc2 = None
    if second:
        proc2 = models()[second['model']](second['inst'])
        # the second instance reads its parameters under its own decorated names, or (plain) falls back to the shared plain names
        params.update(params_for(second['model'], second['pv'], None if (second.get('plain') and inst is not None) else second['inst']))   # (only when the first instance keeps to its decorated names: plain names are shared)
        procs = procs + [proc2]
        top = ProcessSequence(procs)
    add_decoys(params)
    top.setMaximumTime(case['maxtime'])
    dcls = ep.StochasticDynamics if case['dynamics'] == 'stochastic' else ep.SynchronousDynamics
    dyn = dcls(top, g)
    orc = Oracle(seed=case['seed'], script=case.get('script'))
    rec = kscript.Recorder()
    entries = []       # event-function entries
    snaps = []         # (t, name, e, {node: comp}) after every event
    state = {'posted': 0, 'started': False}
    index = {id(p): i for i, p in enumerate(procs)}
    compvar = proc.COMPARTMENT
    compvars = {index[id(proc)]: proc.COMPARTMENT}
    if proc2 is not None:
        compvars[index[id(proc2)]] = proc2.COMPARTMENT

    def comps(cv=None):
        cv = cv or compvar
        return {n: dyn.network().nodes[n].get(cv) for n in dyn.network().nodes()}

    def comps_by():
        return {pi: comps(cv) for pi, cv in compvars.items()}

    def wrap(locus, ef, name, registered, pi=None):
        compvar = compvars.get(pi, proc.COMPARTMENT)

        def w(t, e):
            if state['posted'] > 0 or not registered:
                member = None
            else:
                # the locus of this name that the dynamics holds NOW (an event left over from an earlier run would carry
                # a locus object that nothing updates any more)
                live = dyn.loci().get(locus.name()) if hasattr(locus, 'name') else None
                member = (e in locus) and (live is None or e in live)
            net = dyn.network()
            if isinstance(e, tuple):
                ends = [net.nodes[x].get(compvar) if x in net else '<gone>' for x in e]
                isedge = net.has_edge(*e)
            else:
                ends = [net.nodes[e].get(compvar) if e in net else '<gone>']
                isedge = None
            entries.append({'pi': pi, 'fn': getattr(ef, '__name__', str(ef)), 'name': name, 'locus': locus.name() if hasattr(locus, 'name') else None, 'li': lindex(locus), 't': t, 'e': e, 'clock': dyn.currentSimulationTime(),
                            'member': member, 'ends': ends, 'isedge': isedge, 'posted': state['posted'] > 0,
                            'vacc': (net.nodes[e[0]].get(ep.SIvR.VACCINATED), net.nodes[e[0]].get(ep.SIvR.VACCINATION_TIME)) if (model == 'SIvR' and isinstance(e, tuple)) else None,
                            'nrand0': len(orc.log)})
            r = ef(t, e)
            entries[-1]['nrand1'] = len(orc.log)
            entries[-1]['ends_after'] = [dyn.network().nodes[x].get(compvar) for x in (e if isinstance(e, tuple) else [e]) if x in dyn.network()]
            return r
        w.__name__ = getattr(ef, '__name__', 'ef')
        return w

    registration = {}
    lspecs = []

    def lindex(l):
        for i, x in enumerate(dyn.loci().values()):
            if x is l or x is getattr(l, '_locus', None):
                return i
        return -1

    def started(params_):
        state['started'] = True
        state['started_rand'] = len(orc.values('random'))
        for p in top.allProcesses():
            for attr, kind in (('_perElementEvents', 'elem'), ('_perLocusEvents', 'fixed')):
                evs = getattr(p, attr, None)
                if evs is None:
                    continue
                new = []
                for (l, pr, ef, name) in evs:
                    registration.setdefault(index.get(id(p), -1), []).append({'kind': kind, 'locus': l.name() if hasattr(l, 'name') else str(l), 'li': lindex(l), 'p': pr,
                                                                               'fn': getattr(ef, '__name__', str(ef)), 'name': name})
                    new.append((l, pr, wrap(l, ef, name, True, index.get(id(p), -1)), name))
                setattr(p, attr, new)
        from epydemic.opinion_model import MultiCompartmentedEdgeLocus
        for nm, l in dyn.loci().items():
            if isinstance(l, MultiCompartmentedEdgeLocus):
                lspecs.append([nm, 'multi', l._left, sorted(l._rights)])
            elif isinstance(l, ep.CompartmentedEdgeLocus):
                lspecs.append([nm, 'edge', l._left, l._right])
            elif isinstance(l, ep.CompartmentedNodeLocus):
                lspecs.append([nm, 'node', l._compartment])
            else:
                lspecs.append([nm, 'plain'])
        if model == 'SIR_VariableInfection':
            orig_infect = state.setdefault('orig_infect', proc.infect)
            proc.infect = wrap(proc.locus(ep.SIR.SI), orig_infect, ep.SIR.INFECTED, True, index[id(proc)])
        for n in case.get('vacc', []):
            proc.vaccinateNode(0.0, n)
        snaps.append({'t': 0.0, 'name': '<start>', 'e': None, 'pi': -1, 'comps': comps(), 'comps_by': comps_by(),
                      'loci': {k: list(l) for k, l in dyn.loci().items()},
                      'infectivity': {tuple(sorted((a, b))): d.get(getattr(proc, 'INFECTIVITY', '?')) for a, b, d in dyn.network().edges(data=True)}})
    dyn.simulationStarted = started

    def tap(t, p, name, e):
        snaps.append({'t': t, 'name': name, 'e': e, 'pi': index.get(id(p), -1), 'comps': comps(), 'comps_by': comps_by(),
                      'loci': {k: len(l) for k, l in dyn.loci().items()}, 'posted': state['posted'] > 0})
        if len(snaps) > 400:
            raise kscript.Budget('run exceeds the harness budget')
    dyn.eventFired = tap
    posted_entries = []
    orig_post = dyn.postEvent

    def post(t, p, e, ef, *a, **kw):
        # every posted event function is entered with its own time, and the clock agrees
        def pw(tt, ee, ef=ef, due=t):
            posted_entries.append({'due': due, 't': tt, 'e': ee, 'clock': dyn.currentSimulationTime(), 'fn': getattr(ef, '__name__', '?')})
            return ef(tt, ee)
        pw.__name__ = getattr(ef, '__name__', 'ef')
        return orig_post(t, p, e, pw, *a, **kw)
    dyn.postEvent = post
    orig_rpe = dyn.runPendingEvents

    def rpe(t):
        state['posted'] += 1
        try:
            return orig_rpe(t)
        finally:
            state['posted'] -= 1
    dyn.runPendingEvents = rpe
    final = {}

    def ended(res):
        net = dyn.network()
        final['nodes'] = {n: dict(d) for n, d in net.nodes(data=True)}
        final['edges'] = [(a, b, dict(d)) for a, b, d in net.edges(data=True)]
        final['comps'] = comps()
        final['comps_by'] = comps_by()
        final['loci'] = {k: list(l) for k, l in dyn.loci().items()}
        try:
            sk = proc.skeletonise()
            final['skeleton'] = {'nodes': list(sk.nodes()), 'edges': [tuple(e) for e in sk.edges()]}
        except Exception as e:
            final['skeleton_exc'] = type(e).__name__ + ': ' + str(e)
        final['pending'] = sorted(ev[0] for ev in dyn._postedEventFinder.values())
    dyn.simulationEnded = ended

    import epydemic.stochasticdynamics as sd
    vio = case.get('vi_override')
    vi_cur = {'vals': None}
    if vio:
        def initial_infectivities():
            net = proc.network()
            for k, (_, _, data) in enumerate(net.edges(data=True)):
                data[proc.INFECTIVITY] = vi_cur['vals'][k]
        proc.initialInfectivities = initial_infectivities
        vi_cur['vals'] = vio['pre']
    if case.get('abort_first'):
        install(Oracle(seed=case['seed'] + 2))
        last = procs[-1]
        orig_setup = last.setUp

        def abandoned(params_):
            orig_setup(params_)
            raise RuntimeError('set-up abandoned by the harness')
        last.setUp = abandoned
        try:
            dyn.set(dict(params)).run(fatal=True)
        except Exception:
            pass
        finally:
            del last.setUp
        del entries[:]
        del posted_entries[:]
        del snaps[:]
        registration.clear()
        del lspecs[:]
        final.clear()
        state['posted'] = 0
        state['started'] = False
    if case.get('prerun'):
        # an earlier run on the SAME experiment object (other parameters, other random choices): by C10 it must
        # not influence the observed run
        pre = dict(params)
        install(Oracle(seed=case['seed'] + 1))
        try:
            pre_rc = dyn.set(pre).run(fatal=True)
            import copy as _copy
            state['pre_results'] = (pre_rc.get(epyc.Experiment.RESULTS), _copy.deepcopy(pre_rc.get(epyc.Experiment.RESULTS)))
        except Exception:
            pass
        del entries[:]
        del posted_entries[:]
        del snaps[:]
        registration.clear()
        del lspecs[:]
        final.clear()
        state['posted'] = 0
        state['started'] = False
    install(orc)
    if vio:
        vi_cur['vals'] = vio['run']
    gate_positions = []
    if model == 'SIvR':
        import epydemic.sivr_model as sivr_mod

        class GateProxy:
            # the random values SIvR.infect draws, tagged by their position in the stream of rng.random() values
            def random(self_):
                v = orc.random()
                gate_positions.append(len(orc.values('random')) - 1)
                return v

            def __getattr__(self_, n):
                return getattr(orc, n)
        sivr_mod.rng = GateProxy()
    kscript.install_draw_recorder(rec)
    saved_math = sd.math
    sd.math = kscript.LogShim(rec)
    exc = None
    rc = None
    try:
        rc = dyn.set(params).run(fatal=True)
    except Exception as e:
        exc = type(e).__name__ + ': ' + str(e)
    finally:
        sd.math = saved_math
        kscript.uninstall_draw_recorder()
    md = (rc or {}).get(epyc.Experiment.METADATA, {}) if rc else {}
    res = (rc or {}).get(epyc.Experiment.RESULTS, {}) if rc else {}
    monitor = None
    if case.get('seq') and isinstance(res, dict) and Monitor.OBSERVATIONS in res:
        monitor = {'times': list(res[Monitor.OBSERVATIONS]),
                   'series': [list(res.get(Monitor.timeSeriesForLocus(sp_[0]), [])) for sp_ in lspecs]}
    pr = state.get('pre_results')
    obs = {'posted_entries': posted_entries, 'earlier_results_intact': None if pr is None else (repr(pr[0]) == repr(pr[1])),
           'exception': exc, 'gate_positions': gate_positions, 'entries': entries, 'loci_specs': lspecs, 'monitor': monitor, 'started_rand': state.get('started_rand'), 'snaps': snaps, 'final': final, 'registration': registration,
           'results': {k: v for k, v in res.items() if isinstance(v, (int, float))} if isinstance(res, dict) else {},
           'time': md.get(Dynamics.TIME), 'events': md.get(Dynamics.EVENTS), 'steps': md.get(SynchronousDynamics.TIMESTEPS_WITH_EVENTS, 0),
           'rands': [e[1] for e in orc.values('random')], 'lns': list(rec.logs), 'draws': [d[1] for d in rec.draws],
           'inst': inst, 'order': g.order(), 'primary_pi': index[id(proc)], 'second_pi': index[id(proc2)] if proc2 is not None else None, 'events_log': [(s['t'], s['name'], s['e']) for s in snaps[1:]]}
    if exc and exc.startswith('Budget'):
        obs['skipped'] = True
    return obs


# ---------------------------------------------------------------- direct oracles

def direct_c05(case, obs):
    if case.get('second') and not obs.get('skipped') and not obs.get('exception'):
        return _dedup([v for c, o in views(case, obs) for v in direct_c05(dict(c, second=None), o)])
    if obs.get('skipped'):
        return []
    if obs['exception']:
        return [{'signature': 'run-raised:' + case['model'] + ':' + obs['exception'].split(':')[0], 'detail': obs['exception']}]
    v = []
    # an event registered on a locus that the dynamics does not hold (left over from an earlier run, say) is called on
    # elements of a set that nothing keeps up to date
    for pi, regs in (obs.get('registration') or {}).items():
        for r in regs:
            if r.get('li') == -1 and r.get('fn') != 'observe':
                v.append({'signature': 'event-registered-on-a-locus-the-dynamics-does-not-hold:' + case['model'], 'detail': r})
                break
    sp = spec(case['model'])
    for en in obs['entries']:
        if en['member'] is False:
            v.append({'signature': 'event-fired-on-non-member:%s:%s' % (case['model'], en['fn']), 'detail': en})
        if en['member'] is not None and en['fn'] in sp['infect_fns']:
            if en['ends'][0] != sp['S'] or en['ends'][1] not in sp['infectious'] or not en['isedge']:
                v.append({'signature': 'infection-event-on-stale-edge:%s:%s' % (case['model'], en['fn']), 'detail': en})
    for pi, regs in obs['registration'].items():
        for r in regs:
            if r['p'] == 0.0 and any(s['name'] == r['name'] and s['pi'] == pi and not s.get('posted') for s in obs['snaps'][1:]):
                # only meaningful when the name identifies the event uniquely
                if sum(1 for q in regs if q['name'] == r['name']) == 1:
                    v.append({'signature': 'zero-probability-event-fired:%s' % case['model'], 'detail': r})
    seen = {}
    for x in v:
        seen.setdefault(x['signature'], x)
    return list(seen.values())


def _dedup(v):
    seen = {}
    for x in v:
        seen.setdefault(x['signature'], x)
    return list(seen.values())


def expected_registration(model, fn, pv):
    """(undecorated locus name, probability) that build() must register the event function with, from the documented
    meaning of each model's parameters; None for functions this table does not know"""
    import epydemic as ep
    S, I, E, O = ep.SIR, ep.SIS, ep.SEIR, ep.Opinion
    t = {
        'SIR': {'infect': (S.SI, pv['pInfect']), 'remove': (S.INFECTED, pv['pRemove'])},
        'SIvR': {'infect': (S.SI, pv['pInfect']), 'remove': (S.INFECTED, pv['pRemove'])},
        'SIRS': {'infect': (S.SI, pv['pInfect']), 'remove': (S.INFECTED, pv['pRemove']), 'resuscept': (S.REMOVED, pv['pAux'])},
        'SIS': {'infect': (I.SI, pv['pInfect']), 'recover': (I.INFECTED, pv['pRemove'])},
        'SEIR': {'infect': (E.SI, pv['pInfect']), 'infectAsymptomatic': (E.SE, pv['pAux']),
                 'symptoms': (E.EXPOSED, pv.get('pSym', pv['pRemove'])), 'remove': (E.INFECTED, pv['pRemove'])},
        'SIR_FixedRecovery': {'infect': (S.SI, pv['pInfect'])},
        'SIS_FixedRecovery': {'infect': (I.SI, pv['pInfect'])},
        'SIR_VariableInfection': {'remove': (S.INFECTED, pv['pRemove'])},
        'Opinion': {'affect': (O.GP, pv['pInfect']), 'stifle': (O.PPT, pv['pRemove'])},
        'Vaccinate': {'affect': (O.GP, pv['pInfect']), 'stifle': (O.PPT, pv['pRemove'])},
    }
    return t.get(model, {}).get(fn)


def direct_c07(case, obs):
    if case.get('second') and not obs.get('skipped') and not obs.get('exception') and 'comps_by' in (obs.get('snaps') or [{}])[0]:
        return _dedup([v for c, o in views(case, obs) for v in direct_c07(dict(c, second=None), o)])
    import epydemic as ep
    if obs.get('skipped'):
        return []
    model = case['model']
    if obs['exception']:
        return [{'signature': 'run-raised:' + model + ':' + obs['exception'].split(':')[0], 'detail': obs['exception']}]
    sp = spec(model)
    pv = case['pv']
    v = []
    snaps = obs['snaps']
    # partition at every observable instant
    for s in snaps:
        bad = {n: c for n, c in s['comps'].items() if c not in sp['comps']}
        if bad:
            v.append({'signature': 'node-without-model-compartment:' + model, 'detail': {'t': s['t'], 'event': s['name'], 'nodes': bad}})
            break
    # every change is an arrow of the diagram
    for a, b in zip(snaps, snaps[1:]):
        for n, c in b['comps'].items():
            oc = a['comps'].get(n)
            if oc != c and (oc, c) not in sp['arrows']:
                v.append({'signature': 'illegal-transition:%s:%s>%s' % (model, str(oc).split('.')[-1], str(c).split('.')[-1]),
                          'detail': {'t': b['t'], 'event': b['name'], 'node': n}})
    # results are the true final counts and sum to the order
    fin = obs['final'].get('comps', {})
    tot = 0
    for c in sp['comps']:
        if c in obs.get('results_overwritten', ()):
            continue
        key = c if obs['inst'] is None else c     # results are keyed by compartment name
        true = sum(1 for x in fin.values() if x == c)
        got = obs['results'].get(key)
        if got is None:
            got = obs['results'].get(c + '@' + str(obs['inst']))
        if got != true:
            v.append({'signature': 'results-count-wrong:' + model, 'detail': {'compartment': c, 'reported': got, 'true': true}})
        tot += got or 0
    if tot != obs['order'] and not obs.get('results_overwritten'):
        v.append({'signature': 'results-do-not-sum-to-order:' + model, 'detail': {'sum': tot, 'order': obs['order']}})
    # infection only through an edge to a neighbour that is infectious at that very moment
    for en in obs['entries']:
        if en['fn'] in sp['infect_fns'] and isinstance(en['e'], tuple):
            changed = en.get('ends_after') and en['ends_after'][0] != en['ends'][0]
            if changed and (en['ends'][0] != sp['S'] or en['ends'][1] not in sp['infectious'] or not en['isedge']):
                v.append({'signature': 'infected-without-infectious-neighbour:' + model, 'detail': en})
    # fixed-recovery variants
    if model in ('SIR_FixedRecovery', 'SIS_FixedRecovery'):
        T = pv['tInf']
        enter = {n: 0.0 for n, c in snaps[0]['comps'].items() if c == sp['I']}
        for a, b in zip(snaps, snaps[1:]):
            for n, c in b['comps'].items():
                oc = a['comps'].get(n)
                if oc != sp['I'] and c == sp['I']:
                    enter[n] = b['t']
                elif oc == sp['I'] and c != sp['I']:
                    if b['t'] != enter.get(n, -1) + T:
                        v.append({'signature': 'fixed-recovery-wrong-delay:' + model, 'detail': {'node': n, 'entered': enter.get(n), 'left': b['t'], 'T': T}})
                    enter.pop(n, None)
        end = obs['time']
        for n, t0 in enter.items():
            due = t0 + T
            if (case['dynamics'] == 'stochastic' and due < end) or (case['dynamics'] == 'synchronous' and due <= end - 1.0):
                v.append({'signature': 'fixed-recovery-overdue:' + model, 'detail': {'node': n, 'entered': t0, 'T': T, 'TIME': end}})
        regs = [r for rs in obs['registration'].values() for r in rs if r['fn'] == 'infect']
        if not regs or any(r['kind'] != 'elem' for r in regs):
            v.append({'signature': 'infection-not-per-element:' + model, 'detail': regs})
    # every registered event sits on the locus and carries the probability that the model's parameters prescribe
    for r in obs['registration'].get(obs.get('primary_pi', 0), []):
        exp = expected_registration(model, r['fn'], pv)
        if exp is None:
            continue
        locus, p = exp
        if r['locus'].split('@')[0] != locus or r['p'] != p:
            v.append({'signature': 'registered-event-not-on-the-prescribed-locus-or-probability:%s:%s' % (model, r['fn']),
                      'detail': {'registered': [r['locus'], r['p'], r['kind']], 'prescribed': [locus, p]}})
    # vaccine gate
    if model == 'SIvR':
        for en in obs['entries']:
            if en['fn'] != 'infect':
                continue
            # vaccinated at set-up (time 0) by the harness: the truth comes from the case, not from the attributes the code wrote
            vac, tv = (en['e'][0] in case.get('vacc', [])), 0.0
            effective = bool(vac) and (tv + pv['off'] < en['t'])
            infected = en.get('ends_after') and en['ends_after'][0] == sp['I']
            if effective and pv['eff'] == 1.0 and infected:
                v.append({'signature': 'vaccine-efficacy-1-did-not-protect', 'detail': en})
            if ((not effective) or pv['eff'] == 0.0) and not infected:
                v.append({'signature': 'infection-blocked-without-effective-vaccine', 'detail': en})
    # quiescence
    early_sync = (case['dynamics'] == 'synchronous' and model in ('Opinion', 'Vaccinate') and not case.get('seq') and not case.get('second')
                  and obs['time'] is not None and obs['time'] < case['maxtime'])
    if (case['dynamics'] == 'stochastic' or early_sync) and obs['time'] is not None and obs['time'] < case['maxtime'] and not obs['final'].get('pending'):
        nodes = obs['final']['nodes']
        comp = fin
        infl = snaps[0].get('infectivity', {})
        for a, b, d in obs['final']['edges']:
            for x, y in ((a, b), (b, a)):
                if comp.get(x) == sp['S'] and comp.get(y) in sp['infectious']:
                    p_inf = pv['pInfect']
                    if model == 'SIR_VariableInfection':
                        p_inf = infl.get(tuple(sorted((a, b))), 1.0) or 0.0
                    if model == 'SEIR' and comp.get(y) == ep.SEIR.EXPOSED:
                        p_inf = pv['pAux']
                    if p_inf > 0.0:
                        v.append({'signature': 'quiescent-with-susceptible-infectious-edge:' + model, 'detail': {'edge': (x, y), 'TIME': obs['time']}})
        p_rem = pv['pRemove'] if model not in ('SIR_FixedRecovery', 'SIS_FixedRecovery') else 1.0
        if p_rem > 0.0 and model not in ('Opinion', 'Vaccinate'):
            inf = [n for n, c in comp.items() if c == (ep.SIR.INFECTED if model != 'SEIR' else ep.SEIR.INFECTED)]
            if inf:
                v.append({'signature': 'quiescent-with-infectious-node:' + model, 'detail': {'nodes': inf, 'TIME': obs['time']}})
    return _dedup(v)


def direct_c08(case, obs):
    import epydemic as ep
    if obs.get('skipped'):
        return []
    model = case['model']
    if model == 'SIvR':
        return []
    if case.get('second'):
        # two named instances share the undecorated tOccupied / tHitting attributes by the library's own declaration, so
        # the clauses about those are per single instance (stated in the claim); the occupied FLAG is each instance's own,
        # and with the infection times read off the observed compartments the forest clauses are judged per instance
        if obs['exception']:
            return [{'signature': 'run-raised:' + model + ':' + obs['exception'].split(':')[0], 'detail': obs['exception']}]
        return _dedup([x for c, o in views(case, obs) for x in direct_c08_instance(c, o)])
    if obs['exception']:
        return [{'signature': 'run-raised:' + model + ':' + obs['exception'].split(':')[0], 'detail': obs['exception']}]
    sp = spec(model)
    v = []
    snaps = obs['snaps']
    inst = obs['inst']
    occ_key = 'occupied' if inst is None else 'occupied@' + inst
    nodes = obs['final']['nodes']
    edges = obs['final']['edges']
    seeds = {n for n, c in snaps[0]['comps'].items() if c == sp['I']}
    first_inf = {}
    ever = set(seeds)
    for a, b in zip(snaps, snaps[1:]):
        for n, c in b['comps'].items():
            if a['comps'].get(n) == sp['S'] and c == sp['I']:
                ever.add(n)
                first_inf.setdefault(n, b['t'])
    occ = [(a, b, d) for a, b, d in edges if d.get(occ_key)]
    if not sp['once']:
        # SIS: the recorded hitting time is the time of the first infection
        for n, t in first_inf.items():
            if nodes[n].get('tHitting') != t:
                v.append({'signature': 'sis-hitting-time-not-first-infection:' + model, 'detail': {'node': n, 'tHitting': nodes[n].get('tHitting'), 'first': t}})
        for n in nodes:
            if n not in first_inf and nodes[n].get('tHitting') is not None:
                v.append({'signature': 'never-infected-node-has-hitting-time:' + model, 'detail': {'node': n, 'tHitting': nodes[n].get('tHitting')}})
                break
        return _dedup(v)
    # forest
    parent = {n: n for n in nodes}

    def find(x):
        while parent[x] != x:
            parent[x] = parent[parent[x]]
            x = parent[x]
        return x
    for a, b, d in occ:
        ra, rb = find(a), find(b)
        if ra == rb:
            v.append({'signature': 'occupied-edges-contain-a-cycle:' + model, 'detail': {'edge': (a, b)}})
        parent[ra] = rb
    for n in nodes:
        inc = [(a, b, d) for a, b, d in occ if n in (a, b)]
        th = nodes[n].get('tHitting')
        if n in seeds:
            if th is not None:
                v.append({'signature': 'seed-has-hitting-time:' + model, 'detail': {'node': n, 'tHitting': th}})
        elif n in ever:
            mine = [(a, b, d) for a, b, d in inc if d.get('tOccupied') == th]
            if th is None or th != first_inf.get(n):
                v.append({'signature': 'hitting-time-not-infection-time:' + model, 'detail': {'node': n, 'tHitting': th, 'infected_at': first_inf.get(n)}})
            if len(mine) != 1:
                v.append({'signature': 'infected-node-without-unique-occupied-edge:' + model,
                          'detail': {'node': n, 'tHitting': th, 'incident_occupied': [(a, b, d.get('tOccupied')) for a, b, d in inc]}})
            else:
                a, b, d = mine[0]
                par = b if a == n else a
                tp = nodes[par].get('tHitting')
                if par not in ever or (tp is not None and not (tp < th)):
                    v.append({'signature': 'infector-not-earlier:' + model, 'detail': {'node': n, 'infector': par, 't': th, 't_infector': tp}})
            # every occupied edge at n is either the one that infected n or one by which n infected a child
            for a, b, d in inc:
                other = b if a == n else a
                if d.get('tOccupied') != th and d.get('tOccupied') != nodes[other].get('tHitting'):
                    v.append({'signature': 'occupied-edge-matches-no-infection:' + model, 'detail': {'edge': (a, b), 'tOccupied': d.get('tOccupied')}})
        else:
            if inc:
                v.append({'signature': 'never-infected-node-touches-occupied-edge:' + model, 'detail': {'node': n, 'edges': [(a, b) for a, b, d in inc]}})
            if th is not None:
                v.append({'signature': 'never-infected-node-has-hitting-time:' + model, 'detail': {'node': n}})
    # one seed per tree that touches an infected node
    trees = {}
    for n in nodes:
        trees.setdefault(find(n), []).append(n)
    for r, ns in trees.items():
        if any(n in ever for n in ns):
            k = sum(1 for n in ns if n in seeds)
            if k != 1:
                v.append({'signature': 'tree-without-exactly-one-seed:' + model, 'detail': {'tree': ns, 'seeds': k}})
    sk = obs['final'].get('skeleton')
    if sk is None:
        v.append({'signature': 'skeletonise-raised:' + model, 'detail': obs['final'].get('skeleton_exc')})
    else:
        if sorted(sk['nodes']) != sorted(nodes) or sorted(tuple(sorted(e)) for e in sk['edges']) != sorted(tuple(sorted((a, b))) for a, b, d in occ):
            v.append({'signature': 'skeleton-differs-from-occupied-forest:' + model, 'detail': {'skeleton': sk['edges'], 'occupied': [(a, b) for a, b, d in occ]}})
    return _dedup(v)


def direct_c08_instance(case, obs):
    """one named instance among several on a network: its own occupied edges (flag occupied@name) against the infection
    times read off its own compartments - a forest, each infected non-seed node with exactly one occupied edge to a node
    infected earlier, every other occupied edge at it leading to a node infected later, one seed per tree"""
    model = case['model']
    sp = spec(model)
    if not sp['once']:
        return []
    v = []
    snaps = obs['snaps']
    occ_key = 'occupied@' + obs['inst']
    nodes = obs['final']['nodes']
    occ = [(a, b) for a, b, d in obs['final']['edges'] if d.get(occ_key)]
    seeds = {n for n, c in snaps[0]['comps'].items() if c == sp['I']}
    when = {n: None for n in seeds}            # None: infected from the start
    for a, b in zip(snaps, snaps[1:]):
        for n, c in b['comps'].items():
            if a['comps'].get(n) == sp['S'] and c == sp['I']:
                when.setdefault(n, b['t'])

    def earlier(x, y):
        return x in when and (when[x] is None or (when[y] is not None and when[x] < when[y]))
    parent = {n: n for n in nodes}

    def find(x):
        while parent[x] != x:
            parent[x] = parent[parent[x]]
            x = parent[x]
        return x
    for a, b in occ:
        ra, rb = find(a), find(b)
        if ra == rb:
            v.append({'signature': 'occupied-edges-contain-a-cycle:instance:' + model, 'detail': {'edge': (a, b), 'instance': obs['inst']}})
        parent[ra] = rb
    for n in nodes:
        inc = [(a, b) for a, b in occ if n in (a, b)]
        others = [b if a == n else a for a, b in inc]
        if n not in when:
            if inc:
                v.append({'signature': 'never-infected-node-touches-occupied-edge:instance:' + model, 'detail': {'node': n, 'edges': inc, 'instance': obs['inst']}})
            continue
        ups = [m for m in others if earlier(m, n)]
        if n in seeds:
            if ups:
                v.append({'signature': 'seed-has-an-infector:instance:' + model, 'detail': {'node': n, 'edges': inc, 'instance': obs['inst']}})
        elif len(ups) != 1:
            v.append({'signature': 'infected-node-without-unique-occupied-edge:instance:' + model,
                      'detail': {'node': n, 'infected_at': when[n], 'incident_occupied': [(m, when.get(m, 'never')) for m in others], 'instance': obs['inst']}})
        for m in others:
            if m not in when or not (earlier(m, n) or earlier(n, m)):
                v.append({'signature': 'occupied-edge-matches-no-infection:instance:' + model, 'detail': {'edge': (n, m), 'instance': obs['inst']}})
    trees = {}
    for n in nodes:
        trees.setdefault(find(n), []).append(n)
    for r, ns in trees.items():
        if any(n in when for n in ns):
            k = sum(1 for n in ns if n in seeds)
            if k != 1:
                v.append({'signature': 'tree-without-exactly-one-seed:instance:' + model, 'detail': {'tree': ns, 'seeds': k, 'instance': obs['inst']}})
    return v


def direct_c03(case, obs):
    """time clauses of C03 on a run of a shipped model"""
    if obs.get('skipped'):
        return []
    model = case['model']
    if obs['exception']:
        return [{'signature': 'run-raised:' + model + ':' + obs['exception'].split(':')[0], 'detail': obs['exception']}]
    v = []
    for en in obs['entries']:
        if en['t'] != en['clock']:
            v.append({'signature': 'clock-differs-from-handler-time:shipped:' + ('posted' if en['posted'] else 'stochastic'), 'detail': en})
    for en in obs.get('posted_entries', []):
        if en['t'] != en['due'] or en['clock'] != en['t']:
            v.append({'signature': 'posted-event-not-entered-at-its-own-time:shipped', 'detail': en})
            break
    if case['dynamics'] == 'synchronous' and obs.get('time') is not None and not obs.get('second'):
        # TIMESTEPS_WITH_EVENTS: the steps in which at least one event was executed (a posted event due by step k runs in step k)
        import math
        steps = {max(1, math.ceil(s['t'])) for s in obs['snaps'][1:]}
        if obs.get('steps') != len(steps):
            v.append({'signature': 'timesteps-with-events-mismatch:shipped', 'detail': {'reported': obs.get('steps'), 'steps_with_events': sorted(steps)[:12]}})
    taps = obs['snaps'][1:]
    # a repeating event's handler is given the time of the event that carries it: the Monitor's recorded observation
    # times are exactly the times at which its events were tapped
    if obs.get('monitor') and not case.get('second') and obs.get('time') is not None:
        mt = [s['t'] for s in taps if s.get('pi') == 0 and s.get('posted')]
        if list(obs['monitor']['times']) != mt:
            k = next((i for i, (a, b) in enumerate(zip(obs['monitor']['times'], mt)) if a != b), min(len(mt), len(obs['monitor']['times'])))
            v.append({'signature': 'observation-time-differs-from-its-event-time:shipped',
                      'detail': {'index': k, 'recorded': list(obs['monitor']['times'])[k:k + 3], 'event_times': mt[k:k + 3]}})
    last = 0.0
    for s in taps:
        if s['t'] < last:
            v.append({'signature': 'tap-time-ran-backwards:shipped', 'detail': {'t': s['t'], 'prev': last, 'event': s['name']}})
        last = max(last, s['t'])
        if obs['time'] is not None and s['t'] > obs['time']:
            v.append({'signature': 'event-after-end-time:shipped', 'detail': {'t': s['t'], 'TIME': obs['time']}})
    st_taps = [s for s in taps if not s.get('posted')]
    st_ent = [e for e in obs['entries'] if not e['posted']]
    if len(st_taps) != len(st_ent):
        v.append({'signature': 'tap-count-differs-from-events:shipped', 'detail': {'taps': len(st_taps), 'event_function_calls': len(st_ent)}})
    else:
        for s, e in zip(st_taps, st_ent):
            if s['t'] != e['t'] or s['e'] != e['e']:
                v.append({'signature': 'tap-time-differs-from-event-time:shipped', 'detail': {'tap': [s['t'], s['e']], 'event': [e['t'], e['e']]}})
                break
    if obs['events'] != len(taps):
        v.append({'signature': 'event-count-mismatch:shipped', 'detail': {'EVENTS': obs['events'], 'taps': len(taps)}})
    return _dedup(v)


def views(case, obs):
    """one (case, obs) pair per disease instance of the run, in the shape the direct oracles expect"""
    if not case.get('second') or obs.get('skipped') or obs.get('exception'):
        return [(case, obs)]
    out = []
    for pi, model, inst, pv in ((obs['primary_pi'], case['model'], obs['inst'], case['pv']),
                                (obs['second_pi'], case['second']['model'], case['second']['inst'], case['second']['pv'])):
        c = dict(case, model=model, inst=inst, pv=pv)
        o = dict(obs)
        o['inst'] = inst
        o['entries'] = [e for e in obs['entries'] if e.get('pi') == pi]
        o['snaps'] = [dict(s, comps=s['comps_by'][pi]) for s in obs['snaps']]
        o['final'] = dict(obs['final'], comps=obs['final']['comps_by'][pi])
        o['registration'] = {pi: obs['registration'].get(pi, [])}
        o['primary_pi'] = pi
        # results() keys are undecorated compartment names: a later instance of a model with the same compartments wins (C11)
        o['results_overwritten'] = set(spec(case['second']['model'])['comps']) if pi == obs['primary_pi'] else set()
        out.append((c, o))
    return out
