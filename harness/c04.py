"""C04: posted events fire exactly once, at their time, in posting order on ties.
Tie B: whole runs of ScriptProcess tables dominated by queue operations (also issued from inside
handlers) against Model/Kernel.v.  D: an independent reference queue (sorted list) run in lock-step
over the observation stream."""
from vlib.core import Harness
from harness import kcommon


class RefQueue:
    def __init__(self):
        self.live = {}      # id -> (t, prog, e, rep)
        self.nextid = 0

    def post(self, t, prog, e, rep=None):
        i = self.nextid
        self.nextid += 1
        self.live[i] = (t, prog, e, rep)
        return i

    def head(self):
        if not self.live:
            return None
        i = min(self.live, key=lambda k: (self.live[k][0], k))
        return i, self.live[i]


class H(Harness):
    ID = 'C04'
    ANCHOR_FILES = ['epydemic/networkdynamics.py', 'epydemic/process.py', 'epydemic/sir_model_fixed_recovery.py', 'epydemic/sis_model_fixed_recovery.py', 'epydemic/monitor.py', 'epydemic/pulsecoupled.py']
    TIE_IMPORT = kcommon.TIE_IMPORT
    CHECK_FN = kcommon.CHECK_FN
    VO_TARGETS = ['Properties/C04.vo', 'Tie/Kernel.vo']
    QUICK_N = 600
    THOROUGH_N = 6000
    RULE = ('random ScriptProcess tables dominated by queue operations: post (incl. zero delay and times preceding queued events), '
            'post repeating, un-post (fatal and non-fatal, also of the current head and of fired ids), query, post into the past, all also '
            'issued from inside handlers of posted and of stochastic events; both dynamics (stochastic incl. tables with no stochastic events: '
            'the a == 0 branch drains the queue); non-trivial = at least 3 posted events fired and at least one un-post or equal-time tie; '
            'distinct by (table, dynamics, seed)')
    TRUSTED = ['Coq 8.16.1 kernel incl. vm_compute', 'harness/kscript.py, harness/kcommon.py, vlib/oracle.py',
               'CPython heapq modelled as: pop returns the minimum under (time, id); dict as a finite map']
    ASSUMPTIONS = ['a handler program that re-posts itself with zero delay forever is outside the generator (runPendingEvents would not terminate)']

    def gen_cases(self, tier, rnd, n):
        out = []
        allow = ['post', 'post', 'post', 'unpost', 'unpost', 'query', 'postpast', 'ldiscardself']
        for i in range(n):
            dyn = rnd.choice(['stochastic', 'stochastic', 'synchronous'])
            tb = kcommon.gen_table(rnd, dyn, allow=allow, maxacts=4, rep_in_progs=(i % 4 == 0))
            if i % 3 == 0:
                for p in tb['procs']:
                    p['events'] = []       # queue only: the a == 0 branch
            out.append({'table': tb, 'dynamics': dyn, 'seed': rnd.randrange(1 << 30), 'prerun': rnd.random() < 0.25})
        return out

    def execute(self, case):
        return kcommon.run_case(case)

    def to_coq(self, case, obs):
        return kcommon.to_coq(case, obs)

    def direct(self, case, obs):
        if obs.get('skipped'):
            return []
        if obs['exception']:
            return [{'signature': 'run-raised', 'detail': obs['exception']}]
        v = []
        ref = RefQueue()
        pending_rep = None      # (t, prog, e, ddt) to re-post when the current posted handler's tap arrives
        fired = []
        for o in obs['obs']:
            k = o[0]
            if k == 'posted':
                _, i, t, prog, e = o
                j = ref.post(t, prog, e)
                if i != j:
                    v.append({'signature': 'event-id-not-sequential', 'detail': {'returned': i, 'expected': j}})
            elif k == 'postedrep':
                _, t, ddt, prog, e = o
                ref.post(t, prog, e, rep=ddt)
            elif k == 'unpost':
                _, i, r, fatal = o
                if i in ref.live:
                    if r != ref.live[i][0]:
                        v.append({'signature': 'unpost-wrong-result', 'detail': {'obs': o, 'due': ref.live[i][0]}})
                    del ref.live[i]
                else:
                    exp = 'KeyError' if fatal else None
                    if r != exp:
                        v.append({'signature': 'unpost-of-dead-id-wrong-result', 'detail': {'obs': o, 'expected': exp}})
            elif k == 'query':
                _, i, r = o
                exp = ref.live[i][0] if i in ref.live else 'KeyError'
                if r != exp:
                    v.append({'signature': 'query-wrong-result', 'detail': {'obs': o, 'expected': exp}})
            elif k == 'posted-into-past-accepted':
                v.append({'signature': 'post-into-past-accepted', 'detail': o})
            elif k == 'handler':
                _, prog, targ, clk, e, member = o
                if member is None:
                    h = ref.head()
                    if h is None:
                        v.append({'signature': 'fired-event-not-pending', 'detail': o})
                        continue
                    i, (t, hprog, he, rep) = h
                    if (t, hprog, he) != (targ, prog, e):
                        # which clause?
                        cands = [j for j, x in ref.live.items() if (x[0], x[1], x[2]) == (targ, prog, e)]
                        if cands:
                            v.append({'signature': 'fired-out-of-order', 'detail': {'fired': o, 'should_be_first': [i, t, hprog, he]}})
                            i = cands[0]
                            (t, hprog, he, rep) = ref.live[i]
                        else:
                            v.append({'signature': 'fired-event-not-pending-or-wrong-arguments', 'detail': {'fired': o, 'head': [i, t, hprog, he]}})
                            continue
                    del ref.live[i]
                    fired.append((t, i))
                    pending_rep = (t, prog, e, rep) if rep is not None else None
                else:
                    early = [(j, x) for j, x in ref.live.items() if x[0] < targ]
                    if early:
                        v.append({'signature': 'stochastic-event-before-earlier-posted-event', 'detail': {'handler': o, 'pending': early[:3]}})
            elif k == 'tap':
                if pending_rep is not None and o[3].startswith('p'):
                    t, prog, e, ddt = pending_rep
                    ref.post(t + ddt, prog, e, rep=ddt)
                    pending_rep = None
        if any(fired[i] >= fired[i + 1] for i in range(len(fired) - 1)):
            v.append({'signature': 'fired-sequence-not-increasing', 'detail': fired[:20]})
        end = obs['time']
        if end is not None and case['dynamics'] == 'stochastic':
            late = [(j, x) for j, x in ref.live.items() if x[0] < end]
            if late:
                v.append({'signature': 'due-event-not-fired-by-end', 'detail': {'TIME': end, 'pending': late[:3]}})
        seen = {}
        for x in v:
            seen.setdefault(x['signature'], x)
        return list(seen.values())

    def nontrivial(self, case, obs):
        if obs.get('skipped'):
            return None
        hs = [o for o in obs.get('obs', []) if o[0] == 'handler' and o[5] is None]
        ties = len(hs) != len({o[2] for o in hs})
        unposts = any(o[0] == 'unpost' and o[2] not in (None, 'KeyError') for o in obs.get('obs', []))
        if len(hs) >= 3 and (ties or unposts):
            return str((case['seed'], case['dynamics']))
        return None

    def sample_view(self, case, obs):
        return {'table': case['table'], 'dynamics': case['dynamics'], 'first_observations': obs.get('obs', [])[:14], 'TIME': obs.get('time')}
