"""C04: posted events fire exactly once, at their time, in posting order on ties.

Two families of cases.

kind 'script' (the default; a case without 'kind'): whole runs of ScriptProcess tables dominated by queue operations
(also issued from inside handlers).  Tie B: co-execution against Model/Kernel.v.  D: an independent reference queue
(sorted list) run in lock-step over the observation stream: ids sequential, un-post / query / nextPendingEventTime results,
a post is refused only when it lies in the past, every posted handler is the reference head, order, end-of-run clauses
(stochastic: nothing live due before TIME; synchronous: nothing live that the last executed step had to fire).

kind 'shipped': whole runs of the shipped processes that are built on posted events - SIR_FixedRecovery and
SIS_FixedRecovery (bare, as a named instance, two named instances in a ProcessSequence on one network, each with a
Monitor before or after it), SIR / SIS with a Monitor, PulseCoupledOscillator - under both dynamics with the scripted
random source, a quarter of them as the second run on the same Dynamics object.  They are observed by the generic
queue spy (harness/queuespy.py: the queue API wrapped on the Dynamics instance, every posted event function wrapped)
and judged by D only: the same reference queue run in lock-step over the spy's log, clause by clause of the property
text.  They are NOT sent to Coq (to_coq returns None, so they are not counted as compared with the model): the Coq
co-execution of these processes lives in the C07 / C12 / C20 ties."""
import json

from vlib.core import Harness
from harness import kcommon


class RefQueue:
    def __init__(self):
        self.live = {}      # id -> (t, prog, e, rep)
        self.nextid = 0

    def post(self, t, prog, e, rep=None):
        i = self.nextid
        self.nextid += 1
        self.live[i] = (t, prog, e, rep)
        return i

    def head(self):
        if not self.live:
            return None
        i = min(self.live, key=lambda k: (self.live[k][0], k))
        return i, self.live[i]


# ====================================================================== shipped processes: generation

FR = ('SIR_FixedRecovery', 'SIS_FixedRecovery')
PLAIN = ('SIR', 'SIS')
DELTAS = [0.125, 0.25, 0.25, 0.375, 0.5, 0.5, 0.75, 1.0, 1.0, 1.25, 1.5, 2.5, 4.0]
T_INF = [0.25, 0.5, 0.5, 0.75, 1.0, 1.0, 1.5, 2.0, 3.0, 0.0]
FR_SHAPES = ['bare', 'named', 'two', 'mon-first', 'mon-last', 'named-mon', 'two-mon']


def _disease(rnd, model, inst, dynamics):
    from harness import compart
    pv = compart.gen_params(rnd, dynamics)
    pv['pSeed'] = rnd.choice([0.25, 0.5, 0.5])
    pv['tInf'] = rnd.choice(T_INF)
    if model in FR:
        # enough infections (and, for SIS, re-infections of the same node) for tens of posted removals
        pv['pSeed'] = rnd.choice([0.25, 0.5, 0.5, 0.75])
        pv['pInfect'] = rnd.choice([0.5, 1.0, 1.0] + ([2.0] if dynamics == 'stochastic' else []))
    return {'model': model, 'inst': inst, 'pv': pv}


def _monitor(rnd, maxtime):
    d = rnd.choice(DELTAS)
    while maxtime / d > 48:
        d *= 2
    return {'model': 'Monitor', 'delta': d}


def gen_shipped(rnd, i):
    """the i-th shipped case of a stream: i % 4 == 0 are second runs on the same Dynamics object"""
    from harness import compart, c20
    fam = ['pulse', 'fr', 'mon', 'fr', 'pulse', 'fr', 'mon', 'pulse', 'fr', 'fr', 'mon'][(i // 4 + i) % 11]
    prerun = (i % 4 == 0)
    seed = rnd.randrange(1 << 30)
    if fam == 'pulse':
        kind = rnd.choice(['complete', 'complete', 'cycle', 'star', 'random', 'random', 'loops'])
        case = c20.gen_case(rnd)
        if rnd.random() < 0.8:
            case['graph'] = c20.gen_graph(rnd, kind, 2, 8)
            n = len(case['graph']['nodes'])
            st = list(case['states'])
            while len(st) < n:
                st.append(rnd.choice(st) if rnd.random() < 0.4 else rnd.randrange(0, 1 << 20) / float(1 << 20))
            case['states'] = st[:n]
            # keep the run at tens of firings
            cycles = case['maxtime'] / case['period']
            if n * cycles > 28:
                case['maxtime'] = case['period'] * max(1.5, 28.0 / n)
                if case['dynamics'] == 'synchronous':
                    case['maxtime'] = float(max(2, int(case['maxtime'])))
        case = {k: v for k, v in case.items() if k in ('graph', 'period', 'b', 'coupling', 'maxtime', 'dynamics', 'states', 'inst', 'decoy')}
        case.update(kind='shipped', family='pulse', seed=seed, prerun=prerun)
        return case
    dynamics = rnd.choice(['stochastic', 'synchronous'])
    maxtime = rnd.choice([2.0, 3.0, 4.0, 5.0]) if dynamics == 'synchronous' else rnd.choice([1.5, 3.0, 4.5, 6.0])
    graph = compart.gen_graph(rnd, lo=2, hi=8)
    if fam == 'fr':
        if rnd.random() < 0.75:
            graph = compart.gen_graph(rnd, lo=4, hi=8)
            maxtime = rnd.choice([3.0, 4.0, 6.0]) if dynamics == 'synchronous' else rnd.choice([3.0, 4.5, 6.0, 8.0])
        shape = FR_SHAPES[(i // 3) % len(FR_SHAPES)]
        named = shape.startswith(('named', 'two'))
        procs = [_disease(rnd, rnd.choice(FR + ('SIS_FixedRecovery',)), 'a' if named else None, dynamics)]
        if shape.startswith('two'):
            procs.append(_disease(rnd, rnd.choice(FR + FR + PLAIN), 'b', dynamics))
        if shape in ('mon-first', 'named-mon', 'two-mon') and rnd.random() < 0.6 or shape == 'mon-first':
            procs.insert(0, _monitor(rnd, maxtime))
        elif shape.endswith('mon') or shape == 'mon-last':
            procs.append(_monitor(rnd, maxtime))
    else:
        shape = 'plain-mon'
        procs = [_disease(rnd, rnd.choice(PLAIN), rnd.choice([None, None, 'a']), dynamics)]
        procs.insert(rnd.choice([0, 0, 1]), _monitor(rnd, maxtime))
    return {'kind': 'shipped', 'family': 'compart', 'shape': shape, 'procs': procs, 'graph': graph, 'dynamics': dynamics,
            'maxtime': maxtime, 'seed': seed, 'prerun': prerun}


# ====================================================================== shipped processes: running

def run_shipped(case, budget=400):
    import epyc
    import epydemic as ep
    from epydemic import Dynamics
    from vlib.oracle import Oracle, install, uninstall
    from harness import compart, c20, kscript
    from harness.queuespy import QueueSpy, Stuck

    params = {}
    if case['family'] == 'pulse':
        g = c20.make_graph(case['graph'])
        inst = case.get('inst')
        top = ep.PulseCoupledOscillator(inst) if inst is not None else ep.PulseCoupledOscillator()
        own = {ep.PulseCoupledOscillator.PERIOD: case['period'], ep.PulseCoupledOscillator.B: case['b'],
               ep.PulseCoupledOscillator.COUPLING: case['coupling']}
        if inst is None:
            params = dict(own)
        else:
            # a named instance reads its own (decorated) parameters; the plain names may carry other values
            params = dict(case.get('decoy') or {})
            top.setParameters(params, own)
        orc = Oracle(seed=case.get('seed', 0), script={'random': list(case['states'])}, strict=True)
    else:
        g = compart.make_graph(case['graph'])
        ms = compart.models()
        procs = []
        for pd in case['procs']:
            if pd['model'] == 'Monitor':
                procs.append(ep.Monitor())
                params[ep.Monitor.DELTA] = pd['delta']
            else:
                inst = pd.get('inst')
                procs.append(ms[pd['model']](inst) if inst is not None else ms[pd['model']]())
                params.update(compart.params_for(pd['model'], pd['pv'], inst))
        top = procs[0] if len(procs) == 1 else ep.ProcessSequence(procs)
        orc = Oracle(seed=case.get('seed', 0))
    top.setMaximumTime(case['maxtime'])
    dcls = ep.StochasticDynamics if case['dynamics'] == 'stochastic' else ep.SynchronousDynamics
    dyn = dcls(top, g)
    spy = QueueSpy(dyn).install()
    taps = [0]

    def tap(t, p, name, e):
        taps[0] += 1
        if taps[0] > budget:
            raise kscript.Budget('run exceeds the harness budget of %d events' % budget)
    dyn.eventFired = tap

    exc = None
    rc = None
    pre_exc = None
    try:
        if case.get('prerun'):
            # an earlier run on the SAME Dynamics object with other random choices: whatever it leaves behind
            # (queue, finder, id counter, clock) must not reach the second run
            install(Oracle(seed=case.get('seed', 0) + 1))
            # ... every other time with OTHER parameters too (shorter periods / intervals and a shorter run), so that it
            # leaves events queued for times at which the second run has posted nothing yet
            pre_params = dict(params)
            if case.get('seed', 0) % 2 == 0:
                for k, v in list(pre_params.items()):
                    if isinstance(v, float) and ('tInfected' in k or 'period' in k or 'time_delta' in k):
                        pre_params[k] = v / 4.0
                top.setMaximumTime(case['maxtime'] / 2.0)
            try:
                dyn.set(pre_params).run(fatal=True)
            except Exception as e:
                pre_exc = type(e).__name__ + ': ' + str(e)
            top.setMaximumTime(case['maxtime'])
            taps[0] = 0
        install(orc)
        try:
            rc = dyn.set(params).run(fatal=True)
        except Exception as e:   # observable behaviour: recorded, judged by D
            exc = type(e).__name__ + ': ' + str(e)
    finally:
        uninstall()
    md = (rc or {}).get(epyc.Experiment.METADATA, {}) if rc else {}
    nfire = sum(1 for r in spy.runs for o in r['log'] if o[0] == 'fire')
    obs = {'exception': exc, 'prerun_exception': pre_exc, 'runs': spy.runs, 'time': md.get(Dynamics.TIME), 'events': md.get(Dynamics.EVENTS),
           'stats': {'shipped_cases': 1, 'shipped_runs_observed': len(spy.runs), 'shipped_events_fired': nfire,
                     'shipped_' + case['family'] + '_' + case['dynamics']: 1,
                     'shipped_unposts': sum(1 for r in spy.runs for o in r['log'] if o[0] == 'unpost'),
                     'shipped_repetitions': sum(1 for r in spy.runs for o in r['log'] if o[0] == 'rep-enter')}}
    for x in (exc, pre_exc):
        if x and x.split(':')[0] in ('Budget', 'Stuck'):
            obs['skipped'] = True      # D still judges the part of the log that exists
    return obs


# ====================================================================== shipped processes: the direct oracle

def _close(a, b):
    try:
        return a == b or abs(a - b) <= 1e-9 * max(1.0, abs(a), abs(b))
    except TypeError:
        return False


def _same(a, b):
    return a is b or (type(a) == type(b) and a == b) or (isinstance(a, (list, tuple)) and isinstance(b, (list, tuple)) and list(a) == list(b))


def check_log(run, log, dynamics):
    """The property, clause by clause, on the spy's log of one run, against the reference queue."""
    v = []

    def bad(sig, **detail):
        v.append({'signature': sig + ':shipped', 'detail': detail})
    ref = RefQueue()
    rid = {}            # implementation id -> reference id (= posting sequence number, the tie-break)
    iid = {}            # and back
    state = {}          # implementation id -> 'live' | 'fired' | 'unposted'
    firetime = {}
    series = {}         # number -> {'t0','dt','e','k','carrier','initial','reposts','calls'}
    carrier_of = {}     # implementation id -> series number
    ctx = []            # nesting: ('fire', id) | ('rep', s) | ('postrep', s) | ('until', bound) | ('foreign',)
    fired = []          # (time, reference id) in firing order

    def top(kind=None):
        if kind is None:
            return ctx[-1] if ctx else None
        for c in reversed(ctx):
            if c[0] == kind:
                return c
        return None

    for o in log:
        k = o[0]
        if k == 'post':
            _, clock, t, e, name, res, _proc, exc = o
            if exc is not None or res is None:
                if exc == 'ValueError':
                    if not (t < clock):
                        bad('post-rejected-though-not-in-the-past', entry=o)
                else:
                    bad('post-wrong-result', entry=o)
                continue
            if t < clock:
                bad('post-into-past-accepted', entry=o)
            if res in state:
                bad('event-id-reused', entry=o, earlier=state[res])
                continue
            j = ref.post(t, name, e)
            rid[res] = j
            iid[j] = res
            state[res] = 'live'
            c = top()
            if c and c[0] == 'postrep':
                s = series[c[1]]
                s['initial'].append(res)
                if not (_close(t, s['t0']) and _same(e, s['e'])):
                    bad('repeating-event-initial-post-wrong', entry=o, expected=[s['t0'], s['e']])
                s['carrier'] = res
                carrier_of[res] = c[1]
            elif c and c[0] == 'fire' and c[1] in carrier_of and series[carrier_of[c[1]]]['carrier'] == c[1]:
                # made inside the firing of a repetition but outside the user's function: the library's re-post
                s = series[carrier_of[c[1]]]
                s['reposts'].append(res)
                exp = firetime.get(c[1], 0.0) + s['dt']
                if not (_close(t, exp) and _same(e, s['e'])):
                    bad('repeating-event-reposted-at-wrong-time', entry=o, fired_at=firetime.get(c[1]), dt=s['dt'], expected=exp)
                carrier_of[res] = carrier_of[c[1]]
        elif k == 'postrep':
            _, clock, t, dt, e, name, s, _proc = o
            series[s] = {'t0': t, 'dt': dt, 'e': e, 'k': 0, 'carrier': None, 'initial': [], 'reposts': [], 'calls': 0, 'clock': clock}
            ctx.append(('postrep', s))
        elif k == 'postrep-exit':
            _, s, exc = o
            if ctx and ctx[-1] == ('postrep', s):
                ctx.pop()
            S = series.get(s)
            if S is None:
                continue
            if S['t0'] < S['clock']:
                if exc != 'ValueError':
                    bad('post-into-past-accepted', entry=o, series=S)
            elif exc is not None or len(S['initial']) != 1:
                bad('repeating-event-initial-post-wrong', entry=o, posts=S['initial'])
        elif k == 'unpost':
            _, clock, i, fatal, res = o
            if state.get(i) == 'live':
                due = ref.live[rid[i]][0]
                if isinstance(res, bool) or not isinstance(res, (int, float)) or res != due:
                    bad('unpost-wrong-result', entry=o, due=due)
                del ref.live[rid[i]]
                state[i] = 'unposted'
            else:
                exp = 'KeyError' if fatal else None
                if res != exp or (exp is None and res is not None):
                    bad('unpost-of-dead-id-wrong-result', entry=o, expected=exp, fate=state.get(i, 'never posted'))
        elif k == 'query':
            _, clock, i, res, who = o
            exp = ref.live[rid[i]][0] if state.get(i) == 'live' else 'KeyError'
            if res != exp or isinstance(res, bool):
                bad('query-wrong-result' if who == 'user' else 'dead-id-still-pending' if exp == 'KeyError' else 'live-id-not-pending',
                    entry=o, expected=exp, fate=state.get(i, 'never posted'))
        elif k == 'run-until':
            ctx.append(('until', o[2]))
        elif k == 'run-until-exit':
            _, bound, n, exc = o
            if ctx and ctx[-1][0] == 'until':
                ctx.pop()
            if exc is None:
                late = [[iid[j], x[0], x[2]] for j, x in ref.live.items() if x[0] <= bound]
                if late:
                    bad('due-event-not-fired-by-run-until', bound=bound, pending=late[:4])
        elif k == 'fire':
            _, r, i, targ, earg, clock = o
            if r != run:
                bad('stale-event-from-earlier-run-fired', entry=o, this_run=run)
                ctx.append(('foreign',))
                continue
            st = state.get(i)
            if st == 'unposted':
                bad('unposted-event-fired', entry=o)
            elif st == 'fired':
                bad('event-fired-twice', entry=o)
            elif st is None:
                bad('fired-event-not-pending', entry=o)
            else:
                j = rid[i]
                t, name, e, _ = ref.live[j]
                if not (isinstance(targ, (int, float)) and targ == t and _same(earg, e)):
                    bad('handler-wrong-arguments', entry=o, posted=[t, e])
                if clock != t:
                    bad('clock-differs-from-event-time', entry=o, posted_for=t)
                h = ref.head()
                if h[0] != j:
                    bad('fired-out-of-order', fired=[i, t, e], should_be_first=[iid[h[0]], h[1][0], h[1][2]])
                u = top('until')
                if u is not None and t > u[1]:
                    bad('fired-beyond-run-until-bound', entry=o, bound=u[1])
                del ref.live[j]
                state[i] = 'fired'
                firetime[i] = t
                fired.append((t, j))
                if i in carrier_of:
                    S = series[carrier_of[i]]
                    if S['carrier'] == i:
                        S['calls'] = 0
                        S['reposts'] = []
            ctx.append(('fire', i))
        elif k == 'fire-exit':
            _, r, i, exc = o
            if ctx and ctx[-1][0] in ('fire', 'foreign'):
                c = ctx.pop()
                if c[0] == 'foreign':
                    continue
            if r == run and i in carrier_of and state.get(i) == 'fired':
                S = series[carrier_of[i]]
                if S['carrier'] == i:
                    if S['calls'] != 1:
                        bad('repeating-event-handler-not-called-once', id=i, time=firetime.get(i), calls=S['calls'])
                    if exc is None:
                        if len(S['reposts']) != 1:
                            bad('repeating-event-not-reposted-once', id=i, time=firetime.get(i), reposts=S['reposts'])
                        S['carrier'] = S['reposts'][0] if S['reposts'] else None
        elif k == 'rep-enter':
            _, r, s, targ, earg, clock = o
            ctx.append(('rep', s))
            if r != run:
                continue        # reported at the 'fire' entry that contains it
            S = series.get(s)
            if S is None:
                bad('repeating-handler-called-outside-its-event', entry=o)
                continue
            c = ctx[-2] if len(ctx) > 1 else None
            if not (c and c[0] == 'fire' and c[1] == S['carrier']):
                bad('repeating-handler-called-outside-its-event', entry=o, inside=c, carrier=S['carrier'])
            exp = S['t0'] + S['k'] * S['dt']
            if not (_close(targ, exp) and _same(earg, S['e'])):
                bad('repeating-event-wrong-time', entry=o, repetition=S['k'], expected=[exp, S['e']], t0=S['t0'], dt=S['dt'])
            S['k'] += 1
            S['calls'] += 1
        elif k == 'rep-exit':
            if ctx and ctx[-1][0] == 'rep':
                ctx.pop()
        elif k == 'end':
            _, end, clock, pending = o
            impl = sorted(([p[0], p[1]] for p in pending), key=str) if pending is not None else None
            mine = sorted(([iid[j], x[0]] for j, x in ref.live.items()), key=str)
            if impl is not None and impl != mine:
                bad('pending-set-differs-at-end', only_in_implementation=[p for p in impl if p not in mine][:6],
                    only_in_reference=[p for p in mine if p not in impl][:6])
            if end is not None and dynamics == 'stochastic':
                late = [[iid[j], x[0], x[2]] for j, x in ref.live.items() if x[0] < end]
                if late:
                    bad('due-event-not-fired-by-end', TIME=end, pending=late[:4])
    if any(fired[i] >= fired[i + 1] for i in range(len(fired) - 1)):
        bad('fired-sequence-not-increasing', fired=[[t, iid[j]] for t, j in fired[:30]])
    return v


def direct_shipped(case, obs):
    v = []
    for r in obs.get('runs', []):
        for x in check_log(r['run'], r['log'], case['dynamics']):
            x['detail']['run'] = r['run']
            v.append(x)
    for key in ('prerun_exception', 'exception'):
        exc = obs.get(key)
        if exc and exc.split(':')[0] not in ('Budget', 'Stuck'):
            v.append({'signature': 'run-raised:shipped:' + exc.split(':')[0], 'detail': {key: exc}})
    if not obs.get('skipped') and not obs.get('exception') and not obs.get('prerun_exception'):
        want = 2 if case.get('prerun') else 1
        ends = sum(1 for r in obs.get('runs', []) for o in r['log'] if o[0] == 'end')
        if len(obs.get('runs', [])) != want or ends != want:
            v.append({'signature': 'spy-saw-wrong-number-of-runs', 'kind': 'harness', 'detail': {'runs': len(obs.get('runs', [])), 'ends': ends}})
    seen = {}
    for x in v:
        seen.setdefault(x['signature'], x)
    return list(seen.values())


# ====================================================================== the harness

class H(Harness):
    ID = 'C04'
    ANCHOR_FILES = ['epydemic/networkdynamics.py', 'epydemic/process.py', 'epydemic/sir_model_fixed_recovery.py', 'epydemic/sis_model_fixed_recovery.py', 'epydemic/monitor.py', 'epydemic/pulsecoupled.py']
    TIE_IMPORT = kcommon.TIE_IMPORT
    CHECK_FN = kcommon.CHECK_FN
    VO_TARGETS = ['Properties/C04.vo', 'Tie/Kernel.vo']
    QUICK_N = 900
    THOROUGH_N = 9000
    RULE = ('two families, interleaved 2:1. (script, two thirds; tie B + D) random ScriptProcess tables dominated by queue operations: post '
            '(incl. zero delay and times preceding queued events), post repeating, un-post (fatal=True, fatal=False and the plain call '
            'unpostEvent(id) that leaves the default to decide, through Process and through Dynamics; also of the current head and '
            'of fired ids), query, Dynamics.nextPendingEventTime() (D only: left out of the Coq rendering), post into the past, all also '
            'issued from inside handlers of posted and of stochastic events; both dynamics '
            '(stochastic incl. tables with no stochastic events: the a == 0 branch drains the queue); a quarter preceded by another run on the '
            'same experiment object; non-trivial = at least 3 posted events fired and at least one un-post or equal-time tie; distinct by '
            '(table, dynamics, seed). (shipped, one third; D only, not sent to Coq) whole runs under StochasticDynamics and SynchronousDynamics '
            'with the scripted random source, on networks of 2-8 nodes (path, star, complete, cycle, random, triangle with tail), of '
            'SIR_FixedRecovery / SIS_FixedRecovery bare, as a named instance, as two named instances in one ProcessSequence (the second also '
            'plain SIR / SIS), each of these with a Monitor before or after it, of SIR / SIS with a Monitor (dyadic observation intervals '
            '0.125-4, incl. ones below the event spacing and ones not dividing the run length), infection periods 0-3 (incl. 0 and ones beyond '
            'the end of the run), and of PulseCoupledOscillator on complete, cycle, star, random and self-loop networks with the periods, '
            'couplings (incl. 0, 1 and negative), dissipations and scripted initial states (equal groups, nearly equal, 0 and almost 1) of the '
            'C20 generator; a quarter are the second run on the same Dynamics object (the first one with other random choices, both runs '
            'judged); observed by the queue spy (queue API wrapped on the Dynamics instance, every posted function wrapped, probes of '
            'pendingEventTime after every un-post, of every fired id at the next firing and of every id at the end of the run); '
            'non-trivial = at least 3 posted events fired and an un-post, an equal-time tie, a repetition or a post from inside a handler; '
            'distinct by the whole case. corpus/C04: nine shipped-process runs that exposed mutated queues during development (run first)')
    TRUSTED = ['Coq 8.16.1 kernel incl. vm_compute', 'harness/kscript.py, harness/kcommon.py, vlib/oracle.py',
               'CPython heapq modelled as: pop returns the minimum under (time, id); dict as a finite map',
               'shipped family: harness/queuespy.py (instance-level wrappers of setUp, postEvent, postRepeatingEvent, unpostEvent, '
               'pendingEventTime, runPendingEvents, simulationEnded and of every posted event function; reading of dyn._postedEventFinder '
               'at the end of a run), the case builders of harness/compart.py and harness/c20.py; that Process.postEvent & co. forward to '
               'the Dynamics instance attributes and postRepeatingEvent re-posts through self.postEvent (true of the pinned tree; a '
               'change that bypasses the wrappers does not pass silently: D then reports a pending set at the end that the reference does '
               'not know, or a repetition outside any firing)']
    ASSUMPTIONS = ['a handler program that re-posts itself with zero delay forever is outside the generator (runPendingEvents would not terminate)',
                   'shipped-process runs are judged by the direct oracle only (no Coq co-execution under C04; that is the C07 / C12 / C20 ties): '
                   'what D establishes is the property on the observed runs, not for all runs',
                   'shipped family, repeating events: D identifies the library\'s re-post as the post made inside the firing of a repetition but '
                   'outside the user\'s function, and compares repetition times with t0 + k*dt at relative 1e-9 (generated intervals are dyadic)',
                   'the end-of-run clause of the property text is demanded under stochastic dynamics only; under both dynamics every return of '
                   'runPendingEvents(b) must leave no live event due at or before b (shipped family: seen by the spy; script family under '
                   'synchronous dynamics: at the end of the run nothing may be live that is due before the last executed step TIME - 1, or '
                   'due exactly then and queued before that step\'s tranche was drawn - an event posted with zero delay by a tranche '
                   'handler of the last step legitimately stays queued)',
                   'a run (of either family) in which runPendingEvents is called thousands of times is cut short by the harness and judged on '
                   'the log so far (script family: reported as run-does-not-terminate); a script run that raised is reported by D and not '
                   'sent to Coq (never the case on the pinned tree)']

    def gen_cases(self, tier, rnd, n):
        import random
        r_script = random.Random(rnd.getrandbits(64))
        r_ship = random.Random(rnd.getrandbits(64))
        out = []
        allow = ['post', 'post', 'post', 'unpost', 'unpost', 'query', 'postpast', 'ldiscardself', 'peek']
        i = k = 0
        for pos in range(n):
            if pos % 3 == 1:
                out.append(gen_shipped(r_ship, k))
                k += 1
                continue
            rr = r_script
            dyn = rr.choice(['stochastic', 'stochastic', 'synchronous'])
            tb = kcommon.gen_table(rr, dyn, allow=allow, maxacts=4, rep_in_progs=(i % 4 == 0))
            if i % 3 == 0:
                for p in tb['procs']:
                    p['events'] = []       # queue only: the a == 0 branch
            out.append({'table': tb, 'dynamics': dyn, 'seed': rr.randrange(1 << 30), 'prerun': rr.choice([False, False, False, False, False, True, 'vary', 'vary'])})
            i += 1
        return out

    def execute(self, case):
        if case.get('kind') == 'shipped':
            return run_shipped(case)
        # a run that keeps calling runPendingEvents without ever ending (an event that is due but never fires) is cut
        # short and recorded instead of running into the per-case alarm: class-level guard, only while a script runs
        from epydemic import Dynamics
        from harness.queuespy import Stuck
        orig = Dynamics.runPendingEvents
        calls = [0]

        def guarded(self_, t):
            calls[0] += 1
            if calls[0] > 6000:
                raise Stuck('runPendingEvents called more than 6000 times')
            return orig(self_, t)
        Dynamics.runPendingEvents = guarded
        try:
            obs = kcommon.run_case(case)
        finally:
            Dynamics.runPendingEvents = orig
        obs['stats'] = {'script_cases': 1}
        return obs

    def to_coq(self, case, obs):
        if case.get('kind') == 'shipped':
            return None         # judged by D only; not counted as compared with the model
        if obs.get('exception'):
            # a run that raised (or was cut short as non-terminating) is reported by D with a concrete replay; the model is not
            # run on it: it would execute the whole table, which may be one that the observation budget would have skipped
            return None
        return kcommon.to_coq(case, obs)

    def direct(self, case, obs):
        if case.get('kind') == 'shipped':
            return direct_shipped(case, obs)
        if obs.get('skipped'):
            return []
        if obs['exception']:
            return [{'signature': 'run-does-not-terminate' if obs['exception'].startswith('Stuck') else 'run-raised', 'detail': obs['exception']}]
        v = []
        ref = RefQueue()
        pending_rep = None      # (t, prog, e, ddt) to re-post when the current posted handler's tap arrives
        fired = []
        posted_at = {}          # reference id -> position in the observation stream at which it was queued
        for idx, o in enumerate(obs['obs']):
            k = o[0]
            if k == 'posted':
                _, i, t, prog, e = o
                j = ref.post(t, prog, e)
                posted_at[j] = idx
                if i != j:
                    v.append({'signature': 'event-id-not-sequential', 'detail': {'returned': i, 'expected': j}})
            elif k == 'postedrep':
                _, t, ddt, prog, e = o
                posted_at[ref.post(t, prog, e, rep=ddt)] = idx
            elif k == 'unpost':
                _, i, r, fatal = o
                if i in ref.live:
                    if r != ref.live[i][0]:
                        v.append({'signature': 'unpost-wrong-result', 'detail': {'obs': o, 'due': ref.live[i][0]}})
                    del ref.live[i]
                else:
                    # fatal None: the plain call unpostEvent(id), which raises like fatal=True
                    exp = None if fatal is False else 'KeyError'
                    if r != exp:
                        v.append({'signature': 'unpost-of-dead-id-wrong-result' + (':default' if fatal is None else ''),
                                  'detail': {'obs': o, 'expected': exp}})
            elif k == 'query':
                _, i, r = o
                exp = ref.live[i][0] if i in ref.live else 'KeyError'
                if r != exp:
                    v.append({'signature': 'query-wrong-result', 'detail': {'obs': o, 'expected': exp}})
            elif k == 'posted-into-past-accepted':
                v.append({'signature': 'post-into-past-accepted', 'detail': o})
            elif k == 'valueerror':
                # ['valueerror', time asked for, clock at the call]: only the past may be refused
                if len(o) >= 3 and not (o[1] < o[2]):
                    v.append({'signature': 'post-rejected-though-not-in-the-past', 'detail': {'asked_for': o[1], 'clock': o[2]}})
            elif k == 'peek':
                # Dynamics.nextPendingEventTime(): the time of the first live event of the queue, None when there is none
                h = ref.head()
                exp = h[1][0] if h is not None else None
                if o[2] != exp or isinstance(o[2], bool):
                    v.append({'signature': 'next-pending-event-time-wrong', 'detail': {'obs': o, 'expected': exp,
                                                                                       'live': sorted(x[0] for x in ref.live.values())[:6]}})
            elif k == 'handler':
                _, prog, targ, clk, e, member = o
                if member is None:
                    h = ref.head()
                    if h is None:
                        v.append({'signature': 'fired-event-not-pending', 'detail': o})
                        continue
                    i, (t, hprog, he, rep) = h
                    if (t, hprog, he) != (targ, prog, e):
                        # which clause?
                        cands = [j for j, x in ref.live.items() if (x[0], x[1], x[2]) == (targ, prog, e)]
                        if cands:
                            v.append({'signature': 'fired-out-of-order', 'detail': {'fired': o, 'should_be_first': [i, t, hprog, he]}})
                            i = cands[0]
                            (t, hprog, he, rep) = ref.live[i]
                        else:
                            v.append({'signature': 'fired-event-not-pending-or-wrong-arguments', 'detail': {'fired': o, 'head': [i, t, hprog, he]}})
                            continue
                    del ref.live[i]
                    fired.append((t, i))
                    pending_rep = (t, prog, e, rep) if rep is not None else None
                else:
                    early = [(j, x) for j, x in ref.live.items() if x[0] < targ]
                    if early:
                        v.append({'signature': 'stochastic-event-before-earlier-posted-event', 'detail': {'handler': o, 'pending': early[:3]}})
            elif k == 'tap':
                if pending_rep is not None and o[3].startswith('p'):
                    t, prog, e, ddt = pending_rep
                    posted_at[ref.post(t + ddt, prog, e, rep=ddt)] = idx
                    pending_rep = None
        if any(fired[i] >= fired[i + 1] for i in range(len(fired) - 1)):
            v.append({'signature': 'fired-sequence-not-increasing', 'detail': fired[:20]})
        # "before any event with a later time": no event of any kind is executed for a time earlier than that of a posted
        # event executed before it, and a posted event does not fire when the run ends before its time
        hs = [o for o in obs['obs'] if o[0] == 'handler']
        hi = None
        for o in hs:
            if hi is not None and o[2] < hi[2]:
                v.append({'signature': 'posted-event-fired-before-an-event-with-an-earlier-time', 'detail': {'posted': hi, 'later_event': o}})
                break
            if o[5] is None and (hi is None or o[2] > hi[2]):
                hi = o
        end = obs['time']
        if end is not None:
            # under synchronous dynamics TIME is the first step not executed: the last executed step is TIME - 1
            last = end if case['dynamics'] == 'stochastic' else end - 1.0
            ahead = [o for o in hs if o[5] is None and o[2] > last]
            if ahead:
                v.append({'signature': 'posted-event-fired-although-the-run-ended-before-its-time', 'detail': {'TIME': end, 'fired': ahead[:3]}})
        if end is not None and case['dynamics'] == 'stochastic':
            late = [(j, x) for j, x in ref.live.items() if x[0] < end]
            if late:
                v.append({'signature': 'due-event-not-fired-by-end', 'detail': {'TIME': end, 'pending': late[:3]}})
        if end is not None and case['dynamics'] == 'synchronous':
            # "unless ... the run ends before t": the last executed step is TIME - 1 and its runPendingEvents fires everything
            # due by then.  What may legitimately stay queued with a time <= TIME - 1 is only an event posted for exactly
            # TIME - 1 AFTER that call returned, i.e. with zero delay from a tranche handler of the last step (false-alarm
            # log, entry 2); the harness notes where in the stream each step's tranche was drawn, which is right after it.
            last = end - 1.0
            cuts = [tr['obs_index'] for tr in obs.get('tranches', []) if tr['t'] == last]
            late = [(j, x) for j, x in ref.live.items()
                    if x[0] < last or (x[0] == last and cuts and posted_at.get(j, len(obs['obs'])) < cuts[-1])]
            if late:
                v.append({'signature': 'due-event-not-fired-by-last-step', 'detail': {'TIME': end, 'last_step': last, 'pending': late[:3]}})
        seen = {}
        for x in v:
            seen.setdefault(x['signature'], x)
        return list(seen.values())

    def nontrivial(self, case, obs):
        if case.get('kind') == 'shipped':
            if obs.get('skipped') or obs.get('exception') or not obs.get('runs'):
                return None
            log = obs['runs'][-1]['log']
            fires = [o for o in log if o[0] == 'fire']
            ties = len(fires) != len({o[3] for o in fires})
            unposts = any(o[0] == 'unpost' and isinstance(o[4], (int, float)) for o in log)
            reps = sum(1 for o in log if o[0] == 'rep-enter') >= 2
            depth = 0
            nested = False
            for o in log:
                if o[0] == 'fire':
                    depth += 1
                elif o[0] == 'fire-exit':
                    depth -= 1
                elif o[0] == 'post' and depth > 0 and o[7] is None:
                    nested = True
            if len(fires) >= 3 and (ties or unposts or reps or nested):
                return 'shipped:' + json.dumps({k: v for k, v in case.items() if not k.startswith('_')}, sort_keys=True, default=str)
            return None
        if obs.get('skipped'):
            return None
        hs = [o for o in obs.get('obs', []) if o[0] == 'handler' and o[5] is None]
        ties = len(hs) != len({o[2] for o in hs})
        unposts = any(o[0] == 'unpost' and o[2] not in (None, 'KeyError') for o in obs.get('obs', []))
        if len(hs) >= 3 and (ties or unposts):
            return str((case['seed'], case['dynamics']))
        return None

    def sample_view(self, case, obs):
        if case.get('kind') == 'shipped':
            runs = obs.get('runs') or [{'log': []}]
            return {'case': case, 'runs_observed': len(obs.get('runs') or []), 'first_log_entries_of_last_run': runs[-1]['log'][:16],
                    'last_log_entry': (runs[-1]['log'] or [None])[-1], 'TIME': obs.get('time'), 'exception': obs.get('exception')}
        return {'table': case['table'], 'dynamics': case['dynamics'], 'first_observations': obs.get('obs', [])[:14], 'TIME': obs.get('time')}
