"""C09: DrawSet is a correct ordered set with an exactly uniform O(log n) draw.

Tie B, level 1: drive a real epydemic.DrawSet through an operation sequence (add, discard, remove,
draw with scripted rng.integers values, membership, iteration); after every call record the result,
the arguments of the rng.integers calls, len(), empty() and - at the dump points - the whole tree in
preorder with the stored _height/_leftSize/_rightSize.  Coq replays the sequence on Model/Bbt.v and
compares everything exactly (Tie/C09.v check_case).
Level 2 (extra obligation, Tie/C09.v check_case_l2): the dumped trees satisfy the boolean Good invariant
and their in-order lists are the abstract set, without reference to the tree model.
D: reference Python set in lock-step; BST order, stored sizes/heights against recomputed ones, balance,
parent links, the AVL height bound, the exact draw distribution obtained by enumerating every
outcome of every rng.integers call with Fraction weights, and the cost clause: the number of entries
into TreeNode functions made by every single add / discard / remove / draw / in / len / empty call is
at most a constant times the height (per rotation performed), and by an iteration a constant times n
(COST below; counted by wrappers that are installed for one case and removed in a finally).

Elements: ints, int pairs (a, b) with 0 <= b < K which the Coq side sees as a*K + b
(order isomorphism, Properties/C09.v C09_pair_order), and string labels / pairs of string labels,
which the Coq side sees as their rank in the sorted universe of the case."""
import hashlib
import itertools
import os
import random
from fractions import Fraction

from vlib import coqlit as L
from vlib import core
from vlib.core import Harness
from vlib.oracle import Oracle, install

K = 64          # second components of pairs live in [0, K)


def elem(x):
    return tuple(x) if isinstance(x, (list, tuple)) else x


def enc(x):
    if isinstance(x, tuple):
        return x[0] * K + x[1]
    return x


class NeedInt(BaseException):
    """raised by the enumerating oracle when draw() asks for an integer beyond the fixed prefix"""

    def __init__(self, lo, hi):
        self.lo, self.hi = lo, hi


class EnumOracle(Oracle):
    def __init__(self, prefix):
        super().__init__(seed=0)
        self.prefix = list(prefix)
        self.k = 0

    def integers(self, lo, hi=None):
        if hi is None:
            lo, hi = 0, lo
        lo = int(lo); hi = int(hi)
        if self.k >= len(self.prefix):
            raise NeedInt(lo, hi)
        v = self.prefix[self.k]
        self.k += 1
        self.log.append(('integers', lo, hi, v))
        return v


class Switch:
    """installed once through vlib.oracle.install; every draw is then served by the oracle in .cur"""
    cur = None

    def integers(self, lo, hi=None):
        return self.cur.integers(lo, hi)

    def __getattr__(self, name):          # random / choice / shuffle are not used by DrawSet
        return getattr(self.cur, name)


_switch = Switch()


def use(oracle):
    import epydemic.bbt
    _switch.cur = oracle
    if epydemic.bbt.rng is not _switch:
        install(_switch)
    return oracle


def _outcome(f):
    try:
        return ('elem', f())
    except NeedInt:
        raise
    except Exception as ex:   # observable: e.g. AttributeError on a missing child
        return ('raise', type(ex).__name__)


def brute_distribution(s):
    """exact law of s.draw() when each rng.integers(n) is uniform on its range and the calls are
    independent, by enumerating every outcome of every call (no knowledge of the code at all;
    the number of paths grows like n^log n, so only for small sets).
    Returns ({outcome: Fraction}, max number of requests on a path)"""
    dist = {}
    deepest = 0
    stack = [((), Fraction(1))]
    while stack:
        prefix, w = stack.pop()
        use(EnumOracle(prefix))
        try:
            out = _outcome(s.draw)
        except NeedInt as n:
            for i in range(n.lo, n.hi):
                stack.append((prefix + (i,), w / (n.hi - n.lo)))
            continue
        deepest = max(deepest, len(prefix))
        dist[out] = dist.get(out, Fraction(0)) + w
    return dist, deepest


class Delegated:
    """stands for 'whatever node.draw() returns': handed back by the instrumented TreeNode.draw
    for a nested call, so that the law can be assembled bottom-up in O(n log n) draws"""

    def __init__(self, node):
        self.node = node


def node_distribution(root):
    """the same exact law for sets of any size: for every node enumerate only the outcomes of the
    requests made by that node's own draw() frame; a nested child.draw() is cut off and replaced by
    the child's (already computed) law, which is exact because the calls are independent and draw()
    has no side effects.  If a result is not handed back unchanged the method does not apply and
    None is returned (the caller then has only the brute-force enumeration)."""
    from epydemic import TreeNode
    orig = TreeNode.draw
    depth = [0]

    def cut(node):
        if depth[0] > 0:
            return Delegated(node)
        depth[0] += 1
        try:
            return orig(node)
        finally:
            depth[0] -= 1
    laws = {}          # id(node) -> (dist, deepest)
    order = []

    def post(n):
        if n is None:
            return
        post(n._left); post(n._right); order.append(n)
    post(root)
    TreeNode.draw = cut
    try:
        for node in order:
            dist = {}
            deepest = 0
            handed = {}
            stack = [((), Fraction(1))]
            while stack:
                prefix, w = stack.pop()
                use(EnumOracle(prefix))
                try:
                    out = _outcome(node.draw)
                except NeedInt as n:
                    for i in range(n.lo, n.hi):
                        stack.append((prefix + (i,), w / (n.hi - n.lo)))
                    continue
                if out[0] == 'elem' and isinstance(out[1], Delegated):
                    if id(out[1].node) not in laws:          # delegated to something that is not a descendant
                        return None
                    # total weight handed to this child (its law is mixed in once, below: same sum, exact)
                    tw, tp = handed.get(id(out[1].node), (Fraction(0), 0))
                    handed[id(out[1].node)] = (tw + w, max(tp, len(prefix)))
                else:
                    dist[out] = dist.get(out, Fraction(0)) + w
                    deepest = max(deepest, len(prefix))
            for child, (tw, tp) in handed.items():
                sub = laws[child]
                for o, p in sub[0].items():
                    dist[o] = dist.get(o, Fraction(0)) + tw * p
                deepest = max(deepest, tp + sub[1])
            if any(isinstance(o[1], Delegated) for o in dist):
                return None
            laws[id(node)] = (dist, deepest)
    finally:
        TreeNode.draw = orig
    return laws[id(root)]


def draw_distribution(s):
    """(law, deepest path, method).  Small sets: brute force, and the bottom-up law must agree with it."""
    n = len(s)
    brute = brute_distribution(s) if n <= 15 else None
    fast = node_distribution(s._root)
    if brute is not None:
        # brute force is the ground truth; a disagreement is counted in the evidence (never seen)
        return brute[0], brute[1], 'brute' if fast == brute else 'brute-only'
    if fast is not None:
        return fast[0], fast[1], 'bottom-up'
    return None, 0, 'not-enumerable'


def walk(root):
    """observe the tree: preorder dump (data, _height, _leftSize, _rightSize) with None for missing
    children, real height (in nodes), and the list of structural faults"""
    dump = []
    faults = []

    def rec(n, parent, lo, hi):
        # returns (height in nodes, size)
        if n is None:
            dump.append(None)
            return 0, 0
        dump.append((n._data, n._height, n._leftSize, n._rightSize))
        if n._parent is not parent:
            faults.append('parent-link at %r' % (n._data,))
        if (lo is not None and not lo < n._data) or (hi is not None and not n._data < hi):
            faults.append('bst-order at %r' % (n._data,))
        hl, nl = rec(n._left, n, lo, n._data)
        hr, nr = rec(n._right, n, n._data, hi)
        if n._leftSize != nl or n._rightSize != nr:
            faults.append('stored-size at %r: (%d,%d) real (%d,%d)' % (n._data, n._leftSize, n._rightSize, nl, nr))
        if n._height != max(hl, hr):
            faults.append('stored-height at %r: %d real %d' % (n._data, n._height, max(hl, hr)))
        if abs(hl - hr) > 1:
            faults.append('balance at %r: %d vs %d' % (n._data, hl, hr))
        return 1 + max(hl, hr), nl + 1 + nr

    h, n = rec(root, None, None, None)
    return dump, h, n, faults


_counts = {'rot': 0, 'nested': 0, 'depth': 0, 'visits': 0}


def instrument():
    """count, without changing behaviour, every entry into a function of TreeNode (whatever methods the
    class has: add, find, discard, draw, __len__, _updateHeightAndSizes, _findUnbalanced, _leftmost,
    _inOrder, ... - one entry is one visit of one tree entry) and, separately, the rotations and the nested
    repairs.  Returns the function that puts the original methods back; execute() calls it in a finally."""
    import types
    from epydemic import TreeNode
    saved = {}

    def counted(f):
        def visit(*a, **kw):
            _counts['visits'] += 1
            return f(*a, **kw)
        visit._c09 = True
        return visit

    def counted_rotation(f):
        def visit(*a, **kw):
            _counts['visits'] += 1
            _counts['rot'] += 1
            if _counts['depth'] > 0:
                _counts['nested'] += 1
            _counts['depth'] += 1
            try:
                return f(*a, **kw)
            finally:
                _counts['depth'] -= 1
        visit._c09 = True
        return visit
    for name, f in list(vars(TreeNode).items()):
        if isinstance(f, types.FunctionType) and not getattr(f, '_c09', False):
            saved[name] = f
            setattr(TreeNode, name, counted_rotation(f) if name == '_rotate' else counted(f))

    def restore():
        for name, f in saved.items():
            setattr(TreeNode, name, f)
        _counts['depth'] = 0
    return restore


# the cost clause ("every operation visits O(log n) entries"), made concrete: with H the height of the tree in
# nodes (the larger of before and after the call) and r the number of rotations the call performed, a call of
# kind k may enter at most COST[k] * (H + 2) * (1 + r) TreeNode functions; iteration, which has to produce
# n elements, at most COST_ITER * (n + 1).  H <= 2 log2(n+1) + 1 is checked separately ('height-bound'), so
# this is O(log n) per walk.  The constants are TWICE what can be derived for the code as it stands (and more
# than twice what any generated history reaches), counting every function of TreeNode as it is today:
#   add      <= H add + 1 __init__ + (1+3H) _updateHeights walk + 1 _rebalance + 2(H+1) _findUnbalanced/isUnbalanced
#               = 6H+5, and every rotation <= 1 + 2 _tallerSubtree + 3*3 _updateHeightAndSizes/__len__ + 2 isUnbalanced
#               + (1+3H) walk = 3H+15                                              -> 7 (H+2) (1+r) covers both
#   discard  <= (H+1) discard + H _leftmost/_rightmost + (1+3H) + (1+r) _rebalance + 2(H+r) _findUnbalanced
#               = 7H+3+3r, every rotation 3H+15 as above                           -> 7 (H+2) (1+r)
#   draw     <= H draw + H __len__ ;  in <= H find ;  len <= 1 ;  empty 0 ;  iteration = 1 __iter__ + n _inOrder
# The factor (1 + r) is there because the code re-walks to the root after every rotation (nested repairs
# included), which is the O(log^2 n) worst case of a deletion that DESIGN.md states is not a theorem; a bound
# in H alone could alarm on the unchanged code for an adversarial tree, this one cannot.
COST = {'A': 14, 'D': 14, 'R': 14, 'Dr': 4, 'M': 2, 'len': 2, 'empty': 2}
COST_ITER = 2


# insertion orders of {0..7} after which deleting one element makes the rotation's nested repair fire
# (bbt.py:243-246: left-heavy node whose left child is level; found by search, see RULE)
NESTED_SEEDS = [((3, 2, 0, 5, 7, 6, 1, 4), 6), ((5, 7, 3, 2, 6, 0, 1, 4), 7), ((5, 6, 3, 7, 2, 1, 0, 4), 7),
                ((2, 3, 1, 6, 5, 7, 0, 4), 7), ((1, 7, 6, 5, 2, 3, 0, 4), 6), ((6, 1, 2, 5, 7, 3, 0, 4), 6),
                ((2, 6, 7, 0, 5, 3, 4, 1), 7), ((6, 2, 5, 7, 1, 3, 0, 4), 7)]


class H(Harness):
    ID = 'C09'
    ANCHOR_FILES = ['epydemic/drawset.py', 'epydemic/bbt.py', 'epydemic/loci.py']
    TIE_IMPORT = 'From EpyV Require Import Tie.C09 Model.Bbt.'
    CHECK_FN = 'EpyV.Tie.C09.check_case'
    QUICK_N = 450
    THOROUGH_N = 4000
    CASE_TIMEOUT = 30
    ALLOWED_AXIOMS = set()
    RULE = ('operation sequences on one DrawSet: add / discard / remove / draw (scripted rng.integers) / in / iter; '
            'ints, int pairs, string labels or pairs of string labels; universe 4-200; length 1-150 (thorough 400); add-heavy then discard-heavy phases, duplicates, '
            'absent removals, drain to empty and refill, 6% large sets (150-300 elements inserted in random or monotone order, then 30-80 mixed operations), order-preserving copies of 8 seed histories on which the nested repair inside _rotate fires; exhaustive: all add/discard sequences of length 4 over 3 elements and '
            'length 3 with remove over 4 elements, all insertion orders x deletion orders of sets of size <= 4 '
            '(thorough: length 5 over 4 elements, sets of size <= 5); a case is non-trivial when the set reached size >= 3')
    TRUSTED = ['Coq 8.16.1 kernel incl. vm_compute', 'harness/c09.py and vlib (scripted rng.integers, tree dump through the private attributes of TreeNode)',
               'Python == and < on ints, strings and tuples of them are a decidable strict total order (int pairs are handed to Coq as a*64+b, strings and string pairs as their rank in the sorted universe of the case)',
               'the cost clause is observed as the number of entries into functions of TreeNode per public call (a loop that walks the tree without calling a TreeNode function is not counted)']
    ASSUMPTIONS = ['numpy Generator.integers(n) is uniform on 0..n-1 and successive calls are independent (the law of draw is proved and enumerated under this contract)',
                   'elements are compared only through == and < and these form a strict total order']

    # ------------------------------------------------------------------ generation
    def _labels(self, rnd, U):
        """U distinct string node labels: numbered names (whose order is not the numeric one), short words over a
        small alphabet (many are prefixes of one another, upper case sorts before lower case), now and then the
        empty string and a non-ASCII name"""
        style = rnd.choice(['numbered', 'words', 'both'])
        out = set()
        if style != 'words':
            pre = rnd.choice(['n', 'node', 'v_', ''])
            out.update('%s%d' % (pre, i) for i in range(U if style == 'numbered' else U // 2))
        if rnd.random() < 0.3:
            out.update(['', '\u00e9mile', 'Zo\u00eb'][:rnd.randrange(1, 4)])
        while len(out) < U:
            out.add(''.join(rnd.choice('abAB1_') for _ in range(rnd.randrange(1, 5))))
        out = sorted(out)
        rnd.shuffle(out)
        return out[:U]

    def _universe(self, rnd, kind, U):
        if kind == 'int':
            base = rnd.choice([0, 0, -3, 1000])
            return [base + i for i in range(U)]
        if kind == 'str':
            return self._labels(rnd, U)
        m = 2
        while m * m < U:
            m += 1
        if kind == 'strpair':     # edges between string-labelled nodes, both orientations possible
            lab = self._labels(rnd, m)
            allp = [(a, b) for a in lab for b in lab]
            rnd.shuffle(allp)
            return allp[:U]
        allp = [(a, b) for a in range(m) for b in range(m)]
        rnd.shuffle(allp)
        return allp[:U]

    def _random_case(self, rnd, tier):
        kind = rnd.choice(['int'] * 12 + ['pair'] * 4 + ['str'] * 3 + ['strpair'])
        U = rnd.choice([4, 6, 10, 20, 50, 100, 200])
        lens = [1, 5, 12, 30, 60, 100, 150] if tier == 'quick' else [5, 12, 30, 60, 100, 150, 250, 400]
        n = rnd.choice(lens)
        n = min(n, 8 * U)
        big = rnd.random() < 0.06
        if big:
            # a large set first (150-300 distinct elements), then a short mixed history on it: the sizes at which
            # an operation that touches every entry is far above any multiple of the height
            U = rnd.choice([300, 400])
            n = rnd.choice([30, 50, 80])
        uni = self._universe(rnd, kind, U)
        ops = []
        present = set()
        outside = {'pair': (-1, 5), 'str': '~none', 'strpair': ('~', 'none')}

        def pick():
            if rnd.random() < 0.04:      # outside the universe
                return outside[kind] if kind != 'int' else uni[0] - 1 - rnd.randrange(3)
            return rnd.choice(uni)

        def emit(k, x=None):
            if k in ('A', 'D', 'R', 'M'):
                ops.append([k, list(x) if isinstance(x, tuple) else x])
                if k == 'A':
                    present.add(x)
                elif k in ('D', 'R'):
                    present.discard(x)
            elif k == 'Dr':
                ops.append(['Dr', [rnd.randrange(1 << 20) for _ in range(16)]])
            else:
                ops.append(['I', None])

        style = rnd.choice(['phases', 'phases', 'phases', 'drain', 'drain', 'mixed', 'mixed', 'nested'])
        split = int(n * rnd.choice([0.5, 0.6, 0.7]))
        if big:
            style = rnd.choice(['mixed', 'phases'])
            first = rnd.sample(uni, rnd.choice([150, 220, 300]))
            if rnd.random() < 0.3:
                first.sort(reverse=rnd.random() < 0.5)      # monotone insertion: a rotation at almost every step
            for x in first:
                emit('A', x)
            n += len(first)
            split = len(first) if style == 'phases' else split + len(first)
        if style == 'nested' and len(uni) >= 8:
            # an order-preserving copy of a seed that makes the nested repair of _rotate fire
            seq, d = rnd.choice(NESTED_SEEDS)
            lab = sorted(rnd.sample(sorted(uni), 8))
            for x in seq:
                emit('A', lab[x])
            emit('D', lab[d])
            n += 9
            split += 9
        i = 0
        while len(ops) < n:
            i = len(ops)
            r = rnd.random()
            if r < 0.06:
                emit('Dr')
            elif r < 0.10:
                emit('M', pick())
            elif r < 0.12:
                emit('I')
            else:
                if style == 'mixed':
                    addp = 0.5
                else:
                    addp = 0.8 if i < split else 0.2
                if rnd.random() < addp:
                    emit('A', pick())
                else:
                    x = pick()
                    if present and rnd.random() < 0.5:
                        x = rnd.choice(sorted(present))
                    emit(rnd.choice(['D', 'D', 'R']), x)
            if style == 'drain' and len(ops) == split:
                order = sorted(present)
                rnd.shuffle(order)
                for x in order:
                    emit(rnd.choice(['D', 'R']), x)
                emit('Dr')
                emit('R', pick())
                style = 'refill'
                n += len(order) + 2
                split = (len(ops) + n) // 2 + 1      # add-heavy again, then discard-heavy
        L_ = len(ops)
        if L_ <= 12:
            dump_at = list(range(L_))
        elif big:
            dump_at = sorted(set(rnd.sample(range(L_), 2) + [L_ - 1]))
        else:
            dump_at = sorted(set(rnd.sample(range(L_), 6) + [L_ - 1]))
        draws = [j for j, o in enumerate(ops) if o[0] == 'Dr']
        dist_at = sorted(set(rnd.sample(draws, min(2, len(draws))) + [L_ - 1]))
        c = {'kind': kind, 'ops': ops, 'dump_at': dump_at, 'dist_at': dist_at, 'cls': rnd.choice(['DrawSet', 'DrawSet', 'Locus'])}
        # iterations that are begun and abandoned (a peek at the first element) before every other call: they change nothing
        c['peeks'] = rnd.random() < 0.4
        if rnd.random() < 0.1 and not big:
            # DrawSet(including, excluding): the constructor adds the elements in set-iteration order
            inc = [rnd.choice(uni) for _ in range(rnd.randrange(0, 25))]
            exc = [rnd.choice(uni) for _ in range(rnd.randrange(0, 6))]
            c['cls'] = 'DrawSet'
            c['init'] = {'including': [list(x) if isinstance(x, tuple) else x for x in inc],
                         'excluding': [list(x) if isinstance(x, tuple) else x for x in exc] if rnd.random() < 0.7 else None}
            c['ops'] = [['I', None]] + ops
            c['dump_at'] = [0] + [j + 1 for j in dump_at]
            c['dist_at'] = [j + 1 for j in dist_at]
        return c

    def gen_cases(self, tier, rnd, n):
        return [self._random_case(rnd, tier) for _ in range(n)]

    def exhaustive_cases(self, tier):
        out = []

        def case(ops, dist=False):
            n = len(ops)
            return {'kind': 'int', 'ops': ops, 'dump_at': list(range(n)), 'dist_at': [n - 1] if dist else []}
        if tier == 'thorough':
            seq_len, seq_u, rem_len, set_n = 5, 4, 4, 5
        else:
            seq_len, seq_u, rem_len, set_n = 4, 3, 3, 4
        # all add/discard sequences (every prefix is checked because every step is dumped)
        alpha = [[k, x] for k in 'AD' for x in range(seq_u)]
        for seq in itertools.product(alpha, repeat=seq_len):
            out.append(case([list(o) for o in seq]))
        # with remove and its KeyError
        alpha = [[k, x] for k in 'ADR' for x in range(4)]
        for seq in itertools.product(alpha, repeat=rem_len):
            if any(o[0] == 'R' for o in seq):
                out.append(case([list(o) for o in seq]))
        # all insertion orders x all deletion orders of {0..m-1}
        for m in range(1, set_n + 1):
            for ins in itertools.permutations(range(m)):
                for dele in itertools.permutations(range(m)):
                    ops = [['A', x] for x in ins] + [['Dr', [7, 11, 13, 17, 19]]] + [['D', x] for x in dele]
                    c = case(ops)
                    c['dist_at'] = [m - 1] + ([m + 1 + m // 2] if m >= 3 else [])
                    out.append(c)
        for seq, d in NESTED_SEEDS:
            out.append(case([['A', x] for x in seq] + [['D', d], ['Dr', [3, 1, 4, 1, 5]], ['I', None]], dist=True))
        return out

    # ------------------------------------------------------------------ implementation side
    def execute(self, case):
        restore = instrument()
        try:
            return self._execute(case)
        finally:
            restore()

    def _execute(self, case):
        from epydemic import DrawSet, Locus
        before = dict(_counts)
        init = case.get('init')
        init_order = []
        if init:
            inc = [elem(x) for x in init['including']]
            exc = None if init['excluding'] is None else [elem(x) for x in init['excluding']]
            s = DrawSet(inc, exc)
            # the same set built the same way iterates in the same order (CPython, PYTHONHASHSEED fixed)
            os_ = set(inc)
            if exc is not None:
                os_.difference_update(set(exc))
            init_order = list(os_)
        else:
            s = Locus('c09') if case.get('cls') == 'Locus' else DrawSet()
        dump_at = set(case['dump_at'])
        dist_at = set(case['dist_at'])
        steps = []
        universe = sorted({elem(o[1]) for o in case['ops'] if o[0] in ('A', 'D', 'R', 'M')} | set(init_order))
        maxsize = 0
        methods = {}
        height = walk(s._root)[1]
        cost_checked = 0
        for i, (k, arg) in enumerate(case['ops']):
            st = {'reqs': [], 'ints': [], 'h_before': height}
            if case.get('peeks') and i % 2 == 0:
                it = iter(s)
                next(it, None)
                del it
            _counts['visits'] = 0
            rot0 = _counts['rot']
            try:
                if k == 'A':
                    s.add(elem(arg)); st['res'] = ['unit']
                elif k == 'D':
                    s.discard(elem(arg)); st['res'] = ['unit']
                elif k == 'R':
                    try:
                        s.remove(elem(arg)); st['res'] = ['unit']
                    except KeyError:
                        st['res'] = ['KeyError']
                elif k == 'Dr':
                    orc = use(Oracle(seed=0, script={'integers': arg}))
                    try:
                        e = s.draw()
                        st['res'] = ['drew', e]
                    except ValueError:
                        st['res'] = ['ValueError']
                    log = orc.values('integers')
                    st['reqs'] = [hi if lo == 0 else 4999 for (_, lo, hi, v) in log]
                    st['ints'] = [v for (_, lo, hi, v) in log]
                elif k == 'M':
                    st['res'] = ['bool', elem(arg) in s]
                else:
                    st['res'] = ['list', list(iter(s))]
            except Exception as ex:      # observable: the call raised something it should not
                st['res'] = ['exception', type(ex).__name__ + ': ' + str(ex)[:80]]
            st['visits'] = _counts['visits']
            st['rot'] = _counts['rot'] - rot0
            _counts['visits'] = 0
            try:
                st['len'] = len(s)
            except Exception as ex:
                st['len'] = -1
            st['visits_len'] = _counts['visits']
            _counts['visits'] = 0
            st['empty'] = s.empty()
            st['visits_empty'] = _counts['visits']
            cost_checked += 3
            dump, h, n, faults = walk(s._root)
            height = h
            st['height'] = h
            st['size'] = n
            st['faults'] = faults
            maxsize = max(maxsize, n)
            if i in dump_at:
                st['dump'] = dump
                try:
                    st['iter'] = list(iter(s))
                    st['members'] = [x in s for x in universe]
                except Exception as ex:
                    st['iter'] = ['exception', type(ex).__name__]
                    st['members'] = []
            if i in dist_at and s._root is not None:
                dist, deepest, how = draw_distribution(s)
                methods[how] = methods.get(how, 0) + 1
                if dist is not None:
                    st['dist'] = [[list(o), str(p)] for o, p in sorted(dist.items(), key=lambda kv: repr(kv[0]))]
                    st['dist_depth'] = deepest
            steps.append(st)
        return {'steps': steps, 'universe': universe, 'maxsize': maxsize, 'init_order': init_order,
                'stats': {'ops': len(steps), 'rotations': _counts['rot'] - before['rot'],
                          'nested_rotations': _counts['nested'] - before['nested'],
                          'draws': sum(1 for o in case['ops'] if o[0] == 'Dr'),
                          'laws_brute_force': methods.get('brute', 0), 'laws_bottom_up': methods.get('bottom-up', 0),
                          'laws_methods_disagree': methods.get('brute-only', 0), 'laws_not_enumerable': methods.get('not-enumerable', 0),
                          'pair_cases': 1 if case['kind'] == 'pair' else 0,
                          'str_cases': 1 if case['kind'] == 'str' else 0, 'strpair_cases': 1 if case['kind'] == 'strpair' else 0,
                          'sets_of_150_or_more': 1 if maxsize >= 150 else 0, 'calls_with_cost_bound': cost_checked,
                          'locus_cases': 1 if isinstance(s, Locus) else 0, 'constructor_cases': 1 if init else 0}}

    # ------------------------------------------------------------------ D
    def direct(self, case, obs):
        v = []
        ref = set()
        init = case.get('init')
        if init:      # DrawSet(including, excluding) holds including minus excluding
            ref = {elem(x) for x in init['including']} - {elem(x) for x in (init['excluding'] or [])}
        uni = [elem(x) for x in obs['universe']]

        def bad(sig, i, detail):
            v.append({'signature': sig, 'detail': {'step': i, 'op': case['ops'][i], 'what': detail}})
        for i, ((k, arg), st) in enumerate(zip(case['ops'], obs['steps'])):
            res = st['res']
            x = elem(arg) if k in ('A', 'D', 'R', 'M') else None
            size_before = len(ref)
            if res[0] == 'exception':
                bad('unexpected-exception', i, res[1])
            if k == 'A':
                ref.add(x)
            elif k == 'D':
                ref.discard(x)
            elif k == 'R':
                if x in ref:
                    ref.discard(x)
                    if res[0] != 'unit':
                        bad('remove-present-raised', i, res)
                elif res[0] != 'KeyError':
                    bad('remove-absent-no-KeyError', i, res)
            elif k == 'Dr':
                if not ref:
                    if res[0] != 'ValueError':
                        bad('draw-empty-no-ValueError', i, res)
                elif res[0] != 'drew' or elem(res[1]) not in ref:
                    bad('draw-not-a-member', i, res)
                # O(log n): every request is on one root-to-leaf path of a height-balanced tree
                if 2 ** (len(st['reqs']) // 2) > len(ref) + 1:
                    bad('draw-too-many-requests', i, st['reqs'])
                if any(not (2 <= r <= len(ref)) for r in st['reqs']):
                    bad('draw-request-range', i, st['reqs'])
            elif k == 'M':
                if res != ['bool', x in ref]:
                    bad('membership', i, res)
            elif k == 'I':
                if res[0] != 'list' or [elem(y) for y in res[1]] != sorted(ref):
                    bad('iteration-order', i, res)
            # every operation visits O(log n) entries (see COST)
            hh = max(st['h_before'], st['height']) + 2
            if k == 'I':
                if st['visits'] > COST_ITER * (len(ref) + 1):
                    bad('cost-iteration', i, {'entries_visited': st['visits'], 'n': len(ref)})
            elif st['visits'] > COST[k] * hh * (1 + st['rot']):
                bad('cost-' + {'A': 'add', 'D': 'discard', 'R': 'remove', 'Dr': 'draw', 'M': 'contains'}[k], i,
                    {'entries_visited': st['visits'], 'allowed': COST[k] * hh * (1 + st['rot']), 'height': hh - 2,
                     'rotations': st['rot'], 'n_before': size_before, 'n_after': len(ref)})
            if st['visits_len'] > COST['len'] * hh:
                bad('cost-len', i, {'entries_visited': st['visits_len'], 'allowed': COST['len'] * hh, 'n': len(ref)})
            if st['visits_empty'] > COST['empty'] * hh:
                bad('cost-empty', i, {'entries_visited': st['visits_empty'], 'allowed': COST['empty'] * hh, 'n': len(ref)})
            if st['len'] != len(ref):
                bad('len', i, {'len': st['len'], 'expected': len(ref)})
            if st['empty'] != (not ref):
                bad('empty', i, st['empty'])
            if st['faults']:
                bad('tree:' + st['faults'][0].split(' at ')[0], i, st['faults'][:5])
            if st['size'] != len(ref):
                bad('tree-size', i, {'nodes': st['size'], 'expected': len(ref)})
            if 2 ** (st['height'] // 2) > len(ref) + 1:
                bad('height-bound', i, {'height': st['height'], 'n': len(ref)})
            if 'dump' in st:
                if [elem(y) for y in st['iter']] != sorted(ref):
                    bad('iteration-order', i, st['iter'])
                if st['members'] != [y in ref for y in uni]:
                    bad('membership', i, st['members'])
            if 'dist' in st:
                got = {(o[0], elem(o[1])): Fraction(p) for o, p in st['dist']}
                want = {('elem', y): Fraction(1, len(ref)) for y in ref}
                if got != want:
                    bad('draw-distribution', i, {'got': st['dist'], 'n': len(ref)})
                if 2 ** (st['dist_depth'] // 2) > len(ref) + 1:
                    bad('draw-too-many-requests', i, st['dist_depth'])
        return v

    # ------------------------------------------------------------------ Coq side
    def _encoder(self, case, obs):
        """elements as the Coq side sees them: ints as they are, int pairs as a*K+b, and strings / string pairs by
        their rank in the sorted universe of the case (all three are order isomorphisms on the elements that
        occur; the model uses nothing but the order).  Something that is not in the universe at all - which
        only a broken implementation can hand back - becomes -1 and disagrees with the model."""
        if case['kind'] in ('str', 'strpair'):
            rank = {elem(x): j for j, x in enumerate(obs['universe'])}
            return lambda x: rank.get(elem(x), -1)
        return lambda x: enc(elem(x))

    def _res(self, k, st):
        enc = self._enc
        r = st['res']
        if r[0] == 'unit':
            return 'RUnit'
        if r[0] == 'KeyError':
            return 'RKeyError'
        if r[0] == 'ValueError':
            return 'RValueError'
        if r[0] == 'drew':
            return '(RDrew %s)' % L.z(enc(elem(r[1])))
        if r[0] == 'bool':
            return '(RBool %s)' % L.b(r[1])
        if r[0] == 'list':
            return '(RList %s)' % L.lst([enc(elem(y)) for y in r[1]], L.z)
        return 'RStuck'

    def _entry(self, e):
        if e is None:
            return 'None'
        d, h, ls, rs = e
        return 'Some (%s, %s, %s, %s)' % (L.z(self._enc(elem(d))), L.nat(h), L.nat(ls), L.nat(rs))

    def to_coq(self, case, obs):
        terms = []
        enc = self._enc = self._encoder(case, obs)
        # the constructor is the sequence of adds in set-iteration order; it exposes no observation of
        # its own (the first real step is an iteration with a full dump), so the results written here
        # are what any set does after j+1 distinct adds
        for j, x in enumerate(obs.get('init_order') or []):
            terms.append('{| s_op := A %s; s_res := RUnit; s_reqs := []; s_len := %s; s_empty := false; s_dump := None |}'
                         % (L.z(enc(elem(x))), L.nat(j + 1)))
        for (k, arg), st in zip(case['ops'], obs['steps']):
            if k in ('A', 'D', 'R'):
                op = '%s %s' % (k, L.z(enc(elem(arg))))
            elif k == 'M':
                op = 'Mem %s' % L.z(enc(elem(arg)))
            elif k == 'Dr':
                op = 'Dr %s' % L.lst(st['ints'], L.nat)
            else:
                op = 'Iter'
            dump = 'None' if 'dump' not in st else '(Some %s)' % L.lst(st['dump'], self._entry)
            ln = st['len'] if 0 <= st['len'] < 4999 else 4999
            terms.append('{| s_op := %s; s_res := %s; s_reqs := %s; s_len := %s; s_empty := %s; s_dump := %s |}'
                         % (op, self._res(k, st), L.lst(st['reqs'], L.nat), L.nat(ln), L.b(st['empty']), dump))
        return '[' + ';\n  '.join(terms) + ']'

    def nontrivial(self, case, obs):
        if obs.get('maxsize', 0) >= 3:
            return hashlib.sha1(repr((case['kind'], case['ops'])).encode()).hexdigest()
        return None

    def sample_view(self, case, obs):
        last = obs['steps'][-1] if obs.get('steps') else {}
        return {'kind': case['kind'], 'ops': case['ops'][:40], 'n_ops': len(case['ops']),
                'final_iter': last.get('iter'), 'final_dump': last.get('dump'), 'final_dist': last.get('dist')}

    def _api_inherited(self):
        """every locus class shipped with epydemic uses DrawSet's set operations unchanged
        (this is what makes 'and therefore every locus' true); returns the list of overrides found"""
        import epydemic
        from epydemic import DrawSet, TreeNode
        api = ['add', 'discard', 'remove', 'draw', 'empty', '__contains__', '__len__', '__iter__']
        found = []
        todo = list(DrawSet.__subclasses__())
        seen = set()
        while todo:
            c = todo.pop()
            if c in seen:
                continue
            seen.add(c)
            todo += c.__subclasses__()
            found += ['%s.%s' % (c.__name__, m) for m in api if m in c.__dict__]
        if not any(c.__name__ == 'Locus' for c in seen):
            found.append('Locus is not a DrawSet')
        return found

    # ------------------------------------------------------------------ level 2
    def extra_obligations(self, workdir, tier):
        """tie B level 2 on a fixed sample: the dumped implementation trees pass good_b and have the
        abstract set as their in-order list (Coq, no tree model involved)"""
        rnd = random.Random(909)
        cases = [self._random_case(rnd, 'quick') for _ in range(60 if tier == 'quick' else 400)]
        ex = self.exhaustive_cases('quick')
        cases += ex[::7] if tier == 'quick' else ex
        terms = []
        for c in cases:
            obs = core.run_impl(self, c)
            if 'harness_exception' in obs:
                return [('tie-B-level2', False, obs['harness_exception'])]
            terms.append(self.to_coq(c, obs))
        api = self._api_inherited()
        sub = os.path.join(workdir, 'level2')
        failing, errors = core.run_cases('C09L2', terms, self.TIE_IMPORT, 'EpyV.Tie.C09.check_case_l2', sub)
        ok = not failing and not errors
        detail = '' if ok else 'level-2 failing sample cases %s %s' % (failing[:10], [e[2][-500:] for e in errors[:1]])
        return [('tie-B-level2', ok, detail), ('loci-inherit-drawset-api', not api, api)]
