"""Development harness for the SIR_VariableInfection tie (Tie/CompartVI.v): NOT a registered property.
`H` follows harness/c07.py so that the tie can be wired into C05/C07/C08; `main()` co-executes generated
cases without going through vlib.core.main_check (no evidence / replay files are written):

    PYTHONPATH=${VERIF_REPO:-/repo}:/verif PYTHONHASHSEED=0 /venv/bin/python -m harness.cvi_dev [N] [seed]
"""
import json
import os
import random
import sys
import time

from vlib.core import Harness
from harness import compart

MODEL = 'SIR_VariableInfection'


def gen_vi_case(rnd):
    """the mix: 55% as compart.gen_case draws them (both dynamics, bare / named, alone / behind a Monitor,
    with / without an earlier run on the same object); 25% dense synchronous runs (star / complete / random,
    many seeds, slow removal: several selected edges compete for one node, the F8 situation); 20% with
    scripted infectivities from {0, 1/4, 1/2, 1} (zero-probability entries, certain infection)"""
    u = rnd.random()
    if u < 0.55:
        return compart.gen_case(rnd, model=MODEL)
    if u < 0.80:
        c = compart.gen_case(rnd, model=MODEL, dynamics='synchronous', kinds=['star', 'complete', 'random', 'tri_tail'], lo=3, hi=7)
        c['pv']['pSeed'] = rnd.choice([0.25, 0.5, 0.5])
        c['pv']['pRemove'] = rnd.choice([0.0, 0.125, 0.25])
        return c
    c = compart.gen_case(rnd, model=MODEL)
    g = compart.make_graph(c['graph'])
    pre = random.Random(c['seed'])
    script = [pre.randrange(1, 1 << 20) / float(1 << 20) for _ in range(g.order())]
    script += [rnd.choice([0.0, 0.0, 0.25, 0.5, 1.0, 1.0]) for _ in range(g.size())]
    c['script'] = {'random': script}
    return c


class H(Harness):
    ID = 'CVI'
    ANCHOR_FILES = ['epydemic/sir_model_variable_infection.py']
    TIE_IMPORT = ('From EpyV Require Import Model.Kernel Model.KernelDyn Model.Loci Model.Compart Model.CompartVI Tie.Compart Tie.CompartVI.\n'
                  'Open Scope Q_scope.')
    CHECK_FN = 'EpyV.Tie.CompartVI.vicheck_case'
    VO_TARGETS = ['Proofs/CompartVIMain.vo', 'Tie/CompartVI.vo']
    QUICK_N = 400
    THOROUGH_N = 4000
    RULE = ('whole runs of SIR_VariableInfection on networks of 2-7 nodes, both dynamics, bare or as a named instance, alone or in a '
            'sequence behind a Monitor, with and without an earlier run on the same experiment object; dense synchronous runs; '
            'scripted infectivities incl. 0 and 1')

    def gen_cases(self, tier, rnd, n):
        return [gen_vi_case(rnd) for _ in range(n)]

    def execute(self, case):
        return compart.run_case(case)

    def direct(self, case, obs):
        return compart.direct_c05(case, obs) + compart.direct_c07(case, obs) + compart.direct_c08(case, obs)

    def to_coq(self, case, obs):
        from harness import compart_vi
        return compart_vi.to_coq_vi(case, obs)

    def nontrivial(self, case, obs):
        if obs.get('skipped') or obs.get('exception'):
            return None
        ch = sum(1 for a, b in zip(obs['snaps'], obs['snaps'][1:]) if a['comps'] != b['comps'])
        return str(sorted(case.items(), key=str)) if ch >= 2 else None


def main(argv):
    from vlib import core
    n = int(argv[1]) if len(argv) > 1 else 400
    seed = int(argv[2]) if len(argv) > 2 else 20260929
    h = H()
    rnd = random.Random(seed)
    cases = h.gen_cases('quick', rnd, n)
    t0 = time.time()
    terms, idx, direct, skipped, stats = [], [], [], 0, {}
    keys = set()
    for i, case in enumerate(cases):
        obs = core.run_impl(h, case)
        if 'harness_exception' in obs:
            print('HARNESS', i, obs['harness_exception'], obs.get('traceback', '')[-600:])
            direct.append((i, 'harness'))
            continue
        for v in h.direct(case, obs):
            direct.append((i, v['signature']))
        k = h.nontrivial(case, obs)
        if k is not None:
            keys.add(k)
        t = h.to_coq(case, obs)
        if t is None:
            skipped += 1
            continue
        terms.append(t)
        idx.append(i)
        kind = (case['dynamics'][:5], 'named' if obs.get('inst') else 'bare', 'seq' if case.get('seq') else 'alone',
                'prerun' if case.get('prerun') else '-', 'script' if case.get('script') else '-')
        stats[kind] = stats.get(kind, 0) + 1
        stats['infect-entries'] = stats.get('infect-entries', 0) + sum(1 for e in obs['entries'] if e['fn'] == 'infect')
    t1 = time.time()
    workdir = os.path.join(core.WORK, 'cvi', str(os.getpid()))
    os.makedirs(workdir, exist_ok=True)
    failing, errors = core.run_cases('CVI', terms, h.TIE_IMPORT, h.CHECK_FN, workdir, shard=min(300, max(10, -(-len(terms) // 16))))
    t2 = time.time()
    print('cases %d, compared %d, not rendered %d, non-trivial %d, impl %.1fs, coq %.1fs' % (len(cases), len(terms), skipped, len(keys), t1 - t0, t2 - t1))
    for k in sorted(stats, key=str):
        print('  ', k, stats[k])
    print('direct oracle findings:', len(direct), sorted(set(s for _, s in direct))[:8])
    print('tie disagreements:', len(failing), [idx[j] for j in failing[:20]])
    for e in errors[:2]:
        print('COQC ERROR', e[2][-1500:])
    if failing:
        j = failing[0]
        with open(os.path.join(workdir, 'first_failing.json'), 'w') as f:
            json.dump(core._jsonable({'case': cases[idx[j]]}), f)
        with open(os.path.join(workdir, 'first_failing.v'), 'w') as f:
            f.write(h.TIE_IMPORT + '\nFrom Coq Require Import List ZArith QArith.\nImport ListNotations.\n')
            f.write('Definition c := ' + terms[j] + '.\nEval vm_compute in (vidiagnose c).\nEval vm_compute in (vitrace c).\n'
                    'Eval vm_compute in (vio_handlers c, vio_taps c, vio_time c, vio_events c, vio_steps c).\n')
        print('first failing case written to', workdir)
    return 1 if (failing or errors or direct) else 0


if __name__ == '__main__':
    sys.exit(main(sys.argv))
