"""C11: composed and multiply-instantiated processes do not interfere.
Tie B: random process trees (lists, dicts, nesting up to depth 3) over SIR/SIS instances with and
without instance names, Monitor, NetworkStatistics, ScriptProcess and a parameter probe, run under
both dynamics with a scripted random source; the model (Model/Sequence.v via Tie/C11.v) computes the
flattening, the locus registry, the event-rate distribution, the merged results, maximumTime,
atEquilibrium, every parameter lookup and the write set of every event from the *description* of the
tree and is compared with what the implementation did.
D: the property restated directly on the implementation's observables (see `direct`), incl. the series a Monitor reports
(one per locus registry key, one sample per observation) and every equilibrium test the dynamics makes of the sequence."""
import itertools

import networkx

from vlib import coqlit as L
from vlib.core import Harness
from vlib.oracle import Oracle, install
from harness import kscript, kcommon, compart

SHARED = ('tOccupied', 'tHitting', 'hittingProcess', 'infection_time')
PVALS = [0.0, 0.125, 0.25, 0.5, 0.5, 0.75, 1.0]
INSTS = ['a', 'b', 'c', 'x1', 'in.st', '', 'p@q']


COMP_TYPES = ('sir', 'sis', 'sirs', 'sirfr', 'sisfr', 'sirvi', 'sivr')
FIXED = ('sirfr', 'sisfr')


def classes():
    import epydemic as ep
    return {'sir': ep.SIR, 'sis': ep.SIS, 'sirs': ep.SIRS, 'sirfr': ep.SIR_FixedRecovery, 'sisfr': ep.SIS_FixedRecovery,
            'sirvi': ep.SIR_VariableInfection, 'sivr': ep.SIvR}


def static_tables():
    """what build() of each shipped leaf type registers: locus stems, per-element events
    (locus stem, parameter supplying the probability, event name), required parameters (in the order in which
    build() asks for them), parameters with a default, the parameter/compartment of the initial seeding"""
    import epydemic as ep
    S, I, RS, FR, FS, V = ep.SIR, ep.SIS, ep.SIRS, ep.SIR_FixedRecovery, ep.SIS_FixedRecovery, ep.SIvR
    sir_elem = [(S.SI, S.P_INFECT, S.INFECTED), (S.INFECTED, S.P_REMOVE, S.REMOVED)]
    sir_req = [S.P_INFECTED, S.P_INFECT, S.P_REMOVE]
    t = {
        'sir': {'stems': [S.SI, S.INFECTED], 'elem': sir_elem, 'requests': sir_req},
        'sis': {'stems': [I.SI, I.INFECTED], 'elem': [(I.INFECTED, I.P_RECOVER, I.RECOVERED), (I.SI, I.P_INFECT, I.INFECTED)],
                'requests': [I.P_INFECTED, I.P_INFECT, I.P_RECOVER]},
        'sirs': {'stems': [S.SI, S.INFECTED, S.REMOVED], 'elem': sir_elem + [(S.REMOVED, RS.P_RESUSCEPT, RS.RESUSCEPT)],
                 'requests': sir_req + [RS.P_RESUSCEPT]},
        'sirfr': {'stems': [S.SI], 'elem': [(S.SI, S.P_INFECT, S.INFECTED)], 'requests': [S.P_INFECTED, S.P_INFECT, FR.T_INFECTED],
                  'period': FR.T_INFECTED, 'ends': S.REMOVED},
        'sisfr': {'stems': [I.SI], 'elem': [(I.SI, I.P_INFECT, I.INFECTED)], 'requests': [I.P_INFECTED, I.P_INFECT, FS.T_INFECTED],
                  'period': FS.T_INFECTED, 'ends': I.RECOVERED},
        'sirvi': {'stems': [S.SI, S.INFECTED], 'elem': [(S.INFECTED, S.P_REMOVE, S.REMOVED)], 'requests': [S.P_INFECTED, S.P_REMOVE]},
        'sivr': {'stems': [S.SI, S.INFECTED, V.INFECTED_N, V.INFECTED_V], 'elem': sir_elem, 'requests': sir_req + [V.EFFICACY],
                 'defaults': {V.T_OFFSET: 0.0}},
    }
    for ty, d in t.items():
        sis = ty in ('sis', 'sisfr')
        d['seedkey'] = I.P_INFECTED if sis else S.P_INFECTED
        d['seedcomp'] = I.INFECTED if sis else S.INFECTED
        d.setdefault('defaults', {})
    return t


def name2fn():
    """the event function behind an event name (posted events and run-time events are not in the tables)"""
    import epydemic as ep
    return {ep.SIR.INFECTED: 'infect', ep.SIR.REMOVED: 'remove', ep.SIS.INFECTED: 'infect', ep.SIS.RECOVERED: 'recover',
            ep.SIRS.RESUSCEPT: 'resuscept'}


def value_pool(key):
    if key.endswith('pInfected'):
        return [0.125, 0.25, 0.5]
    if key.endswith('tInfected'):
        return [0.25, 0.5, 1.0, 1.5, 2.0]
    if key.endswith('tOffset'):
        return [0.0, 0.5, 1.0]
    if key.endswith('pEfficacy'):
        return [0.0, 0.25, 0.5, 0.75, 1.0]
    return [0.0, 0.125, 0.25, 0.5, 0.75, 1.0]


# ------------------------------------------------------------------ trees

def leaves_of(node):
    """the harness' own flattening of the description (independent of allProcesses())"""
    if 'leaf' in node:
        return [node['leaf']]
    if 'seq' in node:
        return [l for c in node['seq'] for l in leaves_of(c)]
    return [l for (_, c) in node['named'] for l in leaves_of(c)]


PASSIVE = ('monitor', 'stats', 'probe')


def strip_passive(node):
    """the same tree without its passive leaves (sequences that lose all their components stay, empty)"""
    if 'leaf' in node:
        return node
    if 'seq' in node:
        kids = [strip_passive(c) for c in node['seq'] if not ('leaf' in c and c['leaf']['type'] in PASSIVE)]
        out = {'seq': kids}
    else:
        out = {'named': [[n, strip_passive(c)] for (n, c) in node['named'] if not ('leaf' in c and c['leaf']['type'] in PASSIVE)]}
    if 'sub' in node:
        out['sub'] = node['sub']
    return out


def has_sub(node):
    if 'leaf' in node:
        return False
    kids = node['seq'] if 'seq' in node else [c for (_, c) in node['named']]
    return 'sub' in node or any(has_sub(c) for c in kids)


def expected_results(node, leaf_results):
    """merged results by the tree: components in order, the later winning; a subclassed sequence's own result last"""
    if 'leaf' in node:
        return dict(leaf_results[node['leaf']['id']])
    kids = node['seq'] if 'seq' in node else [c for (_, c) in node['named']]
    r = {}
    for c in kids:
        r.update(expected_results(c, leaf_results))
    if 'sub' in node:
        r[node['sub']['key']] = node['sub']['val']
    return r


def expected_maxtime(node, leaf_maxtime):
    if 'leaf' in node:
        return leaf_maxtime[node['leaf']['id']]
    kids = node['seq'] if 'seq' in node else [c for (_, c) in node['named']]
    m = max([0] + [expected_maxtime(c, leaf_maxtime) for c in kids])
    return max(m, node['sub']['floor']) if 'sub' in node else m


def gen_shape(rnd, leaves, depth):
    """distribute the leaves (in order) over a random nesting of lists and dicts"""
    if len(leaves) == 1 and (depth >= 3 or rnd.random() < 0.5):
        return {'leaf': leaves[0]}
    if depth >= 3:
        kids = [{'leaf': l} for l in leaves]
    else:
        kids = []
        i = 0
        while i < len(leaves):
            k = rnd.randrange(1, len(leaves) - i + 1) if rnd.random() < 0.5 else 1
            if k == len(leaves) and depth > 0 and len(leaves) > 1:
                k = rnd.randrange(1, len(leaves))
            kids.append(gen_shape(rnd, leaves[i:i + k], depth + 1))
            i += k
        if depth < 2 and rnd.random() < 0.15:
            kids.insert(rnd.randrange(len(kids) + 1), {'seq': []})       # an empty sequence somewhere
    node = {'named': [['n%d' % j, c] for j, c in enumerate(kids)]} if rnd.random() < 0.4 else {'seq': kids}
    if depth > 0 and rnd.random() < 0.12:
        # a nested sequence of a SUBCLASS of ProcessSequence that adds a result of its own after those of its components
        # and insists on a least running time: as a component it must be asked for results() and maximumTime() itself
        node['sub'] = {'key': rnd.choice(['r1', 'r2', 'seqA', 'seqB']), 'val': rnd.randrange(200, 210), 'floor': rnd.choice([0.0, 1.25, 2.75, 3.25])}
    return node



# ---------------------------------------------------------------- named instance == unnamed instance (every nameable process)
def nameable_classes():
    import epydemic as ep
    return {'SIR': ep.SIR, 'SIS': ep.SIS, 'SIRS': ep.SIRS, 'SIR_FixedRecovery': ep.SIR_FixedRecovery, 'SIS_FixedRecovery': ep.SIS_FixedRecovery,
            'SIR_VariableInfection': ep.SIR_VariableInfection, 'SIvR': ep.SIvR, 'Opinion': ep.Opinion, 'Vaccinate': ep.Vaccinate,
            'AddDelete': ep.AddDelete, 'PulseCoupledOscillator': ep.PulseCoupledOscillator}


def probe_params(cls_name, vals):
    """plain-name parameters of the class from a list of values"""
    import epydemic as ep
    if cls_name == 'AddDelete':
        return {ep.AddDelete.P_ADD: vals[0], ep.AddDelete.P_DELETE: vals[1], ep.AddDelete.DEGREE: int(vals[2] * 4)}
    if cls_name == 'PulseCoupledOscillator':
        P = ep.PulseCoupledOscillator
        return {P.PERIOD: 0.5 + vals[0], P.B: 1.0 + vals[1], P.COUPLING: vals[2]}
    pv = {'pSeed': 0.5, 'pInfect': vals[0], 'pRemove': vals[1], 'pAux': vals[2], 'pSym': vals[1], 'tInf': 0.5 + vals[2], 'eff': vals[0], 'off': vals[1]}
    return compart.params_for(cls_name, pv)


def probe_record(cls_name, inst, params):
    """what build / setUp made of the parameters: event tables, initial occupancies, numeric private fields"""
    import epydemic as ep
    cls = nameable_classes()[cls_name]
    p = cls(inst) if inst is not None else cls()
    dyn = ep.StochasticDynamics(p, networkx.path_graph(4))
    install(Oracle(seed=11))
    try:
        dyn.setUp(dict(params))
    except Exception as e:
        return {'raised': type(e).__name__ + ': ' + str(e)[:120]}
    und = p.undecoratedName
    rec = {'raised': None,
           'elem': [(und(l.name()), pr, getattr(ef, '__name__', '?'), name) for (l, pr, ef, name) in getattr(p, '_perElementEvents', [])],
           'fixed': [(und(l.name()), pr, getattr(ef, '__name__', '?'), name) for (l, pr, ef, name) in getattr(p, '_perLocusEvents', [])],
           'occupancy': sorted(getattr(p, '_compartments', {}).items()),
           'fields': sorted((k, v) for k, v in vars(p).items() if k.startswith('_') and isinstance(v, (int, float)) and not isinstance(v, bool)
                            and k not in ('_runId', '_maxTime', '_uniqueId'))}
    try:
        dyn.tearDown()
    except Exception:
        pass
    return rec


class H(Harness):
    ID = 'C11'
    ANCHOR_FILES = ['epydemic/processsequence.py', 'epydemic/process.py', 'epydemic/networkdynamics.py', 'epydemic/compartmentedmodel.py', 'epydemic/monitor.py', 'epydemic/statistics.py']
    TIE_IMPORT = 'From EpyV Require Import Model.Kernel Model.Sequence Tie.C11.'
    CHECK_FN = 'EpyV.Tie.C11.check_case'
    QUICK_N = 320
    THOROUGH_N = 3000
    ALLOWED_AXIOMS = set()
    RULE = ('random process trees of 1-6 leaves nested to depth <= 3 through lists and name->process dicts (incl. empty sequences and a bare '
            'leaf as the top process) over SIR and SIS instances (0-3 per tree, instance names from a pool incl. the empty name, a dotted '
            'name and a name containing @, at most one unnamed), Monitor, NetworkStatistics, ScriptProcess tables and a parameter probe; '
            'every disease parameter independently supplied decorated / undecorated / both; 12% of the cases register a duplicate locus '
            'name (same class, same instance name) and 6% omit a required parameter; per-leaf or forwarded maximum times; both dynamics; '
            'half of the probe leaves override atEquilibrium by a threshold of their own (0-6, or never; equilibrium asked about around the largest '
            'maximum time and each threshold, and at every test the run itself makes); '
            'networks of 2-6 nodes; non-trivial = at least two leaves, at least one event fired and at least one parameter resolved '
            'through a non-first level of the lookup rule or two instances of one class')
    TRUSTED = ['Coq 8.16.1 kernel incl. vm_compute', 'harness/c11.py, harness/kscript.py, harness/kcommon.py, vlib/oracle.py',
               'the per-type tables of SIR/SIS in harness/c11.py:static_tables (locus stems, events, required parameters) are inputs of the '
               'model; a drift is caught because the model\'s distribution and registry are compared with the implementation\'s']
    ASSUMPTIONS = ['the write summaries of infect/remove/recover in Model/Sequence.v are a summary of the Python event functions, checked '
                   'against every event fired in the generated runs, not derived from the source',
                   'floating-point rates p*len(locus) are exact for the generated dyadic probabilities']

    # ------------------------------------------------------------- generation
    def gen_cases(self, tier, rnd, n):
        out = [self.gen_case(rnd) for _ in range(n)]
        # every process class that takes an instance name: a named instance given its parameters under decorated names
        # (other values under the plain ones) is built exactly like an unnamed one given them under the plain names
        names = sorted(nameable_classes())
        for k in range(max(22, n // 8)):
            out.append({'kind': 'named_probe', 'cls': names[k % len(names)], 'inst': rnd.choice(['zz', 'a', 'x.1']),
                        'vals': [rnd.choice([0.0, 0.125, 0.25, 0.5, 0.75, 1.0]) for _ in range(3)], 'seed': k,
                        'tree': {'leaf': {'id': 0, 'type': 'probe', 'inst': None, 'maxtime': 1.0}}, 'dynamics': 'stochastic'})
        return out

    def gen_case(self, rnd):
        dynamics = rnd.choice(['stochastic', 'synchronous'])
        kind = rnd.choices(['plain', 'dup', 'missing'], [82, 12, 6])[0]
        nl = rnd.choice([1, 2, 2, 3, 3, 4, 5, 6])
        types = []
        ncomp = rnd.choice([0, 1, 2, 2, 3]) if nl >= 2 else rnd.choice([0, 1])
        ncomp = min(ncomp, nl)
        if kind != 'plain':
            ncomp = max(ncomp, 2 if kind == 'dup' else 1)
            nl = max(nl, ncomp)
        types += [rnd.choice(COMP_TYPES) for _ in range(ncomp)]
        if ncomp >= 2 and rnd.random() < 0.5:
            types[1] = types[0]                 # two (named) instances of one class
        while len(types) < nl:
            types.append(rnd.choice(['monitor', 'stats', 'script', 'script', 'probe', 'probe']))
        rnd.shuffle(types)
        names = rnd.sample(INSTS, len(INSTS))
        unnamed_used = False
        leaves = []
        nscript = 0
        for i, ty in enumerate(types):
            lf = {'id': i, 'type': ty, 'inst': None, 'maxtime': rnd.choice([0.5, 1.0, 1.5, 2.0, 2.5, 3.0])}
            if ty in COMP_TYPES:
                if not unnamed_used and rnd.random() < 0.25:
                    unnamed_used = True
                else:
                    lf['inst'] = names.pop()
            elif ty == 'probe':
                lf['inst'] = rnd.choice([None, 'a', 'b', 'zz'])
            elif ty == 'script':
                lf['pi'] = nscript
                nscript += 1
            leaves.append(lf)
        comp = [l for l in leaves if l['type'] in COMP_TYPES]
        if kind == 'dup':
            a, b = rnd.sample(comp, 2)
            b['type'] = a['type']
            b['inst'] = a['inst']
        table = None
        if nscript:
            table = kcommon.gen_table(rnd, dynamics, allow=['post', 'post', 'unpost', 'query'], nprocs=nscript, maxtime=3.0)
        # parameters: EVERY parameter of every instance decorated-only / plain-only / both (distinct values) /
        # left to its default where one exists
        tabs = static_tables()
        plainval = {}
        used = {}
        plain = {}
        decorated = []        # [leaf id, {key: value}] applied through setParameters
        modes = {}
        for l in comp:
            kv = {}
            tb = tabs[l['type']]
            for k in tb['requests'] + sorted(tb['defaults']):
                pool = value_pool(k)
                if k not in plainval:
                    plainval[k] = rnd.choice(pool)
                    used[k] = {plainval[k]}
                mode = rnd.choice(['decorated', 'plain', 'both'] + (['default', 'default'] if k in tb['defaults'] else []))
                if l['inst'] is None and mode in ('decorated', 'both'):
                    mode = 'plain'
                modes['%d:%s' % (l['id'], k)] = mode
                if mode in ('plain', 'both'):
                    plain[k] = plainval[k]
                if mode in ('decorated', 'both'):
                    free = [x for x in pool if x not in used[k]] or [x for x in pool if x != plainval[k]]
                    kv[k] = rnd.choice(free)
                    used[k].add(kv[k])
            if kv:
                decorated.append([l['id'], kv])
        if kind == 'missing':
            victim = rnd.choice(comp)
            k = rnd.choice(tabs[victim['type']]['requests'])
            plain.pop(k, None)
            for d in decorated:
                if d[0] == victim['id']:
                    d[1].pop(k, None)
        st = {'sir': tabs['sir']['requests'], 'sis': tabs['sis']['requests']}
        # probes: names to look up with and without defaults, results that may collide
        pool = sorted(set(st['sir'] + st['sis'] + ['k1', 'k2']))
        for l in leaves:
            if l['type'] == 'probe':
                l['requests'] = [[rnd.choice(pool), rnd.choice([None, None, 0.625, 7.0])] for _ in range(rnd.randrange(1, 5))]
                l['results'] = {k: rnd.randrange(100, 110) for k in rnd.sample(['epydemic.sir.S', 'epydemic.sir.I', 'epydemic.sis.S', 'r1', 'r2'], rnd.randrange(0, 4))}
                if rnd.random() < 0.5:
                    plain.setdefault(rnd.choice(['k1', 'k2']), rnd.choice(PVALS))
                if l['inst'] is not None and rnd.random() < 0.5:
                    decorated.append([l['id'], {rnd.choice(['k1', 'k2']): rnd.choice(PVALS)}])
        top_maxtime = rnd.choice([None, None, None, 1.0, 2.0, 0.0])
        times = sorted({0.0, 0.5, 1.0, 1.5, 2.0, 2.5, 3.0, 3.5, 20000.0})
        case = {'tree': gen_shape(rnd, leaves, 0), 'graph': compart.gen_graph(rnd, lo=2, hi=6), 'dynamics': dynamics,
                'seed': rnd.randrange(1 << 30), 'kind': kind, 'plain': plain, 'decorated': decorated, 'table': table,
                'top_maxtime': top_maxtime, 'equil_times': rnd.sample(times, 4), 'delta': rnd.choice([0.5, 0.75, 1.0]), 'modes': modes}
        case['vacc'] = [n for n in case['graph']['nodes'] if rnd.random() < 0.6]
        # histories on the same objects: an earlier whole run with other random choices, or one abandoned inside set-up
        case['earlier'] = rnd.choice([None, None, None, None, 'run', 'run', 'abandoned'])
        # components that OVERRIDE the documented atEquilibrium() hook with a criterion of their own (at equilibrium from
        # `eq_after` on, or never), unrelated to any maximum time: the sequence must keep consulting them after the largest
        # maximum time.  The times asked about straddle the largest maximum time and every such threshold.
        own = []
        for l in leaves:
            if l['type'] == 'probe' and rnd.random() < 0.5:
                l['eq_after'] = rnd.choice([0.0, 1.0, 1.75, 2.5, 3.25, 3.75, 4.5, 6.0, 6.0, 'never'])
                if l['eq_after'] == 'never' and 'leaf' in case['tree']:
                    l['eq_after'] = 6.0       # a bare process that is never at equilibrium runs for ever, by its own choice
                own.append(l['eq_after'])
        if own:
            def floors(node):
                if 'leaf' in node:
                    return []
                kids = node['seq'] if 'seq' in node else [c for (_, c) in node['named']]
                return ([node['sub']['floor']] if 'sub' in node else []) + [f for c in kids for f in floors(c)]
            mm = max([top_maxtime if top_maxtime is not None else l['maxtime'] for l in leaves] + floors(case['tree']))
            extra = {mm, mm + 0.25, mm + 1.0, 20000.0}
            for ea in own:
                if ea != 'never':
                    extra |= {ea, ea + 0.25}
            extra |= {x - 0.25 for x in extra if x >= 0.25}
            case['equil_times'] = sorted(set(case['equil_times']) | extra)
        return case

    # ------------------------------------------------------------- execution
    def execute(self, case):
        if case.get('kind') == 'named_probe':
            plain = probe_params(case['cls'], case['vals'])
            named = {k + '@' + case['inst']: v for k, v in plain.items()}
            for k, v in plain.items():
                named[k] = 0.8125 if v != 0.8125 else 0.4375          # the plain names carry somebody else's values
            if case['cls'] == 'AddDelete':
                import epydemic as ep
                named[ep.AddDelete.DEGREE] = 3
            return {'unnamed': probe_record(case['cls'], None, plain), 'named': probe_record(case['cls'], case['inst'], named),
                    'exception': None, 'events': [], 'complete': False}
        obs = self._execute(case)
        # the passive components (Monitor, NetworkStatistics, probes: they post or observe, and change nothing) taken out,
        # same random choices: the events of the others must be the same, as far as both runs go
        if (case.get('kind') == 'plain' and not case.get('earlier') and not obs.get('exception') and obs.get('built')
                and any(l['type'] in PASSIVE for l in leaves_of(case['tree'])) and any(l['type'] not in PASSIVE for l in leaves_of(case['tree']))):
            keep = {l['id'] for l in leaves_of(case['tree']) if l['type'] not in PASSIVE}
            bare = dict(case, tree=strip_passive(case['tree']), decorated=[d for d in case['decorated'] if d[0] in keep])
            try:
                o2 = self._execute(bare)
                obs['without_passive'] = {'exception': o2.get('exception'), 'events': [[ev['t'], ev['leaf'], ev['name'], ev['e']] for ev in o2.get('events', [])]}
            except Exception as e:
                obs['without_passive'] = {'exception': ['harness', type(e).__name__ + ': ' + str(e)], 'events': []}
        return obs

    def _execute(self, case):
        import epyc
        import epydemic as ep
        import epydemic.stochasticdynamics as sd
        rec = kscript.Recorder()

        class Probe(ep.Process):
            def __init__(self, name, requests, res):
                super().__init__(name)
                self.requests = requests
                self.res = res
                self.seen = []
                self.gp = None

            def build(self, params):
                super().build(params)
                for k, d in self.requests:
                    try:
                        v = self.getDecoratedName(params, k if d is None else (k, d))
                        self.seen.append([k, d, v])
                    except KeyError as e:
                        self.seen.append([k, d, ['KeyError', e.args[0]]])
                ks = [k if d is None else (k, d) for k, d in self.requests]
                try:
                    self.gp = ['ok', self.getParameters(params, ks)]
                except KeyError as e:
                    self.gp = ['KeyError', e.args[0]]

            def results(self):
                rc = super().results()
                rc.update(self.res)
                return rc

        class OwnEquilibrium(Probe):
            """overrides the documented hook: at equilibrium from `eq_after` on (or never), whatever the maximum time"""
            def __init__(self, name, requests, res, eq_after):
                super().__init__(name, requests, res)
                self.eq_after = eq_after

            def atEquilibrium(self, t):
                return False if self.eq_after == 'never' else t >= self.eq_after

        objs = {}

        def mk(node):
            if 'leaf' in node:
                l = node['leaf']
                ty = l['type']
                if ty in COMP_TYPES:
                    cls = classes()[ty]
                    p = cls(l['inst']) if l['inst'] is not None else cls()
                elif ty == 'monitor':
                    p = ep.Monitor()
                elif ty == 'stats':
                    p = ep.NetworkStatistics()
                elif ty == 'script':
                    p = kscript.ScriptProcess(l['pi'], case['table'], rec)
                elif 'eq_after' in l:
                    p = OwnEquilibrium(l['inst'], l['requests'], l['results'], l['eq_after'])
                else:
                    p = Probe(l['inst'], l['requests'], l['results'])
                if case['top_maxtime'] is None:
                    p.setMaximumTime(l['maxtime'])
                objs[l['id']] = p
                return p
            scls = ep.ProcessSequence
            if 'sub' in node:
                sub = node['sub']

                class Tagged(ep.ProcessSequence):
                    def results(self):
                        rc = super().results()
                        rc[sub['key']] = sub['val']
                        return rc

                    def maximumTime(self):
                        return max(super().maximumTime(), sub['floor'])
                scls = Tagged
            if 'seq' in node:
                return scls([mk(c) for c in node['seq']])
            return scls({n: mk(c) for (n, c) in node['named']})

        top = mk(case['tree'])
        leaves = leaves_of(case['tree'])
        lid = {id(objs[l['id']]): l['id'] for l in leaves}
        if case['top_maxtime'] is not None:
            top.setMaximumTime(case['top_maxtime'])
        # parameters through the public API
        params = dict(case['plain'])
        params[ep.Monitor.DELTA] = case['delta']
        setparams = []
        for i, kv in case['decorated']:
            before = list(params.items())
            r = objs[i].setParameters(params, kv)
            setparams.append({'inst': objs[i].instanceName(), 'before': before, 'kvs': list(kv.items()), 'after': list(params.items()), 'returned_same': r is params})
        given = dict(params)
        g = compart.make_graph(case['graph'])
        dcls = ep.StochasticDynamics if case['dynamics'] == 'stochastic' else ep.SynchronousDynamics
        dyn = dcls(top, g)
        orc = Oracle(seed=case['seed'])
        obs = {'given': list(given.items()), 'setparams': setparams, 'events': [], 'snaps': [], 'built': False, 'complete': False}

        def state():
            net = dyn.network()
            attrs = {}
            for n, d in net.nodes(data=True):
                for k, v in d.items():
                    attrs[('n', n, k)] = v
            for a, b, d in net.edges(data=True):
                for k, v in d.items():
                    attrs[('e', tuple(sorted((a, b))), k)] = v
            loci = {n: sorted(l, key=repr) for n, l in dyn.loci().items()}
            topo = (sorted(net.nodes()), sorted(tuple(sorted(e)) for e in net.edges()))
            queue = {ev[1]: (ev[0], lid.get(id(ev[2]), -1), ev[4], ev[5]) for ev in dyn._postedEventFinder.values()}
            return attrs, loci, topo, queue

        cur = {}
        fnname = {}
        taken = [0]

        def lkey(l):
            # SIR_VariableInfection wraps every SI edge in a fresh SingletonLocus per call: identify those by content
            return ('singleton', repr(list(l))) if type(l).__name__ == "SingletonLocus" else id(l)

        def fkey(f):
            # ... and hands over a fresh bound method each time
            return (id(f.__self__), f.__func__.__qualname__) if hasattr(f, '__self__') else id(f)

        def snap(t):
            dist = dyn.eventRateDistribution(t)
            mine = []
            reg = {}       # which component registered an entry (an event may sit on a sibling's locus)
            for l in leaves:
                p = objs[l['id']]
                if hasattr(p, '_perElementEvents'):
                    for x in p.perElementEventRateDistribution(t):
                        mine.append(('E', lkey(x[0]), x[1], fkey(x[2]), x[3]))
                        reg[(lkey(x[0]), fkey(x[2]), x[3])] = l['id']
            for l in leaves:
                p = objs[l['id']]
                if hasattr(p, '_perLocusEvents'):
                    for x in p.fixedRateEventDistribution(t):
                        mine.append(('F', lkey(x[0]), x[1], fkey(x[2]), x[3]))
                        reg[(lkey(x[0]), fkey(x[2]), x[3])] = l['id']
            # the same for the PROBABILITY distributions, which synchronous dynamics draws its trials from
            mine_p, theirs_p = [], []
            for l in leaves:
                p = objs[l['id']]
                if hasattr(p, '_perElementEvents'):
                    mine_p += [('E', lkey(x[0]), x[1], fkey(x[2]), x[3]) for x in p.perElementEventDistribution(t)]
            for l in leaves:
                p = objs[l['id']]
                if hasattr(p, '_perLocusEvents'):
                    mine_p += [('F', lkey(x[0]), x[1], fkey(x[2]), x[3]) for x in p.fixedRateEventDistribution(t)]
            theirs_p += [('E', lkey(x[0]), x[1], fkey(x[2]), x[3]) for x in dyn.perElementEventDistribution(t)]
            theirs_p += [('F', lkey(x[0]), x[1], fkey(x[2]), x[3]) for x in dyn.fixedRateEventDistribution(t)]
            npe = len(dyn.perElementEventRateDistribution(t))
            theirs = [('E' if i < npe else 'F', lkey(x[0]), x[1], fkey(x[2]), x[3]) for i, x in enumerate(dist)]
            attrs_now = state()[0]
            extra = {}
            vi = {}
            for l in leaves:
                if l['type'] == 'sirvi':
                    p = objs[l['id']]
                    var = 'infectivity' if l['inst'] is None else 'infectivity@' + l['inst']
                    es = list(p.locus(ep.SIR.SI))
                    extra[l['id']] = [[ep.SIR.INFECTED, attrs_now.get(('e', tuple(sorted(e)), var))] for e in es]
                    vi[l['id']] = {'expected': sorted(x[1] for x in extra[l['id']] if x[1] is not None), 'missing': sum(1 for x in extra[l['id']] if x[1] is None),
                                   'used': sorted(x[1] for x in p.perElementEventDistribution(t) if x[3] == ep.SIR.INFECTED)}
            obs['snaps'].append({'t': t, 'sizes': [len(l) for l in dyn.loci().values()], 'extra': extra, 'vi': vi,
                                 'dist': [[reg.get((lkey(x[0]), fkey(x[2]), x[3]), lid.get(id(x[0].process()), -1)), x[3], x[1]] for x in dist],
                                 'union_ok': sorted(mine, key=repr) == sorted(theirs, key=repr) and sorted(mine_p, key=repr) == sorted(theirs_p, key=repr), 'same_order': mine == theirs})

        def started(params_):
            obs['built'] = True
            obs['all'] = [lid.get(id(p), -1) for p in top.allProcesses()]
            obs['names'] = top.processNames() if isinstance(top, ep.ProcessSequence) else None
            obs['loci'] = [[n, lid.get(id(l.process()), -1)] for n, l in dyn.loci().items()]
            obs['loci_for'] = {l['id']: sorted(objs[l['id']].loci().keys()) for l in leaves}
            obs['statevars'] = {l['id']: [objs[l['id']].COMPARTMENT, objs[l['id']].OCCUPIED] + ([objs[l['id']].INFECTIVITY] if l['type'] == 'sirvi' else [])
                                for l in leaves if l['type'] in COMP_TYPES}
            for l in leaves:
                p = objs[l['id']]
                for attr in ('_perElementEvents', '_perLocusEvents'):
                    for (_, _, ef, name) in getattr(p, attr, []):
                        fnname[(l['id'], name)] = getattr(ef, '__name__', 'ef')
            for l in leaves:
                if l['type'] == 'sivr':
                    p = objs[l['id']]
                    for n in case.get('vacc', []):
                        p.vaccinateNode(0.0, n)
                    new = []
                    for (loc, pr, ef, name) in p._perElementEvents:
                        if name == ep.SIR.INFECTED:
                            def w(t, e, ef=ef, i=l['id']):
                                entry[i] = len(orc.log)
                                return ef(t, e)
                            new.append((loc, pr, w, name))
                        else:
                            new.append((loc, pr, ef, name))
                    p._perElementEvents = new
            cur['state'] = state()
            obs['topo0'] = cur['state'][2]
            # the removals that the fixed-recovery variants post for the initially infected nodes
            obs['initial_posted'] = {}
            for l in leaves:
                if l['type'] in FIXED:
                    p = objs[l['id']]
                    seeds = sorted(n for n in dyn.network().nodes() if dyn.network().nodes[n].get(p.COMPARTMENT) == p.INFECTED)
                    mine = sorted((el, tm) for (tm, who, el, nm) in cur['state'][3].values() if who == l['id'])
                    obs['initial_posted'][l['id']] = {'seeds': seeds, 'posted': mine}
            snap(0.0)
        dyn.simulationStarted = started
        entry = {}

        def tap(t, p, name, e):
            new = state()
            old = cur['state']
            cur['state'] = new
            i = lid.get(id(p), -1)
            keys = set(old[0]) | set(new[0])
            ch = sorted({k[2] for k in keys if old[0].get(k, '<absent>') != new[0].get(k, '<absent>')})
            chl = sorted(n for n in set(old[1]) | set(new[1]) if old[1].get(n) != new[1].get(n))
            fn = fnname.get((i, name))
            if fn is None or fn == 'w':
                fn = 'observe' if isinstance(p, ep.Monitor) else (name2fn().get(name, 'posted') if i in obs['statevars'] else 'posted')
            posted = sorted((new[3][k][2], new[3][k][0], new[3][k][1]) for k in new[3] if k not in old[3])
            evrec = {'t': t, 'leaf': i, 'name': name, 'fn': fn, 'attrs': ch, 'loci': chl, 'topo_same': old[2] == new[2],
                     'e': e, 'posted': posted}
            if fn == 'observe':
                # what there was to observe: the size of every locus of the simulation under its registry key
                evrec['sizes'] = [[n, len(x)] for n, x in new[1].items()]
            if fn == 'infect' and i in obs['statevars'] and isinstance(e, tuple):
                # the instance's OWN occupied flag on the edge it has just transmitted over
                cvar0, ovar0 = obs['statevars'][i][0], obs['statevars'][i][1]
                evrec['moved'] = old[0].get(('n', e[0], cvar0)) != new[0].get(('n', e[0], cvar0))
                evrec['own_occupied'] = new[0].get(('e', tuple(sorted(e)), ovar0))
            if i in entry and fn == 'infect':
                n0 = entry.pop(i)
                node = e[0]
                cvar = obs['statevars'][i][0]
                evrec['gate'] = {'vaccinated': old[0].get(('n', node, ep.SIvR.VACCINATED)), 'tv': old[0].get(('n', node, ep.SIvR.VACCINATION_TIME)),
                                 'rands': [x[1] for x in orc.log[n0:] if x[0] == 'random'],
                                 'infected': old[0].get(('n', node, cvar)) != new[0].get(('n', node, cvar))}
            obs['events'].append(evrec)
            n = len(obs['events'])
            if n in (1, 2, 3, 5, 8, 13, 21):
                snap(t)
            if n > 150:
                raise kscript.Budget('run exceeds the harness budget')
        dyn.eventFired = tap

        def ended(res):
            obs['complete'] = True
            obs['results'] = list(res.items())
            obs['leaf_results'] = {l['id']: list(objs[l['id']].results().items()) for l in leaves}
        dyn.simulationEnded = ended

        # every equilibrium test that the dynamics makes of the top sequence during the run, next to the components' own
        # answers at that instant (bounded: a component that is never at equilibrium keeps an eventless run going for ever)
        asked = [0]
        watching = isinstance(top, ep.ProcessSequence)
        if watching:
            seq_equil = top.atEquilibrium

            def watched(t):
                b = bool(seq_equil(t))
                ls = [bool(objs[l['id']].atEquilibrium(t)) for l in leaves]
                asked[0] += 1
                obs['run_equil_last'] = [t, b, ls]
                if b and not all(ls) and 'run_equil_bad' not in obs:
                    obs['run_equil_bad'] = [t, b, ls]
                if asked[0] > 400:
                    raise kscript.Budget('run exceeds the harness budget')
                return b
            top.atEquilibrium = watched

        if case.get('earlier'):
            install(Oracle(seed=case['seed'] + 1))
            last = None
            if case['earlier'] == 'abandoned':
                last = top.allProcesses()[-1] if isinstance(top, ep.ProcessSequence) and top.allProcesses() else top
                orig_setup = last.setUp

                def abandoned(params_):
                    orig_setup(params_)
                    raise RuntimeError('set-up abandoned by the harness')
                last.setUp = abandoned
            try:
                dyn.set(dict(params)).run(fatal=True)
            except Exception:
                pass
            finally:
                if last is not None:
                    del last.setUp
            obs.update({'events': [], 'snaps': [], 'built': False, 'complete': False})
            for k in ('all', 'names', 'loci', 'loci_for', 'statevars', 'topo0', 'initial_posted', 'results', 'leaf_results',
                      'run_equil_last', 'run_equil_bad'):
                obs.pop(k, None)
            asked[0] = 0
            cur.clear()
            fnname.clear()
            entry.clear()
            for p in objs.values():
                if hasattr(p, 'seen'):
                    p.seen = []
                    p.gp = None
            del rec.obs[:]
            del rec.ids[:]
            del rec.draws[:]
            del rec.logs[:]
            del rec.tranches[:]
        install(orc)
        kscript.install_draw_recorder(rec)
        saved_math = sd.math
        sd.math = kscript.LogShim(rec)
        exc = None
        try:
            dyn.set(params).run(fatal=True)
        except kscript.Budget:
            exc = None
        except KeyError as e:
            exc = ['KeyError', e.args[0] if e.args else None]
        except Exception as e:
            exc = [type(e).__name__, str(e)]
        finally:
            sd.math = saved_math
            kscript.uninstall_draw_recorder()
            if watching:
                del top.atEquilibrium
        obs['exception'] = exc
        # pure queries, asked after the run
        obs['maxtime'] = top.maximumTime()
        obs['leaf_maxtime'] = {l['id']: objs[l['id']].maximumTime() for l in leaves}
        obs['equil'] = [[t, bool(top.atEquilibrium(t))] for t in case['equil_times']]
        obs['leaf_equil'] = {l['id']: [bool(objs[l['id']].atEquilibrium(t)) for t in case['equil_times']] for l in leaves}
        tabs = static_tables()
        used = []
        for l in leaves:
            p = objs[l['id']]
            if l['type'] in tabs and obs['built']:
                tb = tabs[l['type']]
                used.append([l['id'], tb['seedkey'], None, p._compartments.get(tb['seedcomp'])])
                for (stem, key, name) in tb['elem']:
                    vals = [x[1] for x in p._perElementEvents if x[3] == name]
                    used.append([l['id'], key, None, vals[0] if len(vals) == 1 else None])
                if l['type'] in FIXED:
                    used.append([l['id'], tb['period'], None, p._tInfected])
                    ip = obs.get('initial_posted', {}).get(l['id'])
                    if ip and ip['posted']:
                        ts = sorted({tm for (_, tm) in ip['posted']})
                        used.append([l['id'], tb['period'], None, ts[0] if len(ts) == 1 else None])    # what setUp posted with
                if l['type'] == 'sivr':
                    used.append([l['id'], ep.SIvR.EFFICACY, None, p._efficacy])
                    used.append([l['id'], ep.SIvR.T_OFFSET, 0.0, p._offset])
            if l['type'] == 'probe':
                for k, d, v in p.seen:
                    used.append([l['id'], k, d, v])
        obs['lookups'] = used
        obs['getparams'] = [[l['id'], l['requests'], objs[l['id']].gp] for l in leaves if l['type'] == 'probe' and objs[l['id']].gp is not None]
        names = [n for n, _ in obs.get('loci', [])] + list(given.keys())
        obs['undecorated'] = [[n, top.undecoratedName(n)] for n in names]
        obs['insts'] = {l['id']: objs[l['id']].instanceName() for l in leaves}
        return obs

    # ------------------------------------------------------------- D
    def expected_stems(self, l, case):
        tabs = static_tables()
        if l['type'] in tabs:
            return tabs[l['type']]['stems']
        if l['type'] == 'script':
            return ['L%d' % li for li, x in enumerate(case['table']['loci']) if x['owner'] == l['pi']]
        return []

    def direct(self, case, obs):
        if case.get('kind') == 'named_probe':
            a, b = obs['unnamed'], obs['named']
            if a['raised']:
                return []                     # not a legal parameter point for this class
            if b['raised']:
                return [{'signature': 'named-instance-does-not-build-from-its-decorated-parameters:' + case['cls'], 'detail': b['raised']}]
            diff = [k for k in ('elem', 'fixed', 'occupancy', 'fields') if a[k] != b[k]]
            if diff:
                return [{'signature': 'named-instance-not-built-from-its-own-parameters:%s:%s' % (case['cls'], ','.join(diff)),
                         'detail': {k: [a[k], b[k]] for k in diff}}]
            return []
        return self._direct(case, obs)

    def _direct(self, case, obs):
        v = []
        leaves = leaves_of(case['tree'])
        given = dict(obs['given'])
        exc = obs['exception']

        def dec(inst, k):
            return k if inst is None else k + '@' + inst

        # lookup rule, restated
        def rule(inst, k, d):
            if dec(inst, k) in given:
                return given[dec(inst, k)]
            if k in given:
                return given[k]
            if d is not None:
                return d
            return ['KeyError', k]
        for (i, k, d, got) in obs['lookups']:
            inst = next(l['inst'] for l in leaves if l['id'] == i)
            exp = rule(inst, k, d)
            if got != exp:
                v.append({'signature': 'parameter-lookup-wrong-level', 'detail': {'leaf': i, 'inst': inst, 'key': k, 'default': d, 'used': got, 'rule': exp}})
        for (i, reqs, gp) in obs['getparams']:
            inst = next(l['inst'] for l in leaves if l['id'] == i)
            vals = [rule(inst, k, d) for k, d in reqs]
            bad = [x for x in vals if isinstance(x, list)]
            exp = ['KeyError', bad[0][1]] if bad else ['ok', vals]
            if gp != exp:
                v.append({'signature': 'getParameters-wrong', 'detail': {'leaf': i, 'requests': reqs, 'got': gp, 'rule': exp}})
        for sp in obs['setparams']:
            exp = dict(sp['before'])
            for k, val in sp['kvs']:
                exp[dec(sp['inst'], k)] = val
            if dict(sp['after']) != exp or not sp['returned_same']:
                v.append({'signature': 'setParameters-not-decorated', 'detail': sp})
        # duplicate locus names must be refused, distinct ones accepted
        tabs = static_tables()
        names = [dec(l['inst'], s) for l in leaves for s in self.expected_stems(l, case)]
        dup = len(set(names)) != len(names)
        missing = None
        for l in leaves:
            if l['type'] in tabs and missing is None:
                for k in tabs[l['type']]['requests']:
                    if rule(l['inst'], k, None) == ['KeyError', k]:
                        missing = k
                        break
        refused = bool(exc) and exc[0] == 'Exception' and 'already exists' in str(exc[1])
        if missing is not None:
            if not (exc and exc[0] == 'KeyError' and exc[1] == missing):
                v.append({'signature': 'missing-parameter-not-reported', 'detail': {'missing': missing, 'exception': exc}})
            return v
        if dup != refused:
            v.append({'signature': 'duplicate-locus-accepted' if dup else 'distinct-loci-refused', 'detail': {'names': names, 'exception': exc}})
            return v
        if dup:
            return v
        if exc:
            sig = 'keyerror-although-the-lookup-rule-resolves-every-parameter' if exc[0] == 'KeyError' else 'run-raised:' + exc[0]
            return v + [{'signature': sig, 'detail': {'exception': exc, 'parameters': sorted(given)}}]
        ids = [l['id'] for l in leaves]
        if obs['all'] != ids:
            v.append({'signature': 'allProcesses-not-the-flattening', 'detail': {'allProcesses': obs['all'], 'expected': ids}})
        if [n for n, _ in obs['loci']] != names:
            v.append({'signature': 'registry-names', 'detail': {'registry': obs['loci'], 'expected': names}})
        own = {}
        for l in leaves:
            exp = sorted(dec(l['inst'], s) for s in self.expected_stems(l, case))
            own[l['id']] = set(exp)
            if obs['loci_for'][l['id']] != exp or sorted(n for n, o in obs['loci'] if o == l['id']) != exp:
                v.append({'signature': 'loci-not-separate', 'detail': {'leaf': l['id'], 'loci()': obs['loci_for'][l['id']], 'expected': exp}})
        # union of events at every snapshot
        for s in obs['snaps']:
            if not s['union_ok']:
                v.append({'signature': 'distribution-not-union-of-components', 'detail': s})
        # state variables are per instance
        sv = obs['statevars']
        for i, vs in sv.items():
            inst = obs['insts'][i]
            if vs != [dec(inst, x) for x in ('compartment', 'occupied', 'infectivity')][:len(vs)]:
                v.append({'signature': 'state-variable-not-decorated', 'detail': {'leaf': i, 'vars': vs}})
        for (i, a), (j, b) in itertools.combinations(sv.items(), 2):
            if obs['insts'][i] != obs['insts'][j] and set(a) & set(b):
                v.append({'signature': 'state-variables-shared-between-instances', 'detail': {i: a, j: b}})
        # frame: an event changes only what belongs to its originating process
        for ev in obs['events']:
            i = ev['leaf']
            allowed = set(sv.get(i, [])) | (set(SHARED) if i in sv else set())
            bad = [a for a in ev['attrs'] if a not in allowed]
            badl = [n for n in ev['loci'] if n not in own.get(i, set())]
            if bad or badl or not ev['topo_same']:
                v.append({'signature': 'event-changed-foreign-state', 'detail': {'event': ev, 'attributes': bad, 'loci': badl}})
                break
        # an instance that transmits over an edge marks it occupied under ITS OWN state variable, whatever other instances
        # did to that edge before (its contact tree must not depend on its siblings)
        for ev in obs['events']:
            if ev.get('moved') and ev.get('own_occupied') is not True:
                v.append({'signature': 'own-occupied-flag-not-set-by-infection', 'detail': {'event': ev}})
                break
        # the values an instance USES at run time are the ones the three-level rule selects
        import epydemic as ep
        types = {l['id']: l for l in leaves}
        for i, ip in obs.get('initial_posted', {}).items():
            l = types[i]
            T = rule(l['inst'], tabs[l['type']]['period'], None)
            exp = sorted((n, T) for n in ip['seeds'])
            if ip['posted'] != exp:
                v.append({'signature': 'fixed-recovery-initial-period-not-the-instances-own', 'detail': {'leaf': i, 'inst': l['inst'], 'posted': ip['posted'], 'rule': exp}})
        for ev in obs['events']:
            l = types.get(ev['leaf'])
            if l is None:
                continue
            if l['type'] in FIXED and ev['fn'] == 'infect':
                T = rule(l['inst'], tabs[l['type']]['period'], None)
                exp = [(ev['e'][0], ev['t'] + T, l['id'])]
                if ev['posted'] != exp:
                    v.append({'signature': 'fixed-recovery-period-not-the-instances-own', 'detail': {'event': ev, 'rule': exp}})
            if 'gate' in ev:
                gt = ev['gate']
                eff = rule(l['inst'], ep.SIvR.EFFICACY, None)
                off = rule(l['inst'], ep.SIvR.T_OFFSET, 0.0)
                active = bool(gt['vaccinated']) and gt['tv'] is not None and gt['tv'] + off < ev['t']
                ok = (len(gt['rands']) == 1 and gt['infected'] == (gt['rands'][0] > eff)) if active else (gt['rands'] == [] and gt['infected'])
                if not ok:
                    v.append({'signature': 'vaccine-gate-not-with-the-instances-own-parameters', 'detail': {'event': ev, 'efficacy': eff, 'offset': off}})
        for sn in obs['snaps']:
            for i, x in sn['vi'].items():
                if x['missing'] or x['used'] != x['expected']:
                    v.append({'signature': 'infectivity-not-under-the-instances-own-state-variable', 'detail': {'leaf': i, 't': sn['t'], 'vi': x}})
        if obs['complete']:
            # results: union of keys, the later component wins
            exp = expected_results(case['tree'], {i: list(kv) for i, kv in obs['leaf_results'].items()})
            got = dict((k, val) for k, val in obs['results'])
            if set(got) != set(exp):
                v.append({'signature': 'results-keys-not-union', 'detail': {'got': sorted(got), 'expected': sorted(exp)}})
            elif any(repr(got[k]) != repr(exp[k]) for k in exp):
                v.append({'signature': 'results-later-does-not-win', 'detail': {k: [got[k], exp[k]] for k in exp if repr(got[k]) != repr(exp[k])}})
            # a Monitor in the sequence: one time series per locus REGISTRY key of the simulation (the decorated names of
            # named instances: their loci stay separate in what is reported too), one sample per observation, each the
            # size of that locus when the observation was made
            for l in leaves:
                if l['type'] != 'monitor':
                    continue
                seen_ = [ev for ev in obs['events'] if ev['leaf'] == l['id'] and ev['fn'] == 'observe']
                if not seen_:
                    continue
                stem = ep.Monitor.TIMESERIES_STEM
                mine = {k: val for k, val in obs['leaf_results'][l['id']] if k == ep.Monitor.OBSERVATIONS or k.startswith(stem)}
                expm = {ep.Monitor.OBSERVATIONS: [ev['t'] for ev in seen_]}
                for n in names:
                    expm['%s-%s' % (stem, n)] = [dict(ev['sizes']).get(n) for ev in seen_]
                if mine != expm:
                    badk = sorted(set(mine) ^ set(expm)) + sorted(k for k in set(mine) & set(expm) if mine[k] != expm[k])
                    v.append({'signature': 'monitor-series-not-one-per-registered-locus',
                              'detail': {'leaf': l['id'], 'keys': badk, 'reported': {k: mine.get(k) for k in badk}, 'observed': {k: expm.get(k) for k in badk}}})
        # the run itself: the dynamics stops on the sequence's word, which must not be given while a component disagrees
        if obs.get('run_equil_bad'):
            t_, b_, ls_ = obs['run_equil_bad']
            v.append({'signature': 'run-found-the-sequence-at-equilibrium-although-a-component-is-not',
                      'detail': {'t': t_, 'sequence': b_, 'components': dict(zip([l['id'] for l in leaves], ls_))}})
        wp = obs.get('without_passive')
        if wp is not None:
            if wp['exception']:
                v.append({'signature': 'run-without-the-passive-components-raised', 'detail': wp['exception']})
            else:
                ptypes = {l['id'] for l in leaves if l['type'] in PASSIVE}
                mine = [[ev['t'], ev['leaf'], ev['name'], ev['e']] for ev in obs['events'] if ev['leaf'] not in ptypes]
                k = min(len(mine), len(wp['events']))
                if repr(mine[:k]) != repr(wp['events'][:k]):
                    j = next(i for i in range(k) if repr(mine[i]) != repr(wp['events'][i]))
                    v.append({'signature': 'events-differ-when-passive-components-are-removed',
                              'detail': {'first_difference_at': j, 'with': mine[j], 'without': wp['events'][j]}})
        # maximum time and equilibrium
        lm = obs['leaf_maxtime']
        if case['top_maxtime'] is not None and any(x != case['top_maxtime'] for x in lm.values()):
            v.append({'signature': 'setMaximumTime-not-forwarded', 'detail': lm})
        if 'leaf' not in case['tree'] and obs['maxtime'] != expected_maxtime(case['tree'], lm):
            v.append({'signature': 'maximumTime-not-the-largest', 'detail': {'got': obs['maxtime'], 'leaves': lm}})
        for k, (t, b) in enumerate(obs['equil']):
            if b != all(obs['leaf_equil'][l['id']][k] for l in leaves):
                v.append({'signature': 'equilibrium-not-conjunction', 'detail': {'t': t, 'got': b}})
        seen = {}
        for x in v:
            seen.setdefault(x['signature'], x)
        return list(seen.values())

    # ------------------------------------------------------------- Coq
    def to_coq(self, case, obs):
        if case.get('kind') == 'named_probe':
            return None
        if has_sub(case['tree']):
            return None        # subclassed nested sequences (own result, least running time) are outside the model: judged by D
        return self._to_coq(case, obs)

    def _to_coq(self, case, obs):
        tabs = static_tables()
        S = L.string

        def optstr(x):
            return 'None' if x is None else '(Some %s)' % S(x)

        def optq(x):
            return 'None' if x is None else '(Some %s)' % L.q(x)

        def levent(stem, p, name):
            pe = '(PParam %s)' % S(p) if isinstance(p, str) else '(PConst %s)' % L.q(p)
            return '{| le_stem := %s; le_p := %s; le_name := %s |}' % (S(stem), pe, S(name))

        def leaf(l):
            elem, fixed, req = [], [], []
            always = 'None'
            if l['type'] in tabs:
                tb = tabs[l['type']]
                elem = [levent(*e) for e in tb['elem']]
                req = tb['requests']
            elif l['type'] == 'script':
                for j, ev in enumerate(case['table']['procs'][l['pi']]['events']):
                    (elem if ev['kind'] == 'elem' else fixed).append(levent('L%d' % ev['locus'], ev['p'], 'ev%d_%d' % (l['pi'], j)))
            elif l['type'] == 'stats':
                always = '(Some true)'
            eqafter = 'None'
            if l.get('eq_after') == 'never':
                always = '(Some false)'
            elif 'eq_after' in l:
                eqafter = '(Some %s)' % L.q(l['eq_after'])
            mt = case['top_maxtime'] if case['top_maxtime'] is not None else l['maxtime']
            return ('(Leaf {| lf_id := %s; lf_inst := %s; lf_elem := %s; lf_fixed := %s; lf_stems := %s; lf_maxtime := %s; '
                    'lf_always := %s; lf_eqafter := %s; lf_requests := %s |})') % (
                L.nat(l['id']), optstr(l['inst']), L.lst(elem), L.lst(fixed), L.lst(self.expected_stems(l, case), S), L.q(mt),
                always, eqafter, L.lst(req, S))

        def tree(node):
            if 'leaf' in node:
                return leaf(node['leaf'])
            if 'seq' in node:
                return '(Seq %s)' % L.lst([tree(c) for c in node['seq']])
            return '(NamedSeq %s)' % L.lst(['(%s, %s)' % (S(n), tree(c)) for (n, c) in node['named']])

        def qdict(items):
            return L.lst(['(%s, %s)' % (S(k), L.q(val)) for k, val in items])

        exc = obs['exception']
        dup = bool(exc) and exc[0] == 'Exception' and 'already exists' in str(exc[1])
        keyerr = exc[1] if (exc and exc[0] == 'KeyError' and isinstance(exc[1], str)) else None
        if exc and not dup and keyerr is None:
            return None        # reported by D as run-raised
        tokens = {}

        def tok(val):
            return L.z(tokens.setdefault(repr(val), len(tokens)))

        def zdict(items):
            return L.lst(['(%s, %s)' % (S(k), tok(val)) for k, val in items])

        def lookup(x):
            i, k, d, got = x
            if isinstance(got, list):
                r = 'None' if got == ['KeyError', k] else '(Some (4999 # 1)%Q)'
            elif got is None:
                r = '(Some (4998 # 1)%Q)'
            else:
                r = '(Some %s)' % L.q(got)
            return '{| lo_leaf := %s; lo_key := %s; lo_default := %s; lo_result := %s |}' % (L.nat(i), S(k), optq(d), r)

        def getp(x):
            i, reqs, gp = x
            ks = L.lst(['(%s, %s)' % (S(k), optq(d)) for k, d in reqs])
            r = '(inl %s)' % L.lst(gp[1], L.q) if gp[0] == 'ok' else '(inr %s)' % S(gp[1])
            return '{| gp_leaf := %s; gp_keys := %s; gp_result := %s |}' % (L.nat(i), ks, r)

        def setp(sp):
            return '{| sp_inst := %s; sp_before := %s; sp_kvs := %s; sp_after := %s |}' % (
                optstr(sp['inst']), qdict(sp['before']), qdict(sp['kvs']), qdict(sp['after']))

        def snap(s):
            ex = L.lst(['(%s, %s)' % (L.nat(i), L.lst(['(%s, %s)' % (S(n), L.q(r) if r is not None else '(4999 # 1)%Q') for n, r in xs]))
                        for i, xs in sorted(s['extra'].items())])
            return '{| sn_sizes := %s; sn_extra := %s; sn_dist := %s |}' % (L.lst(s['sizes'], L.nat), ex, L.lst(
                ['(%s, %s, %s)' % (L.nat(i) if i >= 0 else '4998%nat', S(n or ''), L.q(r)) for i, n, r in s['dist']]))

        def event(e):
            return '{| eo_leaf := %s; eo_fn := %s; eo_attrs := %s; eo_loci := %s |}' % (
                L.nat(e['leaf']) if e['leaf'] >= 0 else '4998%nat', S(e['fn']), L.lst(e['attrs'], S), L.lst(e['loci'], S))

        given = [(k, val) for k, val in obs['given'] if isinstance(val, (int, float))]
        built = obs['built']
        names = obs.get('names')
        events = obs['events'][:60]
        return ('{| c_tree := %s; c_params := %s; c_results := %s; o_built := %s; o_dup := %s; o_keyerror := %s; o_all := %s; '
                'o_names := %s; o_loci := %s; o_snaps := %s; o_complete := %s; o_results := %s; o_maxtime := %s; o_equil := %s; '
                'o_lookups := %s; o_getparams := %s; o_setparams := %s; o_undecorated := %s; o_events := %s |}') % (
            tree(case['tree']), qdict(given),
            L.lst(['(%s, %s)' % (L.nat(i), zdict(items)) for i, items in sorted((obs.get('leaf_results') or {}).items())]),
            L.b(built), L.b(dup), optstr(keyerr),
            L.lst(obs['all'] if built else [l['id'] for l in leaves_of(case['tree'])], lambda i: L.nat(i) if i >= 0 else '4998%nat'),
            ('None' if names is None else '(Some %s)' % L.lst(names, S)) if built else
            ('(Some %s)' % L.lst([n for n, _ in case['tree']['named']], S) if 'named' in case['tree'] else 'None'),
            L.lst(['(%s, %s)' % (S(n), L.nat(o) if o >= 0 else '4998%nat') for n, o in obs.get('loci', [])]),
            L.lst(obs['snaps'], snap), L.b(obs['complete']), zdict(obs.get('results') or []),
            L.q(obs['maxtime']), L.lst(['(%s, %s)' % (L.q(t), L.b(b)) for t, b in obs['equil']]),
            L.lst(obs['lookups'], lookup), L.lst(obs['getparams'], getp), L.lst(obs['setparams'], setp),
            L.lst(['(%s, %s)' % (S(a), S(b)) for a, b in obs['undecorated']]), L.lst(events, event))

    def nontrivial(self, case, obs):
        if case.get('kind') == 'named_probe':
            return None
        return self._nontrivial(case, obs)

    def _nontrivial(self, case, obs):
        leaves = leaves_of(case['tree'])
        if len(leaves) < 2 or not obs.get('events'):
            return None
        given = dict(obs['given'])
        inst = {l['id']: l['inst'] for l in leaves}
        fallback = any(inst[i] is not None and (k + '@' + inst[i]) not in given for (i, k, d, got) in obs['lookups'])
        types = [l['type'] for l in leaves if l['type'] in COMP_TYPES]
        if fallback or len(types) != len(set(types)):
            return str((case['seed'], case['dynamics'], len(leaves)))
        return None

    def sample_view(self, case, obs):
        if case.get('kind') == 'named_probe':
            return {'case': case}
        return self._sample_view(case, obs)

    def _sample_view(self, case, obs):
        return {'tree': case['tree'], 'dynamics': case['dynamics'], 'parameters': obs.get('given'), 'allProcesses': obs.get('all'),
                'registry': obs.get('loci'), 'first_events': obs.get('events', [])[:6], 'results_keys': [k for k, _ in (obs.get('results') or [])],
                'exception': obs.get('exception')}

    # ------------------------------------------------------------- tie A
    def extra_obligations(self, workdir, tier):
        """the well-formedness obligation of C11_names_disjoint / C11_frame on the current code: no locus stem,
        state-variable stem or shared variable of a shipped compartmented model contains '@'"""
        import epydemic as ep
        out = []
        bad = []
        for name, cls in compart.models().items():
            try:
                p = cls()
                g = networkx.path_graph(3)
                dyn = ep.StochasticDynamics(p, g)
                params = compart.params_for(name, {'pSeed': 0.5, 'pInfect': 0.5, 'pRemove': 0.5, 'pAux': 0.5, 'tInf': 1.0, 'eff': 0.5, 'off': 0.0})
                dyn.setUp(dict(params))
                stems = list(dyn.loci().keys()) + [p.COMPARTMENT, p.OCCUPIED, p.T_OCCUPIED, p.T_HITTING, p.HITTING_PROCESS_NAME]
                dyn.tearDown()
                bad += [(name, s) for s in stems if '@' in s]
            except Exception as e:     # a model that cannot be built is another property's business
                out.append(('tieA:build:' + name, True, repr(e)))
        shared_ok = (ep.CompartmentedModel.T_OCCUPIED, ep.CompartmentedModel.T_HITTING, ep.CompartmentedModel.HITTING_PROCESS_NAME,
                     ep.SIR_FixedRecovery.INFECTION_TIME) == SHARED and ep.SIS_FixedRecovery.INFECTION_TIME == SHARED[3]
        out.append(('tieA:stems-without-at-sign', not bad, bad))
        out.append(('tieA:shared-variable-names', shared_ok, SHARED))
        return out
