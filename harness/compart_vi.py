"""Rendering of a run of SIR_VariableInfection (harness/compart.py run_case) for Tie/CompartVI.v.

Tie A: the loci table, the REGISTERED events and the index of the SI locus are read off the live
objects of this run (obs['loci_specs'], obs['registration']); the summaries of infect / remove are
the static map of harness/compart_coq.py (validated by the co-execution).
Tie B: the observations, plus the set-up: the values rng.random() returned inside
initialInfectivities (the last |E| values served before the simulation started) are handed to the
model, which rebuilds the per-edge infectivity from them and the edge list; the result is compared
with the edge attributes the implementation actually held when the simulation started."""
from vlib import coqlit as L
from harness import compart
from harness.compart_coq import hkind
from harness.kcommon import c_elem

MODEL = 'SIR_VariableInfection'

BAD = ('{| vc_model := {| vim_specs := []; vim_events := []; vim_si := 0%nat; vim_infect := HNop; vim_seed_post := None |}; vc_nodes := []; vc_edges := []; '
       'vc_init := []; vc_maxtime := 0; vc_monitor := None; vc_sync := false; vc_inf_rands := []; vc_rands := []; vc_lns := []; '
       'vc_draws := []; vio_inf := []; vio_handlers := []; vio_taps := []; vio_final_comp := []; vio_final_loci := []; vio_occ := []; '
       'vio_hit := []; vio_counts := []; vio_observations := []; vio_time := 0; vio_events := 0%nat; vio_steps := 0%nat; vio_ok := false |}')


def infectivities_from_oracle(case, obs):
    """what initialInfectivities must have stored, from the oracle log and the graph alone:
    (edge list in g.edges() order, the |E| values served last before the simulation started)"""
    g = compart.make_graph(case['graph'])
    edges = list(g.edges())
    if case.get('vi_override'):
        return edges, list(case['vi_override']['run'])       # initialInfectivities overridden: the values it assigns
    k = obs['started_rand']
    if k is None or k < len(edges):
        return edges, None
    return edges, obs['rands'][k - len(edges):k]


def to_coq_vi(case, obs):
    import epydemic as ep
    if case['model'] != MODEL or obs.get('skipped') or case.get('second'):
        return None
    if case.get('vi_cut') is not None:
        return None                     # edges removed during the run: outside the dynamic model, judged by D
    sp = compart.spec(MODEL)
    pv = case['pv']
    ok = obs['exception'] is None and obs['time'] is not None and bool(obs['snaps'])
    if not ok:
        return BAD
    names = sorted(set(sp['comps']))
    code = {c: i + 1 for i, c in enumerate(names)}
    specs = []
    for ls in obs['loci_specs']:
        if ls[1] == 'node':
            specs.append('(NodeLocus %s)' % L.z(code[ls[2]]))
        elif ls[1] == 'edge':
            specs.append('(EdgeLocus %s %s)' % (L.z(code[ls[2]]), L.z(code[ls[3]])))
        else:
            return None
    lname = [ls[0] for ls in obs['loci_specs']]
    undec = [n.split('@')[0] for n in lname]
    if ep.SIR.SI not in undec:
        return BAD
    si = undec.index(ep.SIR.SI)
    mpi = 1 if case.get('seq') else 0
    regs = obs['registration'].get(mpi, [])
    if any(r['kind'] != 'elem' for r in regs) or any(r['fn'] == 'infect' for r in regs):
        return BAD                      # the dynamic model has no fixed-rate events and infection is not registered
    nreg = len(regs)
    events = ['{| ce_elem := true; ce_locus := %s; ce_p := %s; ce_kind := %s |}' % (
        L.nat(r['li']), L.q(r['p']), hkind(MODEL, r['fn'], code, sp, pv, nreg)) for r in regs]
    seed_post = 'None'
    if case.get('vi_post') is not None:
        # the harness' subclass: setUp posts postEvent(T, n, self.remove) for every initially infected node
        krem = [j for j, r in enumerate(regs) if r['fn'] == 'remove']
        if len(krem) != 1:
            return BAD
        seed_post = '(Some (%s, %s, %s))' % (L.z(code[sp['I']]), L.q(case['vi_post']), L.nat(krem[0]))
    vm = '{| vim_specs := %s; vim_events := %s; vim_si := %s; vim_infect := %s; vim_seed_post := %s |}' % (
        L.lst(specs), L.lst(events), L.nat(si), hkind(MODEL, 'infect', code, sp, pv, nreg), seed_post)
    s0 = obs['snaps'][0]
    g = compart.make_graph(case['graph'])
    nodes = list(g.nodes())
    edges, inf_rands = infectivities_from_oracle(case, obs)
    if inf_rands is None:
        return BAD
    init = [(n, code[s0['comps'][n]]) for n in nodes]
    rands = obs['rands'][obs['started_rand']:]
    obs_inf = ['(%s, %s, %s)' % (L.z(a), L.z(b), L.q(v if v is not None else -1)) for (a, b), v in s0['infectivity'].items()]
    key = {(r['fn'], r['li']): j for j, r in enumerate(regs)}
    key[('infect', si)] = nreg
    handlers = []
    for en in obs['entries']:
        if en['posted'] or en['member'] is None:
            continue
        k = key.get((en['fn'], en['li']))
        if k is None:
            return BAD
        handlers.append('(%s, %s, %s, %s)' % (L.nat(k), L.q(en['t']), c_elem(en['e']), L.b(en['member'])))
    taps = []
    for s in obs['snaps'][1:]:
        e = s['e'] if s['e'] is not None else 0
        taps.append('(%s, %s, %s, %s)' % (L.q(s['t']), L.nat(max(0, s['pi'])), L.b(bool(s.get('posted'))), c_elem(e)))
    fin = obs['final']
    final_comp = [(n, code[c]) for n, c in fin['comps'].items()]
    final_loci = [L.lst(fin['loci'][nm], c_elem) for nm in lname]
    occ_key = 'occupied' if obs['inst'] is None else 'occupied@' + obs['inst']
    occ = ['(%s, %s, %s)' % (L.z(a), L.z(b), L.q(d.get('tOccupied'))) for a, b, d in fin['edges'] if d.get(occ_key)]
    hit = ['(%s, %s)' % (L.z(n), L.q(d['tHitting'])) for n, d in fin['nodes'].items() if 'tHitting' in d]
    counts = []
    for c in sp['comps']:
        got = obs['results'].get(c)
        if got is None and obs['inst'] is not None:
            got = obs['results'].get(c + '@' + obs['inst'])
        counts.append('(%s, %s)' % (L.z(code[c]), L.nat(got if got is not None else 4999)))
    observations = []
    mon = obs.get('monitor')
    if mon:
        for i, t in enumerate(mon['times']):
            observations.append('(%s, %s)' % (L.q(t), L.lst([ser[i] if i < len(ser) else 4999 for ser in mon['series']], L.nat)))
    return ('{| vc_model := %s; vc_nodes := %s; vc_edges := %s; vc_init := %s; vc_maxtime := %s; vc_monitor := %s; vc_sync := %s; '
            'vc_inf_rands := %s; vc_rands := %s; vc_lns := %s; vc_draws := %s; vio_inf := %s; vio_handlers := %s; vio_taps := %s; '
            'vio_final_comp := %s; vio_final_loci := %s; vio_occ := %s; vio_hit := %s; vio_counts := %s; vio_observations := %s; '
            'vio_time := %s; vio_events := %s; vio_steps := %s; vio_ok := true |}') % (
        vm, L.lst(nodes, L.z), L.lst(edges, L.zpair), L.lst(init, L.zpair), L.q(case['maxtime']),
        '(Some %s)' % L.q(case.get('delta', 0.5)) if case.get('seq') else 'None', L.b(case['dynamics'] == 'synchronous'),
        L.lst(inf_rands, L.q), L.lst(rands, L.q), L.lst(obs['lns'], L.q), L.lst([max(0, d) for d in obs['draws']], L.nat),
        L.lst(obs_inf), L.lst(handlers), L.lst(taps), L.lst(final_comp, L.zpair), L.lst(final_loci), L.lst(occ), L.lst(hit),
        L.lst(counts), L.lst(observations), L.q(obs['time']), L.nat(obs['events']), L.nat(obs.get('steps') or 0))
