"""C02: stochastic dynamics samples the continuous-time Markov chain of the model.

Tie B (Tie/C02.v = Tie/Kernel.v + Tie/Compart.v): whole scripted Gillespie runs of (a) the purely
stochastic shipped models SIR, SIS, SIRS, SEIR, Opinion - bare, as a named instance, or in a
sequence behind a Monitor - and (b) ScriptProcess tables mixing per-element and fixed-rate events
with equal, zero and 1:1000 rates (all dyadic, so binary64 arithmetic on rates and thresholds is
exact), with and without a passive observer process and posted events that change loci between
selection and draw; plus a boundary stream in which one r2 is scripted to 0, to the largest
double below 1, or so that r2*a equals a prefix sum of the rates exactly.  SIR_VariableInfection
(one-element loci, rates drawn from the oracle) is run for D only.

D (independent of the Coq model): every iteration of the loop is recorded from outside by
wrapping Dynamics.eventRateDistribution (the loci and event functions it returns are replaced
by recording proxies); per iteration, from the oracle values served and the rates reported:
rate table, number of oracle values consumed, holding time, cumulative-rate interval of the
chosen kind (exact Fractions), emptiness guard, membership of the element, one draw per event."""
import math
from fractions import Fraction

from vlib.core import Harness
from harness import kcommon, compart, kscript

STOCH_MODELS = ['SIR', 'SIS', 'SIRS', 'SEIR', 'Opinion', 'SIR_VariableInfection']
ONE_BELOW = 1.0 - 2.0 ** -53
LO = 2.0 ** -10                 # 1:1000 exactly: LO and 1000*LO are both dyadic
HI = 1000.0 * LO


# ------------------------------------------------------------------ recording from outside
class LocusProxy:
    """stands in for a locus in the list eventRateDistribution returns"""

    def __init__(self, l, step, v, dyn):
        self._l = l
        self._step = step
        self._v = v
        self._dyn = dyn

    def __len__(self):
        n = len(self._l)
        self._step['lens'].append([self._v, n, self._dyn.currentSimulationTime()])
        return n

    def draw(self):
        before = list(self._l)
        e = self._l.draw()
        self._step['draws'].append([self._v, before, e])
        return e

    def process(self):
        return self._l.process()

    def __contains__(self, e):
        return e in self._l

    def __iter__(self):
        return iter(self._l)

    def __getattr__(self, n):
        return getattr(self._l, n)


class NoProgress(Exception):
    pass


class Probe:
    def __init__(self):
        self.stalled = 0
        self.steps = []
        self.orc = None
        self._orig = None

    def install(self):
        from epydemic import Dynamics
        self._orig = Dynamics.eventRateDistribution
        self._orig_setup = Dynamics.setUp
        probe = self

        def setup(dyn, params):
            # every run (earlier runs on the same object, runs of an earlier experiment that prepared the prototype) starts
            # a new record: only the last run is the observed one, whether or not it makes a single Gillespie iteration
            probe.steps = []
            probe.orc = None
            probe.stalled = 0
            return probe._orig_setup(dyn, params)
        Dynamics.setUp = setup

        def erd(dyn, t):
            import epydemic.stochasticdynamics as sd
            trs = probe._orig(dyn, t)
            if probe.orc is not sd.rng:
                probe.steps = []          # another run (another oracle) on the same experiment: only the last one is observed
            probe.orc = sd.rng
            pos = len(getattr(sd.rng, 'log', []))
            if probe.steps:
                probe.steps[-1]['log1'] = pos
                # a Gillespie iteration with a positive total rate advances the clock by dt > 0: the same time with
                # positive rates over and over again means that the loop has stopped making progress
                last = probe.steps[-1]
                if last['t'] == t and sum(last['rates']) > 0 and sum(r for (_, r, _, _) in trs) > 0:
                    probe.stalled += 1
                    if probe.stalled > 60:
                        raise NoProgress('simulation time stays at %r although the total rate is positive' % (t,))
                else:
                    probe.stalled = 0
            step = {'t': t, 'rates': [r for (_, r, _, _) in trs], 'names': [n for (_, _, _, n) in trs],
                    'tloci': [l.name() if hasattr(l, 'name') else None for (l, _, _, _) in trs],
                    'loci': {nm: list(l) for nm, l in dyn.loci().items()}, 'loci_list': [list(l) for l in dyn.loci().values()],
                    'log0': pos, 'log1': None, 'lens': [], 'draws': [], 'fired': []}
            probe.steps.append(step)
            out = []
            for v, (l, r, ef, name) in enumerate(trs):
                out.append((LocusProxy(l, step, v, dyn), r, probe.wrap(ef, l, step, v), name))
            return out
        Dynamics.eventRateDistribution = erd

    @staticmethod
    def wrap(ef, l, step, v):
        def w(t, e):
            step['fired'].append([v, t, e, list(l)])
            return ef(t, e)
        w.__name__ = getattr(ef, '__name__', 'ef')
        return w

    def uninstall(self):
        from epydemic import Dynamics
        if self._orig is not None:
            Dynamics.eventRateDistribution = self._orig
            Dynamics.setUp = self._orig_setup

    def finish(self):
        if self.orc is None:
            import epydemic.stochasticdynamics as sd
            self.orc = sd.rng           # a run without a single iteration
        log = list(getattr(self.orc, 'log', [])) if self.orc is not None else []
        if self.steps:
            self.steps[-1]['log1'] = len(log)
        for s in self.steps:
            sl = log[s['log0']:s['log1']]
            s['rands'] = [e[1] for e in sl if e[0] == 'random']
            s['nint'] = sum(1 for e in sl if e[0] == 'integers')
        return self.steps, log


# ------------------------------------------------------------------ generators
def rate_mix(rnd, n):
    kind = rnd.choice(['equal', 'zero', 'thousand', 'mixed', 'mixed'])
    if kind == 'equal':
        p = rnd.choice([0.25, 0.5, 1.0])
        return [p] * n
    if kind == 'zero':
        return [rnd.choice([0.0, 0.0, 0.5, 0.25]) for _ in range(n)]
    if kind == 'thousand':
        return [rnd.choice([LO, HI, LO, HI, 0.0]) for _ in range(n)]
    return [rnd.choice([0.0, 0.125, 0.25, 0.5, 0.5, 1.0, 2.0, LO, HI]) for _ in range(n)]


def gen_table(rnd):
    nprocs = rnd.choice([1, 1, 2])
    nloci = rnd.randrange(1, 4)
    loci = [{'owner': rnd.randrange(nprocs), 'init': rnd.sample(range(7), rnd.randrange(0, 7))} for _ in range(nloci)]
    loci.sort(key=lambda l: l['owner'])      # dyn.loci() lists loci process by process: keep the global index in that order
    if all(not l['init'] for l in loci):
        loci[0]['init'] = rnd.sample(range(7), rnd.randrange(2, 7))
    nprogs = rnd.randrange(2, 5)
    allow = ['ldiscardself', 'ldiscardself', 'laddself', 'ladd', 'ldiscard']
    progs = [kcommon.gen_actions(rnd, k, nprogs, nloci, allow, maxacts=2) for k in range(nprogs)]
    nev = rnd.randrange(2, 6)
    ps = rate_mix(rnd, nev)
    kinds = ['elem', 'elem', 'fixed']
    if rnd.random() < 0.2:
        # fixed-rate kinds whose total is a power of two: every prefix sum is an exactly representable boundary
        ps = list(rnd.choice([[0.25, 0.25, 0.5], [0.5, 0.0, 0.5], [24 * LO, HI, 0.0], [0.25, 0.0, 0.25, 0.0, 0.5], [HI, 24 * LO], [1.0, 0.5, 0.5]]))
        kinds = ['fixed']
    procs = [{'events': [], 'setup': []} for _ in range(nprocs)]
    for p in ps:
        li = rnd.randrange(nloci)
        procs[loci[li]['owner']]['events'].append({'kind': rnd.choice(kinds), 'locus': li, 'p': p,
                                                     'prog': rnd.randrange(nprogs)})
    # posted events that change loci between the selection and the draw of some iteration
    if rnd.random() < 0.4:
        for _ in range(rnd.randrange(1, 4)):
            progs.append([[rnd.choice(['ldiscard', 'ldiscard', 'ladd']), rnd.randrange(nloci), rnd.randrange(7)]
                          for _ in range(rnd.randrange(1, 4))])
            procs[rnd.randrange(nprocs)]['setup'].append(['post', rnd.choice([0.0, 0.125, 0.25, 0.5, 1.0]), len(progs) - 1])
    observer = rnd.random() < 0.35
    if observer:
        # a process with no stochastic events in front: it only posts a repeating observation
        progs.append([['observe']])
        for l in loci:
            l['owner'] += 1
        procs = [{'events': [], 'setup': [['postrep', 0.0, rnd.choice([0.25, 0.5]), len(progs) - 1]]}] + procs
    if rnd.random() < 0.3:
        # a component registering its events WITHOUT names (several unnamed events on one locus are distinct events)
        for ev in rnd.choice(procs)['events']:
            ev['unnamed'] = True
    return {'maxtime': rnd.choice([1.0, 2.0, 3.0]), 'loci': loci, 'procs': procs, 'progs': progs}


def gen_compart(rnd, i):
    model = STOCH_MODELS[i % len(STOCH_MODELS)]
    c = compart.gen_case(rnd, model=model, dynamics='stochastic')
    c['kind'] = 'compart'
    c['prerun'] = bool(c.get('vi_override')) or rnd.random() < 0.3       # an earlier run on the same objects
    c['inst'] = [None, 'a', None][(i // len(STOCH_MODELS)) % 3]
    c['seq'] = (i // (3 * len(STOCH_MODELS))) % 2 == 1 or rnd.random() < 0.2
    if rnd.random() < 0.3:
        c['pv']['pSeed'] = 0.5
    return c


# ---------------------------------------------------------------- element-less loci (D only)
# A locus may report a size and decline to name an element (DrawSet.draw's documented None; the library's own
# test_stochasticrates.DummyLocus does it): its events still have the rate probability x size, are still chosen in proportion
# to it, and are still fired - with None for the element.

def gen_dummy(rnd):
    k = rnd.randrange(1, 5)
    return {'kind': 'dummy', 'seed': rnd.randrange(1 << 30), 'maxtime': rnd.choice([1.0, 2.0, 3.0]),
            'events': [{'size': rnd.choice([0, 1, 1, 2, 5]), 'p': rnd.choice([0.0, 0.25, 0.5, 1.0, 2.0]), 'elem': rnd.random() < 0.5,
                        'real': rnd.random() < 0.25} for _ in range(k)]}


def run_dummy(case):
    import epydemic
    from epydemic import Locus, Process, StochasticDynamics
    from vlib.oracle import Oracle, install
    import networkx

    class Sized(Locus):
        def __init__(self, name, n):
            super().__init__(name)
            self._n = n

        def __len__(self):
            return self._n

        def draw(self):
            return None

    fired = []
    iters = []

    class P(Process):
        def build(self_, params):
            super().build(params)
            for j, ev in enumerate(case['events']):
                nm = 'D%d' % j
                if ev['real']:
                    loc = self_.addLocus(nm)
                    for x in range(ev['size']):
                        loc.add(x)
                else:
                    self_.addLocus(nm, Sized(nm, ev['size']))

                def h(t, e, j=j):
                    fired.append([len(iters) - 1, j, t, e])
                (self_.addEventPerElement if ev['elem'] else self_.addFixedRateEvent)(nm, ev['p'], h, name=nm)
    proc = P()
    proc.setMaximumTime(case['maxtime'])
    dyn = StochasticDynamics(proc, networkx.path_graph(2))
    orc = install(Oracle(seed=case['seed']))
    orig = dyn.eventRateDistribution

    def erd(t):
        trs = orig(t)
        iters.append({'t': t, 'rates': [r for (_, r, _, _) in trs], 'names': [n for (_, _, _, n) in trs], 'nrand': len(orc.values('random'))})
        if len(iters) > 400:
            raise kscript.Budget('run exceeds the harness budget')
        return trs
    dyn.eventRateDistribution = erd
    taps = []
    dyn.eventFired = lambda t, p, name, e: taps.append([t, name, e])
    exc = None
    try:
        dyn.set({}).run(fatal=True)
    except kscript.Budget:
        pass
    except Exception as e:
        exc = type(e).__name__ + ': ' + str(e)
    return {'exception': exc, 'iters': iters, 'fired': fired, 'taps': taps, 'rands': [e[1] for e in orc.values('random')],
            'gsteps': [], 'stats': {'kind_dummy': 1, 'dummy_events_fired': len(fired)}}


def direct_dummy(case, obs):
    if obs['exception']:
        return [{'signature': 'run-raised:dummy:' + obs['exception'].split(':')[0], 'detail': obs['exception']}]
    v = []
    evs = case['events']
    its = obs['iters']
    for i, it in enumerate(its):
        want = sorted(('D%d' % j, Fraction(ev['p']) * ev['size'] if ev['elem'] else Fraction(ev['p'])) for j, ev in enumerate(evs))
        got = sorted((n, Fraction(r)) for n, r in zip(it['names'], it['rates']))
        if want != got:
            v.append({'signature': 'rate-table-differs:dummy', 'detail': {'iteration': i, 'rates': it['rates'], 'names': it['names']}})
            break
        a = exact_total(it['rates'])
        calls = [f for f in obs['fired'] if f[0] == i]
        nr = (its[i + 1]['nrand'] if i + 1 < len(its) else len(obs['rands'])) - it['nrand']
        if a == 0:
            if calls:
                v.append({'signature': 'event-although-total-rate-zero:dummy', 'detail': {'iteration': i}})
            continue
        if nr == 0 and i + 1 == len(its):
            continue                      # the loop ended (equilibrium) before this distribution was used
        # the kind chosen by the threshold r2*a (r2 is the second variate of the iteration when there are several kinds)
        if len(it['rates']) > 1 and nr >= 2:
            xc = Fraction(obs['rands'][it['nrand'] + 1]) * a
            acc, ok = Fraction(0), []
            for j, r in enumerate(it['rates']):
                lo, acc = acc, acc + Fraction(r)
                if lo <= xc <= acc and r > 0:
                    ok.append(j)
        else:
            ok = [j for j, r in enumerate(it['rates']) if r > 0][:1] if len(it['rates']) == 1 else list(range(len(it['rates'])))
        sizes = {('D%d' % j): ev['size'] for j, ev in enumerate(evs)}
        if len(calls) != 1:
            # nothing fires only if the chosen locus is empty (size 0 with a fixed-rate event of positive probability)
            may_be_empty = any(sizes[it['names'][j]] == 0 for j in ok)
            if not (len(calls) == 0 and may_be_empty):
                v.append({'signature': 'not-exactly-one-event-in-an-iteration-with-positive-rate:dummy',
                          'detail': {'iteration': i, 't': it['t'], 'rates': it['rates'], 'calls': calls, 'acceptable_kinds': ok}})
            continue
        _, j, t, e = calls[0]
        idx = it['names'].index('D%d' % j)
        if idx not in ok:
            v.append({'signature': 'kind-interval-does-not-contain-threshold:dummy', 'detail': {'iteration': i, 'fired': j, 'acceptable': ok, 'rates': it['rates']}})
        if not evs[j]['real'] and e is not None:
            v.append({'signature': 'element-invented-for-an-element-less-locus:dummy', 'detail': {'iteration': i, 'e': e}})
    if len(obs['taps']) != len(obs['fired']):
        v.append({'signature': 'taps-differ-from-events:dummy', 'detail': {'taps': len(obs['taps']), 'events': len(obs['fired'])}})
    return v


def run_probed(case):
    probe = Probe()
    probe.install()
    try:
        if case['kind'] == 'compart':
            obs = compart.run_case(case)
        else:
            obs = kcommon.run_case(case)
    finally:
        probe.uninstall()
    steps, log = probe.finish()
    obs['gsteps'] = steps
    obs['oracle_log'] = log
    return obs


def exact_total(rates):
    return sum((Fraction(r) for r in rates), Fraction(0))


def boundary_variant(case, rnd):
    """Second pass: replay the case up to one iteration and script its r2 to a boundary value."""
    try:
        obs = run_probed(case)
    except Exception:
        return None
    if obs.get('exception') or obs.get('skipped'):
        return None
    steps = obs['gsteps']
    log = obs['oracle_log']
    cands = [k for k, s in enumerate(steps) if len(s['rates']) > 1 and exact_total(s['rates']) > 0 and len(s['rands']) == 2][:8]
    if not cands:
        return None

    def prefixes(s):
        a = exact_total(s['rates'])
        out, pre = [], Fraction(0)
        for j, r in enumerate(s['rates'][:-1]):
            pre += Fraction(r)
            if 0 < pre < a:
                r2 = float(pre / a)
                if Fraction(r2) * a == pre and r2 * float(a) == float(pre):
                    out.append(('prefix%d' % (j + 1), r2))
        return out
    withp = [k for k in cands if prefixes(steps[k])]
    if withp and rnd.random() < 0.6:
        k = rnd.choice(withp)
        which, r2 = rnd.choice(prefixes(steps[k]))
    else:
        k = rnd.choice(cands)
        a = exact_total(steps[k]['rates'])
        opts = [('zero', 0.0)]
        pow2 = a.numerator & (a.numerator - 1) == 0 and a.denominator & (a.denominator - 1) == 0
        # (1 - 2^-53) * a is exact when a is a power of two; otherwise it may round to a, and the scan then falls
        # through to the last entry: harmless when that entry has a positive rate (DESIGN.md C02, not covered otherwise)
        if pow2 or steps[k]['rates'][-1] > 0:
            opts.append(('max', ONE_BELOW))
        which, r2 = rnd.choice(opts)
    s = steps[k]
    before = log[:s['log0']]
    rands = [e[1] for e in before if e[0] == 'random'] + [s['rands'][0], r2]
    ints = [e[3] - e[1] for e in before if e[0] == 'integers']
    c = dict(case)
    c['script'] = {'random': rands, 'integers': ints}
    c['boundary'] = {'step': k, 'which': which, 'r2': r2}
    return c


# ------------------------------------------------------------------ the direct oracle
def expected_rates(case, obs, step):
    """rates the property prescribes for the loci as they were when the distribution was pulled, one entry
    (locus name, event name, rate) per registered event; compared as a multiset (the order is not part of the law)"""
    loci = step['loci']
    out = []
    if case['kind'] == 'table':
        tb = case['table']
        for pi, p in enumerate(tb['procs']):
            for j, ev in enumerate(p['events']):
                n = len(loci['L%d' % ev['locus']])
                out.append(('L%d' % ev['locus'], None if ev.get('unnamed') else 'ev%d_%d' % (pi, j), Fraction(ev['p']) * n if ev['kind'] == 'elem' else Fraction(ev['p'])))
        return out
    regs = obs.get('registration') or {}
    for pi in sorted(regs):
        for r in regs[pi]:
            # the probability is the one the model's PARAMETERS prescribe for this event (not what the code registered)
            p = r['p']
            if pi == obs.get('primary_pi', 0):
                exp = compart.expected_registration(case['model'], r['fn'], case['pv'])
                if exp is not None:
                    p = exp[1]
            out.append((r['locus'], r['name'], Fraction(p) * len(step['loci_list'][r['li']]) if r['kind'] == 'elem' else Fraction(p)))
    if case['model'] == 'SIR_VariableInfection':
        import epydemic
        infl = obs['snaps'][0].get('infectivity', {}) if obs.get('snaps') else {}
        si = [i for i, ls in enumerate(obs['loci_specs']) if ls[1] == 'edge']
        for e in (step['loci_list'][si[0]] if si else []):
            out.append((None, epydemic.SIR.INFECTED, Fraction(infl[tuple(sorted(e))])))
    return out


def direct_c02(case, obs):
    if obs.get('skipped'):
        return []
    tag = case.get('model', 'table')
    if obs.get('exception'):
        return [{'signature': 'run-raised:%s:%s' % (tag, obs['exception'].split(':')[0]), 'detail': obs['exception']}]
    v = []
    steps = obs['gsteps']
    for k, s in enumerate(steps):
        rates = s['rates']
        n = len(rates)
        ctx = {'step': k, 't': s['t'], 'rates': rates, 'names': s['names'], 'rands': s['rands']}
        # -- the rate table
        exp = expected_rates(case, obs, s)
        got = [(s['tloci'][i], s['names'][i], Fraction(rates[i])) for i in range(n)]
        if sorted(exp, key=str) != sorted(got, key=str):
            v.append({'signature': 'rate-table-differs:' + tag, 'detail': dict(ctx, expected=[[x[0], x[1], str(x[2])] for x in exp])})
            continue
        if any(r < 0 for r in rates):
            v.append({'signature': 'negative-rate:' + tag, 'detail': ctx})
            continue
        a = exact_total(rates)
        touched = sorted({x[0] for x in s['lens']} | {x[0] for x in s['draws']} | {x[0] for x in s['fired']})
        nt = steps[k + 1]['t'] if k + 1 < len(steps) else obs['time']
        if a == 0:
            if s['rands'] or s['draws'] or s['fired'] or s['nint']:
                v.append({'signature': 'oracle-consumed-with-zero-total-rate:' + tag, 'detail': ctx})
            continue
        # -- number of oracle values consumed: r1 always, r2 iff more than one transition
        want = 1 + (1 if n > 1 else 0)
        if len(s['rands']) != want:
            v.append({'signature': 'wrong-number-of-uniform-variates:' + tag, 'detail': dict(ctx, expected=want)})
            continue
        # -- holding time
        r1 = s['rands'][0]
        dt = (1.0 / float(a)) * math.log(1.0 / r1)
        ent = s['t'] + dt
        if nt is None or abs(nt - ent) > 1e-9 * dt + 4 * math.ulp(max(abs(ent), abs(s['t']), 1e-300)):
            v.append({'signature': 'holding-time-not-ln(1/r1)/a:' + tag, 'detail': dict(ctx, a=float(a), expected_next_time=ent, next_time=nt)})
        # -- the kind: its cumulative-rate interval contains xc = r2 * a
        if n > 1:
            xc = Fraction(s['rands'][1]) * a
            tol = Fraction(1, 10 ** 12) * a
            ok, pre = [], Fraction(0)
            for j, r in enumerate(rates):
                fr = Fraction(r)
                if fr > 0 and pre - tol <= xc < pre + fr + tol:
                    ok.append(j)
                pre += fr
        else:
            xc = None
            ok = [0]
        if len(touched) > 1:
            v.append({'signature': 'more-than-one-kind-handled-in-one-iteration:' + tag, 'detail': dict(ctx, touched=touched)})
            continue
        if not touched:
            v.append({'signature': 'no-kind-handled-with-positive-total-rate:' + tag, 'detail': ctx})
            continue
        j = touched[0]
        ctx = dict(ctx, chosen=j, xc=str(xc), acceptable=ok)
        if rates[j] == 0:
            v.append({'signature': 'zero-rate-event-chosen:' + tag, 'detail': ctx})
        elif j not in ok:
            v.append({'signature': 'kind-interval-does-not-contain-threshold:' + tag, 'detail': ctx})
        # -- the element: emptiness guard, one draw, membership
        # size of the chosen locus when the loop looked at it (or, if it never asked, when it drew)
        size = s['lens'][-1][1] if s['lens'] else (len(s['draws'][0][1]) if s['draws'] else None)
        if size is None:
            v.append({'signature': 'event-without-draw:' + tag, 'detail': ctx})
        elif size == 0:
            if s['draws'] or s['fired']:
                v.append({'signature': 'event-on-empty-locus:' + tag, 'detail': ctx})
        else:
            if len(s['draws']) != 1 or len(s['fired']) != 1:
                v.append({'signature': 'not-exactly-one-draw-and-one-event:' + tag, 'detail': dict(ctx, draws=len(s['draws']), fired=len(s['fired']))})
            else:
                dv, before, e = s['draws'][0]
                fv, ft, fe, members = s['fired'][0]
                if e not in before:
                    v.append({'signature': 'drawn-element-not-in-locus:' + tag, 'detail': dict(ctx, element=e, locus=before)})
                if fe != e or fv != dv:
                    v.append({'signature': 'event-not-on-the-drawn-element:' + tag, 'detail': dict(ctx, drawn=e, fired=fe)})
                if fe not in members:
                    v.append({'signature': 'element-not-in-locus-at-the-call:' + tag, 'detail': dict(ctx, element=fe, locus=members)})
                if nt is not None and ft != nt:
                    v.append({'signature': 'event-time-is-not-the-new-time:' + tag, 'detail': dict(ctx, event_time=ft, next_time=nt)})
    # -- the loop goes on as long as the chain does: a run that stops before its maximum time stops because nothing can
    # happen any more (total rate 0, nothing pending) or because the process itself is at equilibrium (Opinion's own test)
    maxtime = case['table']['maxtime'] if case['kind'] == 'table' else case['maxtime']
    end = obs.get('time')
    own_equilibrium = case['kind'] != 'table' and case.get('model') in ('Opinion', 'Vaccinate')
    if end is not None and end < maxtime and not own_equilibrium:
        if not steps:
            v.append({'signature': 'run-ended-early-without-looking-at-the-rates:' + tag, 'detail': {'TIME': end, 'maximum_time': maxtime}})
        elif exact_total(steps[-1]['rates']) != 0:
            v.append({'signature': 'run-ended-early-although-events-were-possible:' + tag,
                      'detail': {'TIME': end, 'maximum_time': maxtime, 'rates_at_last_look': steps[-1]['rates'], 'names': steps[-1]['names']}})
    # -- and it is judged at all: events without a single look at the rate table mean the oracle saw nothing
    if (obs.get('events') or 0) > 0 and not steps and case['kind'] != 'table':
        v.append({'signature': 'events-fired-but-the-rate-distribution-was-never-consulted:' + tag, 'detail': {'events': obs.get('events')}})
    seen = {}
    for x in v:
        seen.setdefault(x['signature'], x)
    return list(seen.values())


KFIELDS = ['c_tb', 'c_sync', 'c_rands', 'c_lns', 'c_draws', 'o_obs', 'o_time', 'o_events', 'o_steps', 'o_ok']


class H(Harness):
    ID = 'C02'
    ANCHOR_FILES = ['epydemic/stochasticdynamics.py', 'epydemic/process.py', 'epydemic/networkdynamics.py', 'epydemic/bbt.py', 'epydemic/drawset.py', 'epydemic/__init__.py', 'epydemic/sir_model_variable_infection.py']
    TIE_IMPORT = 'From EpyV Require Import Model.Kernel Model.Loci Model.Compart Tie.Kernel Tie.Compart Tie.C02.\nOpen Scope Q_scope.'
    CHECK_FN = 'EpyV.Tie.C02.check_case'
    VO_TARGETS = ['Properties/C02.vo', 'Tie/C02.vo']
    QUICK_N = 360
    THOROUGH_N = 3600
    CASE_TIMEOUT = 30
    ALLOWED_AXIOMS = {'ClassicalDedekindReals.sig_forall_dec', 'ClassicalDedekindReals.sig_not_dec',
                      'FunctionalExtensionality.functional_extensionality_dep', 'Classical_Prop.classic'}
    RULE = ('whole scripted Gillespie runs: SIR, SIS, SIRS, SEIR, Opinion, SIR_VariableInfection (D only) on networks of 2-7 nodes '
            '(path, star, complete, cycle, random, triangle with tail), dyadic parameters incl. 0 and 1, bare / named instance / behind a '
            'Monitor in a ProcessSequence; ScriptProcess tables with 2-5 events mixing per-element and fixed-rate kinds, rate mixes '
            'equal / with zeros / 1:1000 (2^-10 and 1000*2^-10) / mixed, loci of 0-6 elements, handlers that move elements between loci, '
            'posted events that change loci between selection and draw, optional observer process; one third of the cases re-run with '
            'one r2 scripted to 0, the largest double below 1 or an exact prefix-sum boundary; non-trivial = at least 2 iterations '
            'with positive total rate of which one fired an event; distinct by the whole case')
    TRUSTED = ['Coq 8.16.1 kernel incl. vm_compute', 'harness/c02.py (recording proxies around Dynamics.eventRateDistribution), harness/compart.py, '
               'harness/kscript.py, harness/kcommon.py, vlib/oracle.py',
               'standard-library axioms of the real numbers (C02_holding_time only)']
    ASSUMPTIONS = ['a uniform variate lands in an interval with probability equal to its length (not formalised)',
                   'numpy.random.Generator.random/integers are uniform (not verified)',
                   'ln(1/r1) is supplied to the Coq model by recording math.log; D recomputes it with math.log from the served r1',
                   'DrawSet.draw is observed (rank of the returned element); its exact uniformity is the subject of C09',
                   'r1 = 0.0 (ZeroDivisionError) and the fall-through of the scan when float rounding makes r2*a reach the total are outside (DESIGN.md C02)']

    def gen_cases(self, tier, rnd, n):
        base = []
        nc = n // 2
        for i in range(nc):
            base.append(gen_compart(rnd, i))
        for i in range(n - nc):
            base.append({'kind': 'table', 'table': gen_table(rnd), 'dynamics': 'stochastic', 'seed': rnd.randrange(1 << 30),
                         'prerun': rnd.choice([False, False, True, 'vary'])})
        out = list(base)
        for _ in range(max(20, n // 10)):
            out.append(gen_dummy(rnd))
        for c in base:
            if rnd.random() < 0.34:
                b = boundary_variant(c, rnd)
                if b is not None:
                    out.append(b)
        return out

    def execute(self, case):
        if case['kind'] == 'dummy':
            return run_dummy(case)
        obs = run_probed(case)
        st = {}
        if not obs.get('skipped') and not obs.get('exception'):
            pos = [s for s in obs['gsteps'] if s['rands']]
            st['iterations'] = len(pos)
            st['events_fired'] = sum(len(s['fired']) for s in pos)
            st['empty_locus_chosen'] = sum(1 for s in pos if s['lens'] and s['lens'][-1][1] == 0)
            st['zero_rate_present'] = sum(1 for s in pos if any(r == 0 for r in s['rates']))
            st['single_transition'] = sum(1 for s in pos if len(s['rates']) == 1)
            if case.get('boundary'):
                st['boundary_' + case['boundary']['which'].rstrip('0123456789')] = 1
            st['kind_' + case['kind']] = 1
        else:
            st['skipped_or_raised'] = 1
        obs['stats'] = st
        return obs

    def direct(self, case, obs):
        if case['kind'] == 'dummy':
            return direct_dummy(case, obs)
        return direct_c02(case, obs)

    def to_coq(self, case, obs):
        if obs.get('skipped') or case['kind'] == 'dummy':
            return None
        if case['kind'] == 'compart':
            from harness import compart_coq
            t = compart_coq.to_coq(case, obs)
            return None if t is None else 'CC (%s)' % t
        t = kcommon.to_coq(case, obs)
        if t is None:
            return None
        for f in KFIELDS:
            t = t.replace(' %s := ' % f, ' EpyV.Tie.Kernel.%s := ' % f).replace('{| %s := ' % f, '{| EpyV.Tie.Kernel.%s := ' % f)
        return 'CK (%s)' % t

    def nontrivial(self, case, obs):
        if obs.get('skipped') or obs.get('exception'):
            return None
        if case['kind'] == 'dummy':
            return repr(sorted(case.items(), key=str)) if obs['fired'] else None
        pos = [s for s in obs['gsteps'] if s['rands']]
        if len(pos) >= 2 and any(s['fired'] for s in pos):
            return repr(sorted(((k, v) for k, v in case.items()), key=str))
        return None

    def sample_view(self, case, obs):
        if case['kind'] == 'dummy':
            return {'case': case, 'iterations': obs['iters'][:4], 'fired': obs['fired'][:6]}
        return {'case': {k: v for k, v in case.items() if k != 'script'}, 'boundary': case.get('boundary'),
                'iterations': [{'t': s['t'], 'rates': s['rates'], 'rands': s['rands'], 'chosen': [x[0] for x in s['lens']],
                                'fired': [[x[0], x[1], x[2]] for x in s['fired']]} for s in (obs.get('gsteps') or [])[:4]],
                'TIME': obs.get('time'), 'EVENTS': obs.get('events')}
