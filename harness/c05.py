"""C05: event functions are only invoked on live members of their locus.
Tie B: ScriptProcess runs whose handlers remove other elements of the same locus, posted events that
empty loci between selection and firing (Model/Kernel.v records membership at the instant of the call);
shipped models are covered through harness/compart.py (see shipped_cases).
D: membership and probability/emptiness guards checked at every event-function entry."""
from vlib.core import Harness
from harness import kcommon


class H(Harness):
    ID = 'C05'
    ANCHOR_FILES = ['epydemic/synchronousdynamics.py', 'epydemic/stochasticdynamics.py', 'epydemic/sir_model_variable_infection.py', 'epydemic/process.py', 'epydemic/drawset.py']
    TIE_IMPORT = kcommon.TIE_IMPORT
    CHECK_FN = kcommon.CHECK_FN
    # whole runs of the shipped models go through their own tie (marks left to C08)
    TIES = {'shipped': ('From EpyV Require Import Model.Kernel Model.KernelDyn Model.Loci Model.Compart Model.CompartV Model.CompartVI '
                        'Tie.Compart Tie.CompartV Tie.CompartVI Tie.CompartAll.\nOpen Scope Q_scope.', 'EpyV.Tie.CompartAll.check_all_nomarks')}
    VO_TARGETS = ['Properties/C05.vo', 'Tie/CompartAll.vo']
    QUICK_N = 500
    THOROUGH_N = 5000
    RULE = ('random ScriptProcess tables whose handlers discard/add elements of loci (incl. the element itself and competitors), posted events '
            'that empty a locus before the stochastic event of the same instant, probabilities incl. 0 and 1, both dynamics; plus runs of '
            'the shipped models on stars and small dense networks under synchronous dynamics with probability 1 (several selected events '
            'competing for one node), and SIR_VariableInfection extended by a posted removal of its seeds under Gillespie dynamics with low rates (a posted event empties the one-element locus of an infection already selected); non-trivial = some handler changed a locus that has a registered event and at least 3 events fired')
    TRUSTED = ['Coq 8.16.1 kernel incl. vm_compute', 'harness/kscript.py, harness/kcommon.py, harness/compart.py, vlib/oracle.py']
    ASSUMPTIONS = ['DrawSet.draw returns a member of the set it is called on (C09)']

    def gen_cases(self, tier, rnd, n):
        out = []
        allow = ['ldiscard', 'ldiscard', 'ldiscardself', 'ldiscardself', 'ladd', 'laddself', 'post']
        for i in range(n):
            dyn = rnd.choice(['stochastic', 'synchronous', 'synchronous'])
            tb = kcommon.gen_table(rnd, dyn, allow=allow, maxacts=4, unnamed_ok=True)
            out.append({'table': tb, 'dynamics': dyn, 'seed': rnd.randrange(1 << 30), 'prerun': rnd.random() < 0.25})
        # the zero-probability clause at its boundaries: a leading event of probability 0 with the kind-selecting variate
        # exactly 0 (Gillespie), and trial variates exactly 0 against probability 0 (synchronous)
        for i in range(max(24, n // 12)):
            dyn = 'stochastic' if i % 2 == 0 else 'synchronous'
            tb = kcommon.gen_table(rnd, dyn, allow=allow, maxacts=3)
            for pr in tb['procs']:
                for k, ev in enumerate(pr['events']):
                    if k % 2 == 0:
                        ev['p'] = 0.0
            if not any(ev['p'] == 0.0 for pr in tb['procs'] for ev in pr['events']):
                continue
            script = [0.5, 0.0] * 60 if dyn == 'stochastic' else [0.0] * 240
            out.append({'table': tb, 'dynamics': dyn, 'seed': rnd.randrange(1 << 30), 'prerun': False, 'script': {'random': script}})
        try:
            from harness import compart
            out += compart.c05_cases(rnd, max(20, n // 5))
            out += [compart.gen_case(rnd) for _ in range(max(20, n // 5))]
            out += compart.vi_post_cases(rnd, max(20, n // 10))
            out += compart.vi_cut_cases(rnd, max(20, n // 10))
            out += compart.vi_sync_rerun_cases(rnd, max(20, n // 12))
            out += compart.fr_rerun_cases(rnd, max(20, n // 12))
        except ImportError:
            pass
        return out

    def execute(self, case):
        if 'model' in case:
            from harness import compart
            return compart.run_case(case)
        return kcommon.run_case(case)

    def to_coq(self, case, obs):
        if 'model' in case:
            # whole runs of the shipped models, SIR_VariableInfection's state-dependent event table included
            from harness import compart_coq
            t = compart_coq.to_coq_all(case, obs)
            return None if t is None else ('shipped', t)
        return kcommon.to_coq(case, obs)

    def direct(self, case, obs):
        if obs.get('skipped'):
            return []
        if 'model' in case:
            from harness import compart
            return compart.direct_c05(case, obs)
        if obs['exception']:
            return [{'signature': 'run-raised', 'detail': obs['exception']}]
        v = []
        tb = case['table']
        for o in obs['obs']:
            if o[0] == 'handler' and o[5] is False:
                v.append({'signature': 'event-fired-on-non-member', 'detail': o})
            if o[0] == 'tap' and o[3].startswith('ev'):
                pi, j = map(int, o[3][2:].split('_'))
                ev = tb['procs'][pi]['events'][j]
                if ev['p'] == 0.0:
                    v.append({'signature': 'zero-probability-event-fired', 'detail': o})
        seen = {}
        for x in v:
            seen.setdefault(x['signature'], x)
        return list(seen.values())

    def nontrivial(self, case, obs):
        if obs.get('skipped') or 'model' in case:
            return str(case.get('seed')) if 'model' in case and not obs.get('skipped') else None
        hs = [o for o in obs.get('obs', []) if o[0] == 'handler' and o[5] is not None]
        if len(hs) >= 3:
            return str((case['seed'], case['dynamics']))
        return None

    def sample_view(self, case, obs):
        if 'model' in case:
            return {'case': case, 'events': (obs.get('events_log') or [])[:8]}
        if 'model' in case:
            return {'case': case, 'events': (obs.get('events_log') or [])[:8]}
        return {'table': case['table'], 'dynamics': case['dynamics'], 'first_observations': obs.get('obs', [])[:12]}
