"""C12: Monitor time series and network statistics report the true state.
Tie B: (a) whole runs of the shipped models in a sequence with a real Monitor (Tie/Compart.v compares the
Monitor's recorded observations with the model's OObserve stream); (b) NetworkStatistics results against
Model/NetStats.v.  D: (a) every series rebuilt from the event-tap stream; (b) statistics recomputed by the
harness's own degree count and BFS (no networkx)."""
import itertools

import networkx

from vlib import coqlit as L
from vlib.core import Harness
from vlib.oracle import Oracle, install
from harness import compart

DELTAS = [0.25, 0.5, 0.75, 1.5, 3.0]


def own_stats(nodes, edges):
    deg = {n: 0 for n in nodes}
    adj = {n: set() for n in nodes}
    for a, b in edges:
        deg[a] += 1
        deg[b] += 1
        adj[a].add(b)
        adj[b].add(a)
    kmax = max(deg.values()) if deg else 0
    hist = [sum(1 for d in deg.values() if d == i) for i in range(kmax + 1)] if deg else []
    seen = set()
    sizes = []
    for n in nodes:
        if n in seen:
            continue
        stack = [n]
        seen.add(n)
        k = 0
        while stack:
            x = stack.pop()
            k += 1
            for y in adj[x]:
                if y not in seen:
                    seen.add(y)
                    stack.append(y)
        sizes.append(k)
    sizes.sort(reverse=True)
    return {'N': len(nodes), 'M': len(edges), 'kmean': (2.0 * len(edges)) / len(nodes), 'kmax': kmax, 'kdist': hist,
            'components': len(sizes), 'lcc': sizes[0] if sizes else 0, 'slcc': sizes[1] if len(sizes) > 1 else 0}


def gen_stats_graph(rnd):
    n = rnd.randrange(1, 10)
    kind = rnd.choice(['empty', 'hub', 'clumps', 'random', 'random', 'complete', 'loops', 'path'])
    g = networkx.Graph()
    g.add_nodes_from(range(n))
    if kind == 'hub':
        g.add_edges_from((0, i) for i in range(1, n))
    elif kind == 'path':
        g.add_edges_from((i, i + 1) for i in range(n - 1))
    elif kind == 'complete':
        g.add_edges_from(itertools.combinations(range(n), 2))
    elif kind == 'clumps':
        cut = rnd.randrange(0, n)
        for a, b in itertools.combinations(range(n), 2):
            if (a < cut) == (b < cut) and rnd.random() < 0.6:
                g.add_edge(a, b)
    elif kind in ('random', 'loops'):
        for a, b in itertools.combinations(range(n), 2):
            if rnd.random() < rnd.choice([0.15, 0.4]):
                g.add_edge(a, b)
        if kind == 'loops':
            for a in range(n):
                if rnd.random() < 0.3:
                    g.add_edge(a, a)
    return {'nodes': list(g.nodes()), 'edges': [list(e) for e in g.edges()], 'kind': kind}


class H(Harness):
    ID = 'C12'
    ANCHOR_FILES = ['epydemic/monitor.py', 'epydemic/networkdynamics.py', 'epydemic/stochasticdynamics.py', 'epydemic/synchronousdynamics.py', 'epydemic/statistics.py']
    TIE_IMPORT = 'From EpyV Require Import Model.Kernel Model.Loci Model.Compart Tie.Compart Tie.C12.\nOpen Scope Q_scope.'
    CHECK_FN = 'EpyV.Tie.C12.check_case'
    VO_TARGETS = ['Properties/C12.vo', 'Tie/C12.vo']
    QUICK_N = 500
    THOROUGH_N = 5000
    RULE = ('(a) runs of every shipped compartmented model in a ProcessSequence with a Monitor, observation interval from {0.25, 0.5, 0.75, 1.5, 3} '
            '(dyadic; intervals that do not divide the run length and are below the event spacing), both dynamics; (b) NetworkStatistics on networks of 1-9 '
            'nodes: no edges, one hub, several clumps, random, complete, self-loops, path; non-trivial = a run with >= 2 observations between which a locus '
            'changed size, or a network with >= 2 components or a hub; distinct by the whole case')
    TRUSTED = ['Coq 8.16.1 kernel incl. vm_compute', 'harness/compart.py (event-tap snapshots of all locus sizes), harness/c12.py (own BFS and degree count)',
               'networkx degree_histogram / connected_components: compared on every case with Model/NetStats.v and with the harness BFS, not verified']
    ASSUMPTIONS = ['observation intervals are dyadic, so the repeated float addition t + delta is exact', 'the null network (division by zero in kmean) is outside the quantifier']

    def gen_cases(self, tier, rnd, n):
        out = []
        for i in range(n):
            if i % 2 == 0:
                c = compart.gen_case(rnd)
                c['seq'] = True
                c['delta'] = rnd.choice(DELTAS)
                out.append(c)
            else:
                out.append({'stats': gen_stats_graph(rnd)})
        return out

    def execute(self, case):
        if 'stats' in case:
            import epydemic as ep
            g = compart.make_graph(case['stats'])
            proc = ep.ProcessSequence([ep.SIR(), ep.NetworkStatistics()])
            dyn = ep.StochasticDynamics(proc, g)
            install(Oracle(seed=1))
            params = {ep.SIR.P_INFECTED: 0.0, ep.SIR.P_INFECT: 0.0, ep.SIR.P_REMOVE: 0.0}
            exc = None
            res = {}
            try:
                rc = dyn.set(params).run(fatal=True)
                import epyc
                res = rc[epyc.Experiment.RESULTS]
            except Exception as e:
                exc = type(e).__name__ + ': ' + str(e)
            S = ep.NetworkStatistics
            return {'exception': exc, 'g_nodes': list(g.nodes()), 'g_edges': [tuple(e) for e in g.edges()],
                    'netstats': {k: res.get(v) for k, v in (('N', S.N), ('M', S.M), ('kmean', S.KMEAN), ('kmax', S.KMAX), ('kdist', S.KDIST),
                                                         ('components', S.COMPONENTS), ('lcc', S.LCC), ('slcc', S.SLCC))}}
        return compart.run_case(case)

    def direct(self, case, obs):
        if obs.get('skipped'):
            return []
        if obs['exception']:
            return [{'signature': 'run-raised', 'detail': obs['exception']}]
        v = []
        if 'stats' in case:
            exp = own_stats(obs['g_nodes'], obs['g_edges'])
            for k, x in exp.items():
                got = obs['netstats'].get(k)
                if k == 'kdist':
                    got = list(got) if got is not None else None
                ok = (abs(got - x) <= 1e-12 * max(1.0, abs(x))) if (k == 'kmean' and got is not None) else (got == x)
                if not ok:
                    v.append({'signature': 'statistic-wrong:' + k, 'detail': {'reported': got, 'true': x, 'graph': case['stats']}})
            return v
        if obs.get('earlier_results_intact') is False:
            # the time series an earlier run on the same objects reported must still be what that run observed
            v.append({'signature': 'results-of-an-earlier-run-changed-by-a-later-run', 'detail': None})
        mon = obs.get('monitor')
        if mon is None:
            return v + [{'signature': 'monitor-results-missing', 'detail': None}]
        delta = case['delta']
        end = obs['time'] if case['dynamics'] == 'stochastic' else obs['time'] - 1.0
        exp_times = []
        t = 0.0
        while t <= end:
            exp_times.append(t)
            t = t + delta
        if mon['times'] != exp_times:
            v.append({'signature': 'observation-times', 'detail': {'recorded': mon['times'][:12], 'expected': exp_times[:12], 'TIME': obs['time'], 'delta': delta}})
        names = [ls[0] for ls in obs['loci_specs']]
        if len(mon['series']) != len(names) or any(len(s) != len(mon['times']) for s in mon['series']):
            v.append({'signature': 'series-shape', 'detail': {'loci': names, 'lengths': [len(s) for s in mon['series']], 'observations': len(mon['times'])}})
            return v
        # sizes after k events, k = 0..; the value recorded at tau must be the sizes after all events strictly
        # earlier than tau and before all events strictly later
        snaps = obs['snaps']
        sizes = [{k: (len(x) if isinstance(x, list) else x) for k, x in s['loci'].items()} for s in snaps]
        times = [s['t'] for s in snaps[1:]]
        for i, tau in enumerate(mon['times']):
            lo = sum(1 for x in times if x < tau)
            hi = sum(1 for x in times if x <= tau)
            rec = {nm: mon['series'][j][i] for j, nm in enumerate(names)}
            if not any(all(sizes[k].get(nm) == rec[nm] for nm in names) for k in range(lo, hi + 1)):
                v.append({'signature': 'observed-value-not-the-locus-size-at-that-time',
                          'detail': {'tau': tau, 'recorded': rec, 'sizes_before': sizes[lo], 'sizes_after_simultaneous': sizes[hi]}})
                break
        return v

    def to_coq(self, case, obs):
        if 'stats' in case:
            if obs['exception']:
                return '(CStats [] [] {| so_N := 4999; so_M := 0; so_kmean := 0; so_kmax := 0; so_kdist := []; so_components := 0; so_lcc := 0; so_slcc := 0 |})'
            s = obs['netstats']
            n = lambda x: L.nat(x if isinstance(x, int) and x >= 0 else 4999)
            return '(CStats %s %s {| so_N := %s; so_M := %s; so_kmean := %s; so_kmax := %s; so_kdist := %s; so_components := %s; so_lcc := %s; so_slcc := %s |})' % (
                L.lst(obs['g_nodes'], L.z), L.lst(obs['g_edges'], L.zpair), n(s['N']), n(s['M']), L.q(s['kmean'] if s['kmean'] is not None else 0),
                n(s['kmax']), L.lst(list(s['kdist'] or []), L.nat), n(s['components']), n(s['lcc']), n(s['slcc']))
        from harness import compart_coq
        t = compart_coq.to_coq(case, obs)
        return None if t is None else '(CRun %s)' % t

    def nontrivial(self, case, obs):
        if obs.get('skipped') or obs.get('exception'):
            return None
        if 'stats' in case:
            s = obs['netstats']
            return str(case) if (s.get('components') or 0) >= 2 or (s.get('kmax') or 0) >= 3 else None
        mon = obs.get('monitor') or {}
        ser = mon.get('series') or []
        return str(sorted(case.items(), key=str)) if any(len(set(s)) >= 2 for s in ser) else None

    def sample_view(self, case, obs):
        if 'stats' in case:
            return {'graph': case['stats'], 'reported': obs.get('netstats')}
        return {'case': case, 'monitor': obs.get('monitor')}
