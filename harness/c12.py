"""C12: Monitor time series and network statistics report the true state.
Tie B: (a) whole runs of the shipped models in a sequence with a real Monitor (Tie/Compart.v compares the
Monitor's recorded observations with the model's OObserve stream); (b) NetworkStatistics results against
Model/NetStats.v, on the network the run ENDED with.  D: (a) every series rebuilt from the event-tap stream, the set
of series against the loci registered; also for processes with plain loci and fixed-rate events (AddDelete, user
processes interpreted from a table; the latter also through the kernel tie, Tie/Kernel.v, the Monitor being the component that
posts the repeating program [observe]) and for a Monitor that is the last or a nested component;
(b) statistics recomputed by the harness's own degree count and BFS (no networkx) from the final network, which in
a third of the cases is not the prototype (a user process posting addNode/addEdge/removeNode/removeEdge, AddDelete,
Percolate).  A fifth of the (b) cases run the SAME NetworkStatistics and dynamics objects first over one or two other
networks (setNetworkGenerator between the runs) that have the order, size and degree histogram of the case's own
network but other components (unions of rings of other lengths, degree-preserving edge swaps); the LAST run is the
one judged, against the network IT ended with."""
import itertools

import networkx

from vlib import coqlit as L
from vlib.core import Harness
from vlib.oracle import Oracle, install
from harness import compart, kcommon, kscript

DELTAS = [0.25, 0.5, 0.75, 1.5, 3.0]
PLACES = ['first', 'last', 'nested', 'nested_last']


def own_stats(nodes, edges):
    deg = {n: 0 for n in nodes}
    adj = {n: set() for n in nodes}
    for a, b in edges:
        deg[a] += 1
        deg[b] += 1
        adj[a].add(b)
        adj[b].add(a)
    kmax = max(deg.values()) if deg else 0
    hist = [sum(1 for d in deg.values() if d == i) for i in range(kmax + 1)] if deg else []
    seen = set()
    sizes = []
    for n in nodes:
        if n in seen:
            continue
        stack = [n]
        seen.add(n)
        k = 0
        while stack:
            x = stack.pop()
            k += 1
            for y in adj[x]:
                if y not in seen:
                    seen.add(y)
                    stack.append(y)
        sizes.append(k)
    sizes.sort(reverse=True)
    return {'N': len(nodes), 'M': len(edges), 'kmean': (2.0 * len(edges)) / len(nodes), 'kmax': kmax, 'kdist': hist,
            'components': len(sizes), 'lcc': sizes[0] if sizes else 0, 'slcc': sizes[1] if len(sizes) > 1 else 0}


def gen_stats_graph(rnd):
    n = rnd.randrange(1, 10)
    kind = rnd.choice(['empty', 'hub', 'clumps', 'random', 'random', 'complete', 'loops', 'path'])
    g = networkx.Graph()
    g.add_nodes_from(range(n))
    if kind == 'hub':
        g.add_edges_from((0, i) for i in range(1, n))
    elif kind == 'path':
        g.add_edges_from((i, i + 1) for i in range(n - 1))
    elif kind == 'complete':
        g.add_edges_from(itertools.combinations(range(n), 2))
    elif kind == 'clumps':
        cut = rnd.randrange(0, n)
        for a, b in itertools.combinations(range(n), 2):
            if (a < cut) == (b < cut) and rnd.random() < 0.6:
                g.add_edge(a, b)
    elif kind in ('random', 'loops'):
        for a, b in itertools.combinations(range(n), 2):
            if rnd.random() < rnd.choice([0.15, 0.4]):
                g.add_edge(a, b)
        if kind == 'loops':
            for a in range(n):
                if rnd.random() < 0.3:
                    g.add_edge(a, a)
    return {'nodes': list(g.nodes()), 'edges': [list(e) for e in g.edges()], 'kind': kind}


def ring_partitions(n, least=3):
    """the ways of writing n as a sum of ring lengths >= 3, each as a non-decreasing list"""
    out = []

    def go(rest, lo, acc):
        if rest == 0:
            out.append(list(acc))
        for k in range(lo, rest + 1):
            if rest - k == 0 or rest - k >= k:
                go(rest - k, k, acc + [k])
    go(n, least, [])
    return out


def rings(parts, labels, extra_edges):
    edges = []
    at = 0
    for k in parts:
        edges += [[labels[at + i], labels[at + (i + 1) % k]] for i in range(k)]
        at += k
    return edges + [list(e) for e in extra_edges]


def components_of(nodes, edges):
    s = own_stats(nodes, [tuple(e) for e in edges])
    return (s['components'], s['lcc'], s['slcc'])


def gen_same_fingerprint(rnd):
    """2-3 networks with the same order, size and degree histogram: unions of rings of different lengths (a 7-ring, a
    triangle and a square; with the same isolated nodes / the same separate path next to them), or a random network and
    what degree-preserving swaps of two edges make of it (kept when the components differ).  The last is the case's own."""
    if rnd.random() < 0.5:
        for _ in range(20):
            n = rnd.randrange(4, 10)
            nodes = list(range(n))
            p = rnd.choice([0.25, 0.35, 0.5])
            edges = [[a, b] for a, b in itertools.combinations(nodes, 2) if rnd.random() < p]
            if len(edges) < 2:
                continue
            cur = {tuple(e) for e in edges}
            out = [{'nodes': list(nodes), 'edges': [list(e) for e in sorted(cur)], 'kind': 'swapped'}]
            for _ in range(60):
                (a, b), (c, d) = rnd.sample(sorted(cur), 2)
                if rnd.random() < 0.5:
                    c, d = d, c
                # a-b, c-d  ->  a-d, c-b: every node keeps its degree (a walk; a network is kept when its components differ
                # from those of the one kept last; now and then the end of the walk is kept whatever its components)
                if len({a, b, c, d}) < 4 or tuple(sorted((a, d))) in cur or tuple(sorted((c, b))) in cur:
                    continue
                cur = (cur - {tuple(sorted((a, b))), tuple(sorted((c, d)))}) | {tuple(sorted((a, d))), tuple(sorted((c, b)))}
                if components_of(nodes, cur) != components_of(out[-1]['nodes'], out[-1]['edges']):
                    ns = list(nodes)
                    if rnd.random() < 0.3:
                        rnd.shuffle(ns)
                    out.append({'nodes': ns, 'edges': [list(e) for e in sorted(cur)], 'kind': 'swapped'})
                    if len(out) == 3 or rnd.random() < 0.6:
                        break
            if len(out) == 1 and cur != {tuple(e) for e in edges} and rnd.random() < 0.1:
                out.append({'nodes': list(nodes), 'edges': [list(e) for e in sorted(cur)], 'kind': 'swapped'})
            if len(out) >= 2:
                if rnd.random() < 0.5:
                    out.reverse()
                return out
    n = rnd.randrange(6, 13)
    parts = ring_partitions(n)
    chosen = rnd.sample(parts, min(len(parts), rnd.choice([2, 2, 3])))
    iso = rnd.choice([0, 0, 1, 2])
    path = rnd.choice([0, 0, 2, 3])
    out = []
    for ps in chosen:
        ps = list(ps)
        rnd.shuffle(ps)
        labels = list(range(n + iso + path))
        if rnd.random() < 0.4:
            rnd.shuffle(labels)
        tail = labels[n + iso:]
        nodes = sorted(labels) if rnd.random() < 0.7 else list(labels)
        out.append({'nodes': nodes, 'edges': rings(ps, labels, [(tail[i], tail[i + 1]) for i in range(len(tail) - 1)]), 'kind': 'rings'})
    return out


def gen_mutation(rnd, graph):
    """a process that changes the network during the run, to stand before (or after) NetworkStatistics in a sequence"""
    kind = rnd.choice(['script', 'script', 'adddelete', 'adddelete', 'percolate'])
    dynamics = rnd.choice(['stochastic', 'synchronous'])
    m = {'kind': kind, 'dynamics': dynamics, 'seed': rnd.randrange(1 << 30), 'stats_first': rnd.random() < 0.25}
    n = len(graph['nodes'])
    if kind == 'percolate':
        m['T'] = rnd.choice([0.0, 0.25, 0.5, 0.5, 0.75])
    elif kind == 'adddelete':
        sync = dynamics == 'synchronous'
        m['pAdd'] = rnd.choice([0.5, 1.0, 1.0] if sync else [0.5, 1.0, 2.0])
        if rnd.random() < 0.5:
            # growth only: a new node finds its `degree` neighbours among at least n others
            m['pDelete'] = 0.0
            m['degree'] = rnd.randrange(0, min(n, 3) + 1)
        else:
            m['pDelete'] = rnd.choice([0.25, 0.5, 1.0])
            m['degree'] = rnd.choice([0, 1])      # `add` fires only while the locus has a node: one other node is always there
        m['maxtime'] = rnd.choice([3.0, 4.0, 6.0]) if sync else rnd.choice([2.0, 3.0])
    else:
        nodes = list(graph['nodes'])
        edges = {tuple(sorted(e)) for e in graph['edges']}
        gone = []
        ops = []
        for _ in range(rnd.randrange(1, 7)):
            ch = rnd.choice(['addnode', 'addnode', 'addedge', 'addedge', 'rmnode', 'rmedge'])
            if ch == 'addnode':
                x = rnd.choice(gone) if gone and rnd.random() < 0.3 else rnd.choice([y for y in range(20, 40) if y not in nodes])
                nodes.append(x)
                if x in gone:
                    gone.remove(x)
                ops.append(['addnode', x])
            elif ch == 'addedge':
                a, b = rnd.choice(nodes), rnd.choice(nodes)
                if a == b and rnd.random() < 0.7:
                    continue
                edges.add(tuple(sorted((a, b))))
                ops.append(['addedge', a, b])
            elif ch == 'rmnode' and len(nodes) >= 2:
                x = rnd.choice(nodes)
                nodes.remove(x)
                gone.append(x)
                edges = {e for e in edges if x not in e}
                ops.append(['rmnode', x])
            elif ch == 'rmedge' and edges:
                e = rnd.choice(sorted(edges))
                edges.discard(e)
                ops.append(['rmedge', e[0], e[1]] if rnd.random() < 0.5 else ['rmedge', e[1], e[0]])
        if not ops:
            ops = [['addnode', 41]]
        # when each change happens (posted events; in order of posting among equal times)
        ts = sorted(rnd.choice([0.25, 0.5, 0.5, 1.0, 1.5, 2.5]) for _ in ops)
        m['ops'] = [[t] + op for t, op in zip(ts, ops)]
    return m


def monitored_table(table, delta):
    """the table of the kernel model for [Monitor, components of `table`]: component 0 owns nothing, has no events and posts the
    repeating program [observe] from time 0 (what Monitor.build does); the others move up by one"""
    import copy
    tb = copy.deepcopy(table)
    tb['progs'] = tb['progs'] + [[['observe']]]
    for l in tb['loci']:
        l['owner'] += 1
    tb['procs'] = [{'events': [], 'setup': [['postrep', 0.0, delta, len(tb['progs']) - 1]]}] + tb['procs']
    return tb


def gen_plain(rnd):
    """Monitor over processes whose loci are not compartmented: AddDelete (a locus that follows the order of the network, two
    fixed-rate events), a user process given by a table (plain loci changed by the event handlers, per-element and fixed-rate
    events, posted events), and - for the position of the Monitor in the sequence - SIR / SIS"""
    what = rnd.choice(['adddelete', 'adddelete', 'script', 'script', 'script', 'disease'])
    dynamics = rnd.choice(['stochastic', 'synchronous'])
    sync = dynamics == 'synchronous'
    c = {'plain': what, 'dynamics': dynamics, 'seed': rnd.randrange(1 << 30), 'delta': rnd.choice(DELTAS), 'place': rnd.choice(PLACES)}
    if what == 'adddelete':
        c['graph'] = compart.gen_graph(rnd, lo=1, hi=6)
        n = len(c['graph']['nodes'])
        c['pAdd'] = rnd.choice([0.25, 0.5, 1.0] if sync else [0.5, 1.0, 2.0])
        if rnd.random() < 0.4:
            c['pDelete'] = 0.0
            c['degree'] = rnd.randrange(0, min(n, 3) + 1)
        else:
            c['pDelete'] = rnd.choice([0.25, 0.5, 1.0] if sync else [0.5, 1.0, 2.0])
            c['degree'] = rnd.choice([0, 1])
        c['maxtime'] = rnd.choice([2.0, 3.0, 4.0]) if sync else rnd.choice([1.5, 3.0])
    elif what == 'script':
        c['table'] = kcommon.gen_table(rnd, dynamics, allow=['post', 'post', 'ladd', 'ldiscard', 'laddself', 'ldiscardself'],
                                       nprocs=rnd.choice([1, 1, 2, 3]))
    else:
        c['model'] = rnd.choice(['SIR', 'SIS', 'SEIR', 'Opinion'])
        c['graph'] = compart.gen_graph(rnd)
        c['pv'] = compart.gen_params(rnd, dynamics)
        c['maxtime'] = rnd.choice([2.0, 3.0, 4.0]) if sync else rnd.choice([1.5, 3.0])
    return c


class H(Harness):
    ID = 'C12'
    ANCHOR_FILES = ['epydemic/monitor.py', 'epydemic/networkdynamics.py', 'epydemic/stochasticdynamics.py', 'epydemic/synchronousdynamics.py', 'epydemic/statistics.py']
    TIE_IMPORT = 'From EpyV Require Import Model.Kernel Model.Loci Model.Compart Tie.Compart Tie.C12.\nOpen Scope Q_scope.'
    CHECK_FN = 'EpyV.Tie.C12.check_case'
    VO_TARGETS = ['Properties/C12.vo', 'Tie/C12.vo']
    TIES = {'kernel': (kcommon.TIE_IMPORT, kcommon.CHECK_FN)}       # Tie/Kernel.v is in the cone of Tie/C12.v
    QUICK_N = 650
    THOROUGH_N = 6500
    RULE = ('per 13 cases: 5 (a) runs of every shipped compartmented model in a ProcessSequence [Monitor, model], observation interval from {0.25, 0.5, 0.75, 1.5, 3} '
            '(dyadic; intervals that do not divide the run length and are below the event spacing), both dynamics; 3 (a\') Monitor over processes with plain loci and '
            'fixed-rate events - AddDelete (dyadic rates, growth only or with deletion), a user process interpreted from a random table (1-3 components, per-element '
            'and fixed-rate events, handlers that add/discard elements and post events; whole run also through the kernel tie), SIR/SIS/SEIR/Opinion - with the Monitor '
            'as first, last, nested-first or nested-last component; 5 (b) NetworkStatistics on networks of 1-9 '
            'nodes: no edges, one hub, several clumps, random, complete, self-loops, path; in 35% of these a process of the sequence changes the network during the run '
            '(a user process posting addNode/addEdge/removeNode/removeEdge at 0.25-2.5, AddDelete, Percolate with T in {0, 0.25, 0.5, 0.75}; both dynamics; NetworkStatistics '
            'first in a quarter of them) and the statistics are judged on the network the run ended with; a fifth of the (b) cases run the SAME NetworkStatistics and dynamics objects first over one or two other networks with the same order, size and degree histogram (unions of rings of other lengths on 6-12 nodes, also next to the same isolated nodes or path; random networks of 4-9 nodes after degree-preserving swaps of two edges, kept when the components differ; setNetworkGenerator between the runs) and judge the last run against the network it ended with; non-trivial = a run with >= 2 observations between which a locus '
            'changed size, or a network with >= 2 components or a hub or a final network that differs from the prototype; distinct by the whole case')
    TRUSTED = ['Coq 8.16.1 kernel incl. vm_compute', 'harness/compart.py (event-tap snapshots of all locus sizes), harness/c12.py (own BFS and degree count; event-tap snapshots for the '
               'plain-loci runs; the final network read from Dynamics.network() when the simulation reports its end), harness/kscript.py, harness/kcommon.py',
               'networkx degree_histogram / connected_components: compared on every case with Model/NetStats.v and with the harness BFS, not verified']
    ASSUMPTIONS = ['observation intervals are dyadic, so the repeated float addition t + delta is exact', 'the null network (division by zero in kmean) is outside the quantifier: a run that ends with it is skipped']

    def gen_cases(self, tier, rnd, n):
        out = []
        pattern = ['run', 'stats', 'plain', 'run', 'stats', 'run', 'stats', 'plain', 'run', 'stats', 'run', 'stats', 'plain']
        for i in range(n):
            what = pattern[i % len(pattern)]
            if what == 'run':
                c = compart.gen_case(rnd)
                c['seq'] = True
                c['delta'] = rnd.choice(DELTAS)
                out.append(c)
            elif what == 'plain':
                out.append(gen_plain(rnd))
            else:
                if rnd.random() < 0.2:
                    # the same objects run over networks with one fingerprint (N, M, degree histogram) and other components
                    nets = gen_same_fingerprint(rnd)
                    c = {'stats': nets[-1], 'first': nets[:-1]}
                    out.append(c)
                    continue
                c = {'stats': gen_stats_graph(rnd)}
                if rnd.random() < 0.35:
                    c['mut'] = gen_mutation(rnd, c['stats'])
                out.append(c)
        return out

    # ------------------------------------------------------------------ implementation
    def execute(self, case):
        if 'stats' in case:
            return self.run_stats(case)
        if 'plain' in case:
            return self.run_plain(case)
        # every result the process tree hands to the dynamics, for the set of Monitor series
        import epydemic as ep
        import epydemic.networkdynamics as nd
        handed = []
        orig = nd.Dynamics.experimentalResults

        def er(dyn):
            r = orig(dyn)
            handed.append(sorted(k for k in r if str(k).startswith(ep.Monitor.TIMESERIES_STEM)) if isinstance(r, dict) else None)
            return r
        nd.Dynamics.experimentalResults = er
        try:
            obs = compart.run_case(case)
        finally:
            nd.Dynamics.experimentalResults = orig
        obs['series_keys'] = handed[-1] if handed else None
        return obs

    @staticmethod
    def _watch_final(dyn, final):
        """the network the run ends with: seen when the results are asked for and when the simulation reports its end"""
        def view():
            net = dyn.network()
            return [list(net.nodes()), [tuple(e) for e in net.edges()]]
        orig = dyn.experimentalResults

        def er():
            final['before_results'] = view()
            return orig()
        dyn.experimentalResults = er
        dyn.simulationEnded = lambda res: final.__setitem__('ended', view())

    def run_stats(self, case):
        import epyc
        import epydemic as ep
        g = compart.make_graph(case['stats'])
        mut = case.get('mut')
        params = {}
        dynamics = 'stochastic'
        seed = 1
        if mut is None:
            procs = [ep.SIR(), ep.NetworkStatistics()]
            params = {ep.SIR.P_INFECTED: 0.0, ep.SIR.P_INFECT: 0.0, ep.SIR.P_REMOVE: 0.0}
            maxtime = None
        else:
            dynamics, seed = mut['dynamics'], mut['seed']
            maxtime = mut.get('maxtime', 3.0)
            if mut['kind'] == 'percolate':
                changer = ep.Percolate()
                params[ep.Percolate.T] = mut['T']
            elif mut['kind'] == 'adddelete':
                changer = ep.AddDelete()
                params.update({ep.AddDelete.P_ADD: mut['pAdd'], ep.AddDelete.P_DELETE: mut['pDelete'], ep.AddDelete.DEGREE: mut['degree']})
            else:
                ops = mut['ops']

                class Changer(ep.Process):
                    # a user process in the documented way: the network is changed through the Process interface by posted events
                    def setUp(self, params):
                        super().setUp(params)
                        for op in ops:
                            self.postEvent(op[0], None, self.handler(op[1:]))

                    def handler(self, op):
                        def h(t, e):
                            if op[0] == 'addnode':
                                self.addNode(op[1])
                            elif op[0] == 'addedge':
                                self.addEdge(op[1], op[2])
                            elif op[0] == 'rmnode':
                                self.removeNode(op[1])
                            else:
                                self.removeEdge(op[1], op[2])
                        return h
                changer = Changer()
            procs = [ep.NetworkStatistics(), changer] if mut.get('stats_first') else [changer, ep.NetworkStatistics()]
        proc = ep.ProcessSequence(procs)
        if maxtime is not None:
            proc.setMaximumTime(maxtime)
        dyn = (ep.StochasticDynamics if dynamics == 'stochastic' else ep.SynchronousDynamics)(proc, g)
        final = {}
        self._watch_final(dyn, final)
        first_exc = None
        firsts = []
        for fd in case.get('first') or []:
            # earlier runs of the SAME objects over other networks; what they reported is kept for the replay, not judged here
            dyn.setNetworkGenerator(compart.make_graph(fd))
            install(Oracle(seed=seed))
            try:
                r1 = dyn.set(params).run(fatal=True)[epyc.Experiment.RESULTS]
                firsts.append({k: r1.get(v) for k, v in (('components', ep.NetworkStatistics.COMPONENTS), ('lcc', ep.NetworkStatistics.LCC),
                                                          ('slcc', ep.NetworkStatistics.SLCC))})
            except Exception as e:
                first_exc = type(e).__name__ + ': ' + str(e)
        if case.get('first'):
            dyn.setNetworkGenerator(g)
            final.clear()
        install(Oracle(seed=seed))
        exc = first_exc
        res = {}
        try:
            rc = dyn.set(params).run(fatal=True)
            res = rc[epyc.Experiment.RESULTS]
        except Exception as e:
            exc = type(e).__name__ + ': ' + str(e)
        S = ep.NetworkStatistics
        fin = final.get('ended') or final.get('before_results')
        obs = {'exception': exc, 'proto_nodes': list(g.nodes()), 'proto_edges': [tuple(e) for e in g.edges()],
               'g_nodes': fin[0] if fin else None, 'g_edges': fin[1] if fin else None,
               'netstats': {k: res.get(v) for k, v in (('N', S.N), ('M', S.M), ('kmean', S.KMEAN), ('kmax', S.KMAX), ('kdist', S.KDIST),
                                                    ('components', S.COMPONENTS), ('lcc', S.LCC), ('slcc', S.SLCC))}}
        if fin is not None and not fin[0]:
            obs['skipped'] = True           # the run ended with the null network: outside the quantifier (mean degree 0/0)
        changed = fin is not None and (sorted(fin[0]) != sorted(g.nodes()) or sorted(tuple(sorted(e)) for e in fin[1]) != sorted(tuple(sorted(e)) for e in g.edges()))
        obs['changed'] = changed
        obs['earlier_runs'] = firsts
        obs['stats'] = {'stats_cases': 1, 'stats_final_network_differs_from_prototype': 1 if changed else 0,
                        'stats_same_objects_run_over_other_networks_first': 1 if case.get('first') else 0}
        return obs

    def run_plain(self, case):
        """[Monitor, process(es)] with the Monitor first, last or in a nested sequence; the obs has the shape compart.run_case gives"""
        import epyc
        import epydemic as ep
        from epydemic import Dynamics, Monitor, ProcessSequence
        what = case['plain']
        params = {Monitor.DELTA: case['delta']}
        rec = kscript.Recorder()
        if what == 'adddelete':
            g = compart.make_graph(case['graph'])
            ps = [ep.AddDelete()]
            params.update({ep.AddDelete.P_ADD: case['pAdd'], ep.AddDelete.P_DELETE: case['pDelete'], ep.AddDelete.DEGREE: case['degree']})
            maxtime = case['maxtime']
        elif what == 'script':
            g = networkx.path_graph(3)
            table = monitored_table(case['table'], case['delta'])      # component 0 of the table stands for the Monitor
            ps = [kscript.ScriptProcess(pi, table, rec) for pi in range(1, len(table['procs']))]
            maxtime = table['maxtime']
        else:
            g = compart.make_graph(case['graph'])
            ps = [compart.models()[case['model']]()]
            params.update(compart.params_for(case['model'], case['pv']))
            maxtime = case['maxtime']
        mon = Monitor()
        place = case['place']
        if what == 'script':
            # for the kernel tie: the Monitor seen as the component that posts the repeating program [observe]
            K = len(table['progs']) - 1
            seen_by_monitor = mon.observe
            rec.obs.append(['postedrep', 0.0, case['delta'], K, 0])

            def observe(t, e):
                rec.obs.append(['handler', K, t, mon.currentSimulationTime(), 0, None])
                seen_by_monitor(t, e)
                rec.obs.append(['observe', t, None])          # filled in from the Monitor's own results after the run
            mon.observe = observe
        if place == 'first':
            top = ProcessSequence([mon] + ps)
        elif place == 'last':
            top = ProcessSequence(ps + [mon])
        elif place == 'nested':
            top = ProcessSequence([ProcessSequence([mon, ps[0]])] + ps[1:])
        else:
            top = ProcessSequence(ps + [ProcessSequence([mon])])
        top.setMaximumTime(maxtime)
        dyn = (ep.StochasticDynamics if case['dynamics'] == 'stochastic' else ep.SynchronousDynamics)(top, g)
        rec.dyn = dyn
        snaps = []
        lspecs = []

        def sizes():
            return {k: len(l) for k, l in dyn.loci().items()}

        def started(params_):
            for nm in dyn.loci():
                lspecs.append([nm, 'plain'])
            snaps.append({'t': 0.0, 'name': '<start>', 'loci': sizes()})
        dyn.simulationStarted = started

        index = {id(q): i + 1 for i, q in enumerate(ps)}
        index[id(mon)] = 0

        def tap(t, p, name, e):
            snaps.append({'t': t, 'name': name, 'loci': sizes()})
            if what == 'script':
                rec.obs.append(['tap', t, 0, 'p%d' % K, 0] if p is mon else ['tap', t, index.get(id(p), -1), name, e])
            if len(snaps) > 400 or len(rec.obs) > 600:
                raise kscript.Budget('run exceeds the harness budget')
        dyn.eventFired = tap
        handed = []
        orig = dyn.experimentalResults

        def er():
            r = orig()
            handed.append(r)
            return r
        dyn.experimentalResults = er
        import epydemic.stochasticdynamics as sd
        orc = install(Oracle(seed=case['seed']))
        kscript.install_draw_recorder(rec)
        saved_math = sd.math
        sd.math = kscript.LogShim(rec)
        exc = None
        rc = None
        try:
            rc = dyn.set(params).run(fatal=True)
        except Exception as e:
            exc = type(e).__name__ + ': ' + str(e)
        finally:
            sd.math = saved_math
            kscript.uninstall_draw_recorder()
        md = (rc or {}).get(epyc.Experiment.METADATA, {}) if rc else {}
        res = (rc or {}).get(epyc.Experiment.RESULTS, {}) if rc else {}
        monitor = None
        if isinstance(res, dict) and Monitor.OBSERVATIONS in res:
            monitor = {'times': list(res[Monitor.OBSERVATIONS]),
                       'series': [list(res.get(Monitor.timeSeriesForLocus(ls[0]), [])) for ls in lspecs]}
        obs = {'exception': exc, 'loci_specs': lspecs, 'monitor': monitor, 'snaps': snaps, 'time': md.get(Dynamics.TIME),
               'series_keys': sorted(k for k in handed[-1] if str(k).startswith(Monitor.TIMESERIES_STEM)) if handed and isinstance(handed[-1], dict) else None,
               'stats': {'plain_' + what: 1, 'monitor_' + place: 1}}
        if exc and exc.startswith('Budget'):
            obs['skipped'] = True
        if what == 'script':
            # what the Monitor says it saw, observation by observation, in the order of the loci
            k = 0
            complete = monitor is not None
            # ... of the table (the simulation knows them in the order in which the components were built)
            by_table = [list(res.get(Monitor.timeSeriesForLocus('L%d' % li), [])) for li in range(len(table['loci']))] if complete else []
            for o in rec.obs:
                if o[0] == 'observe':
                    if complete and k < len(monitor['times']) and all(k < len(sr) for sr in by_table):
                        o[1] = monitor['times'][k]
                        o[2] = [sr[k] for sr in by_table]
                    else:
                        o[2] = [4999]
                        complete = False
                    k += 1
            if monitor is not None and k != len(monitor['times']):
                complete = False
            obs['kernel'] = {'exception': exc if complete or exc else 'the Monitor returned no complete series', 'obs': rec.obs,
                             'rands': [e[1] for e in orc.values('random')], 'lns': list(rec.logs), 'draws': [d[1] for d in rec.draws],
                             'time': md.get(Dynamics.TIME), 'events': md.get(Dynamics.EVENTS), 'steps': md.get(ep.SynchronousDynamics.TIMESTEPS_WITH_EVENTS, 0),
                             'table': table}
        return obs

    def direct(self, case, obs):
        if obs.get('skipped'):
            return []
        if obs['exception']:
            return [{'signature': 'run-raised', 'detail': obs['exception']}]
        v = []
        if 'stats' in case:
            # "of the final network": the one the run ended with, which a process of the sequence may have changed or replaced
            exp = own_stats(obs['g_nodes'], obs['g_edges'])
            for k, x in exp.items():
                got = obs['netstats'].get(k)
                if k == 'kdist':
                    got = list(got) if got is not None else None
                ok = (abs(got - x) <= 1e-12 * max(1.0, abs(x))) if (k == 'kmean' and got is not None) else (got == x)
                if not ok:
                    v.append({'signature': 'statistic-wrong:' + k, 'detail': {'reported': got, 'true': x, 'prototype': case['stats'], 'process': case.get('mut'),
                                                                               'final_network': {'nodes': obs['g_nodes'], 'edges': obs['g_edges']}}})
            return v
        if obs.get('earlier_results_intact') is False:
            # the time series an earlier run on the same objects reported must still be what that run observed
            v.append({'signature': 'results-of-an-earlier-run-changed-by-a-later-run', 'detail': None})
        mon = obs.get('monitor')
        if mon is None:
            return v + [{'signature': 'monitor-results-missing', 'detail': None}]
        delta = case['delta']
        end = obs['time'] if case['dynamics'] == 'stochastic' else obs['time'] - 1.0
        exp_times = []
        t = 0.0
        while t <= end:
            exp_times.append(t)
            t = t + delta
        if mon['times'] != exp_times:
            v.append({'signature': 'observation-times', 'detail': {'recorded': mon['times'][:12], 'expected': exp_times[:12], 'TIME': obs['time'], 'delta': delta}})
        names = [ls[0] for ls in obs['loci_specs']]
        keys = obs.get('series_keys')
        if keys is not None:
            # one series per locus of the simulation: no locus without a series, no series without a locus
            import epydemic as ep
            want = sorted(ep.Monitor.timeSeriesForLocus(nm) for nm in names)
            if sorted(keys) != want:
                v.append({'signature': 'series-set-differs-from-loci', 'detail': {'series': keys, 'loci': names}})
        if len(mon['series']) != len(names) or any(len(s) != len(mon['times']) for s in mon['series']):
            v.append({'signature': 'series-shape', 'detail': {'loci': names, 'lengths': [len(s) for s in mon['series']], 'observations': len(mon['times'])}})
            return v
        # sizes after k events, k = 0..; the value recorded at tau must be the sizes after all events strictly
        # earlier than tau and before all events strictly later
        snaps = obs['snaps']
        sizes = [{k: (len(x) if isinstance(x, list) else x) for k, x in s['loci'].items()} for s in snaps]
        times = [s['t'] for s in snaps[1:]]
        for i, tau in enumerate(mon['times']):
            lo = sum(1 for x in times if x < tau)
            hi = sum(1 for x in times if x <= tau)
            rec = {nm: mon['series'][j][i] for j, nm in enumerate(names)}
            if not any(all(sizes[k].get(nm) == rec[nm] for nm in names) for k in range(lo, hi + 1)):
                v.append({'signature': 'observed-value-not-the-locus-size-at-that-time',
                          'detail': {'tau': tau, 'recorded': rec, 'sizes_before': sizes[lo], 'sizes_after_simultaneous': sizes[hi]}})
                break
        return v

    def to_coq(self, case, obs):
        if obs.get('skipped'):
            return None
        if 'plain' in case:
            # a user process given by a table: the whole run against the kernel model, the Monitor being the component that posts
            # the repeating program [AObserve]; AddDelete and the disease models with a Monitor elsewhere: direct oracle only
            k = obs.get('kernel')
            return None if k is None else ('kernel', kcommon.to_coq({'table': k['table'], 'dynamics': case['dynamics']}, k))
        if 'stats' in case:
            if obs['exception']:
                return '(CStats [] [] {| so_N := 4999; so_M := 0; so_kmean := 0; so_kmax := 0; so_kdist := []; so_components := 0; so_lcc := 0; so_slcc := 0 |})'
            s = obs['netstats']
            n = lambda x: L.nat(x if isinstance(x, int) and x >= 0 else 4999)
            return '(CStats %s %s {| so_N := %s; so_M := %s; so_kmean := %s; so_kmax := %s; so_kdist := %s; so_components := %s; so_lcc := %s; so_slcc := %s |})' % (
                L.lst(obs['g_nodes'], L.z), L.lst(obs['g_edges'], L.zpair), n(s['N']), n(s['M']), L.q(s['kmean'] if s['kmean'] is not None else 0),
                n(s['kmax']), L.lst(list(s['kdist'] or []), L.nat), n(s['components']), n(s['lcc']), n(s['slcc']))
        from harness import compart_coq
        t = compart_coq.to_coq(case, obs)
        return None if t is None else '(CRun %s)' % t

    def nontrivial(self, case, obs):
        if obs.get('skipped') or obs.get('exception'):
            return None
        if 'stats' in case:
            s = obs['netstats']
            return str(case) if (s.get('components') or 0) >= 2 or (s.get('kmax') or 0) >= 3 or obs.get('changed') else None
        mon = obs.get('monitor') or {}
        ser = mon.get('series') or []
        return str(sorted(case.items(), key=str)) if any(len(set(s)) >= 2 for s in ser) else None

    def sample_view(self, case, obs):
        if 'stats' in case:
            return {'graph': case['stats'], 'process': case.get('mut'), 'final_network': [obs.get('g_nodes'), obs.get('g_edges')], 'reported': obs.get('netstats')}
        return {'case': case, 'monitor': obs.get('monitor')}
