"""C07: compartmented models keep a partition and follow their transition diagram."""
from vlib.core import Harness
from harness import compart


class H(Harness):
    ID = 'C07'
    ANCHOR_FILES = ['epydemic/compartmentedmodel.py', 'epydemic/sir_model.py', 'epydemic/sis_model.py', 'epydemic/sirs_model.py', 'epydemic/seir_model.py', 'epydemic/sir_model_fixed_recovery.py', 'epydemic/sis_model_fixed_recovery.py', 'epydemic/sir_model_variable_infection.py', 'epydemic/sivr_model.py', 'epydemic/opinion_model.py', 'epydemic/vaccinate_model.py']
    TIE_IMPORT = 'From EpyV Require Import Model.Kernel Model.KernelDyn Model.Loci Model.Compart Model.CompartV Model.CompartVI Tie.Compart Tie.CompartV Tie.CompartVI Tie.CompartAll.\nOpen Scope Q_scope.'
    CHECK_FN = 'EpyV.Tie.CompartAll.check_all_nomarks'      # occupied edges / hitting times are C08's business
    VO_TARGETS = ['Properties/C07.vo', 'Tie/CompartAll.vo']
    QUICK_N = 400
    THOROUGH_N = 4000
    RULE = ('whole runs of every shipped compartmented model (SIR, SIS, SIRS, SEIR, SIR/SIS_FixedRecovery, SIR_VariableInfection, SIvR with '
            'vaccinated nodes, Opinion, Vaccinate) on networks of 2-7 nodes (path, star, complete, cycle, random, triangle with tail), dyadic '
            'parameters incl. 0 and 1, bare or as a named instance, alone or in a sequence with a Monitor, both dynamics, scripted random source; '
            'non-trivial = at least 2 compartment changes; distinct by the whole case')
    TRUSTED = ['Coq 8.16.1 kernel incl. vm_compute', 'harness/compart.py (observation of event-function entries, compartments after every event, final attributes)',
               'harness/evsrc.py: fail-closed translator from the Python ast of the shipped event functions to the programs of Model/EvProg.v (tie A, regenerated on every run; Coq computes and checks the summaries); SIvR.infect / remove (vaccine gate, plain loci) are translated to Model/EvProgV.v; SIR_VariableInfection reuses SIR.infect / remove']
    ASSUMPTIONS = ['initial occupancies are dyadic so that (1 - p) + p == 1 exactly (the float corner named in DESIGN.md C07 is outside the tie)']

    def gen_cases(self, tier, rnd, n):
        return [compart.gen_case(rnd) for _ in range(n)]

    def execute(self, case):
        return compart.run_case(case)

    def direct(self, case, obs):
        return compart.direct_c07(case, obs)

    def to_coq(self, case, obs):
        try:
            from harness import compart_coq
        except ImportError:
            return None
        return compart_coq.to_coq_all(case, obs)

    def extra_obligations(self, workdir, tier):
        # tie A: the event functions are re-translated from /repo's source and their summaries re-checked by Coq
        from harness import evsrc
        return evsrc.obligations(workdir, 'comp') + evsrc.obligations_sivr(workdir)

    def nontrivial(self, case, obs):
        if obs.get('skipped') or obs.get('exception'):
            return None
        ch = sum(1 for a, b in zip(obs['snaps'], obs['snaps'][1:]) if a['comps'] != b['comps'])
        return str(sorted(case.items(), key=str)) if ch >= 2 else None

    def sample_view(self, case, obs):
        return {'case': case, 'events': (obs.get('events_log') or [])[:8], 'results': obs.get('results')}
