#!/usr/bin/env python3
"""tools/adoptseed.py <srcdir> <name> : validate a seeded change with seedcheck and store it as /verif/seeded/<name>/"""
import json, os, shutil, subprocess, sys
src, name = sys.argv[1], sys.argv[2]
extra = sys.argv[3:]
r = subprocess.run(['/verif/tools/seedcheck.py', src] + extra, stdout=subprocess.PIPE, text=True)
res = json.loads(r.stdout[r.stdout.index('{'):], strict=False)
notes = {}
for n in ('notes.json', 'meta.json'):
    p = os.path.join(src, n)
    if os.path.exists(p):
        notes = json.load(open(p)); break
ok = res.get('demo_with_change_rc', 1) != 0 and res.get('demo_without_change_rc', 0) == 0
dst = os.path.join('/verif/seeded', name)
os.makedirs(dst, exist_ok=True)
if os.path.abspath(src) != os.path.abspath(dst):
    shutil.copy(os.path.join(src, 'patch.diff'), dst)
if os.path.exists(os.path.join(src, 'demo.py')) and os.path.abspath(src) != os.path.abspath(dst):
    shutil.copy(os.path.join(src, 'demo.py'), dst)
meta = {'property': res['property'], 'breaks': notes.get('breaks') or notes.get('summary'), 'needs': notes.get('needs') or notes.get('needs_to_manifest'), 'author_ran': notes.get('ran') or notes.get('author_ran') or notes.get('tests_run'),
        'confirmed': {'demo_fails_with_change': res.get('demo_with_change_rc', 0) != 0, 'demo_passes_without': res.get('demo_without_change_rc') == 0,
                      'how': 'tools/seedcheck.py: patch applied in a scratch worktree of /repo HEAD, demo.py run with and without, ./check run with VERIF_REPO pointing at the worktree'},
        'check': {'detected': res.get('detected'), 'no_failing_input_found': res.get('no_failing_input'), 'tail': res.get('check_tail', '')[-500:]}}
old_meta = os.path.join(dst, 'meta.json')
if os.path.exists(old_meta):
    om = json.load(open(old_meta))
    for k in ('history', 'breaks', 'needs', 'author_ran'):
        if om.get(k) and not meta.get(k):
            meta[k] = om[k]
json.dump(meta, open(os.path.join(dst, 'meta.json'), 'w'), indent=1)
print(name, 'confirmed' if ok else 'NOT CONFIRMED', 'detected' if res.get('detected') else 'MISSED', '(no-failing-input)' if res.get('no_failing_input') else '')
