#!/usr/bin/env python3
"""validate MANIFEST.json and every evidence file against the schemas (python3-vt has jsonschema)"""
import json, glob, sys, jsonschema
ok = True
jsonschema.validate(json.load(open('/verif/MANIFEST.json')), json.load(open('/root/.vp/MANIFEST.schema.json')))
sch = json.load(open('/root/.vp/EVIDENCE.schema.json'))
man = {c['property_id']: c for c in json.load(open('/verif/MANIFEST.json'))['checks']}
for f in sorted(glob.glob('/verif/evidence/*.json')):
    try:
        e = json.load(open(f))
        jsonschema.validate(e, sch)
        if e['level'] != man[e['property_id']]['level_claimed']['category']:
            raise Exception('level %s vs manifest %s' % (e['level'], man[e['property_id']]['level_claimed']['category']))
    except Exception as ex:
        ok = False
        print(f, 'INVALID', str(ex)[:300])
print('all valid' if ok else 'PROBLEMS')
