#!/usr/bin/env python3
"""Rewrite the table of seeded changes in DESIGN.md (between the seeded:begin / seeded:end markers) from seeded/*/meta.json"""
import glob, json, os, re
V = os.path.dirname(os.path.dirname(os.path.abspath(__file__)))
rows = []
for d in sorted(glob.glob(os.path.join(V, 'seeded', '*'))):
    mp = os.path.join(d, 'meta.json')
    if not os.path.exists(mp):
        continue
    m = json.load(open(mp))
    name = os.path.basename(d)
    chk = m.get('check', {})
    if chk.get('detected') and not chk.get('no_failing_input_found'):
        how = 'VIOLATION with a concrete replay (direct oracle%s)' % (' and tie B' if 'disagree' in chk.get('tail', '') and ' (0 disagree' not in chk.get('tail', '') else '')
    elif chk.get('detected'):
        how = 'VIOLATION … no-failing-input-found (tie B / proof obligation only)'
    else:
        how = '**missed**'
    hist = m.get('history')
    if hist:
        how += ' — ' + hist
    needs = (m.get('needs') or '').replace('\n', ' ').replace('|', '/')
    breaks = (m.get('breaks') or '').replace('\n', ' ').replace('|', '/')
    if len(needs) > 220: needs = needs[:217] + '…'
    if len(breaks) > 220: breaks = breaks[:217] + '…'
    rows.append('| %s | %s | %s | %s | %s |' % (name, m.get('property'), breaks, needs, how))
tbl = '<!-- seeded:begin -->\n| change | property | what it breaks | what it needs to manifest | `./check <id>` on the changed tree |\n|---|---|---|---|---|\n' + '\n'.join(rows) + '\n<!-- seeded:end -->'
p = os.path.join(V, 'DESIGN.md')
s = open(p).read()
if 'SEEDED_TABLE_PLACEHOLDER' in s:
    s = s.replace('SEEDED_TABLE_PLACEHOLDER', tbl)
else:
    s = re.sub(r'<!-- seeded:begin -->.*?<!-- seeded:end -->', lambda _: tbl, s, flags=re.S)
open(p, 'w').write(s)
print(len(rows), 'rows')
