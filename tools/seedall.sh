#!/bin/sh
# tools/seedall.sh [tier] [pattern] : run every seeded change (seeded/<pattern>, default all) through tools/seedcheck.py
# (scratch worktrees), one line each.  Several shards may run side by side: sh tools/seedall.sh quick 'C0[1-5]-*' & ...
TIER=${1:-quick}
PAT=${2:-*}
TMP=/tmp/seedall-one-$$.json
cd /verif
for d in seeded/$PAT/; do
  n=$(basename $d)
  /venv/bin/python tools/seedcheck.py $d --tier $TIER > $TMP 2>&1
  /venv/bin/python - "$n" "$TMP" <<'PY'
import sys, json
try:
    s = open(sys.argv[2]).read()
    o = json.loads(s[s.index('{'):], strict=False)
    print(sys.argv[1], 'detected=%s nofail=%s demo_with=%s demo_without=%s' % (o.get('detected'), o.get('no_failing_input'), o.get('demo_with_change_rc'), o.get('demo_without_change_rc')))
except Exception as e:
    print(sys.argv[1], 'ERR', e)
PY
done
rm -f $TMP
