#!/bin/sh
# tools/seedall.sh [tier] : run every seeded change through tools/seedcheck.py (scratch worktrees), one line each
TIER=${1:-quick}
cd /verif
for d in seeded/*/; do
  n=$(basename $d)
  /venv/bin/python tools/seedcheck.py $d --tier $TIER > /tmp/seedall-one.json 2>&1
  /venv/bin/python - "$n" <<'E'
import sys, json
try:
    s = open('/tmp/seedall-one.json').read()
    o = json.loads(s[s.index('{'):], strict=False)
    print(sys.argv[1], 'detected=%s nofail=%s demo_with=%s demo_without=%s' % (o.get('detected'), o.get('no_failing_input'), o.get('demo_with_change_rc'), o.get('demo_without_change_rc')))
except Exception as e:
    print(sys.argv[1], 'ERR', e)
E
done
