#!/bin/sh
# tools/seedall.sh [tier] : run every seeded change through tools/seedcheck.py (scratch worktrees), one line each
TIER=${1:-quick}
cd /verif
for d in seeded/*/; do
  n=$(basename $d)
  out=$(/venv/bin/python tools/seedcheck.py $d --tier $TIER 2>&1)
  echo "$n $(echo "$out" | /venv/bin/python -c "
import sys,json
try:
    o=json.loads(sys.stdin.read(), strict=False); print('detected=%s nofail=%s demo_with=%s demo_without=%s'%(o.get('detected'),o.get('no_failing_input'),o.get('demo_with_change_rc'),o.get('demo_without_change_rc')))
except Exception as e: print('ERR',e)
")"
done
