import random, sys
from epydemic import DrawSet
random.seed(int(sys.argv[1])); NC = int(sys.argv[2])
def dump(n, out):
    if n is None: out.append("None"); return
    out.append("Some (%d, %d, %d, %d)%%Z" % (n._data, n._height, n._leftSize, n._rightSize) if False else "Some ((%s)%%Z, %d%%nat, %d%%nat, %d%%nat)" % (n._data, n._height, n._leftSize, n._rightSize))
    dump(n._left, out); dump(n._right, out)
cases = []
for c in range(NC):
    U = random.choice([3, 5, 8, 16, 40]); n = random.choice([3, 8, 20, 60, 150])
    ops = []; s = DrawSet()
    for i in range(n):
        k = random.choice('AAAD') if i < n*0.6 else random.choice('ADDD'); x = random.randrange(-2, U)
        ops.append("%s (%d)" % (k, x))
        (s.add if k == 'A' else s.discard)(x)
    out = []; dump(s._root, out)
    cases.append("([%s], [%s])" % ("; ".join(ops), "; ".join(out)))
print("Require Import Bbt. From Coq Require Import ZArith List Bool Arith. Import ListNotations. Open Scope Z_scope.")
print("Definition eqe (a b : option (Z * nat * nat * nat)) : bool := match a, b with None, None => true | Some (d,h,l,r), Some (d',h',l',r') => (d =? d') && (h =? h')%nat && (l =? l')%nat && (r =? r')%nat | _, _ => false end.")
print("Fixpoint eql (a b : list (option (Z * nat * nat * nat))) : bool := match a, b with [], [] => true | x::a', y::b' => eqe x y && eql a' b' | _, _ => false end.")
print("Definition cases : list (list op * list (option (Z * nat * nat * nat))) := [")
print(";\n".join(cases))
print("].")
print("Fixpoint failing (i : nat) (cs : list (list op * list (option (Z * nat * nat * nat)))) : list nat := match cs with [] => [] | (ops, exp) :: cs' => if eql (run ops) exp then failing (S i) cs' else i :: failing (S i) cs' end.")
print("Eval vm_compute in (length cases, failing 0 cases).")
