#!/venv/bin/python
"""tools/diag.py <PID> <replay.json> [coq expr using c]: re-run the first disagreeing case of a replay and evaluate a Coq
expression on it (default: diagnose c)."""
import sys, json, importlib, subprocess, os
sys.path.insert(0, '/verif'); sys.path.insert(0, os.environ.get('VERIF_REPO', '/repo'))
pid, rp = sys.argv[1], sys.argv[2]
expr = sys.argv[3] if len(sys.argv) > 3 else 'diagnose c'
r = json.load(open(rp))
case = r.get('first_disagreeing_case') or r.get('case')
h = importlib.import_module('harness.' + pid.lower()).H()
obs = h.execute(case)
t = h.to_coq(case, obs)
os.makedirs('/verif/.work/diag', exist_ok=True)
f = '/verif/.work/diag/Diag.v'
open(f, 'w').write(h.TIE_IMPORT + '\nFrom Coq Require Import List ZArith QArith String.\nImport ListNotations.\nDefinition c := ' + t + '.\nEval vm_compute in (' + expr + ').\n')
print(json.dumps(case)[:1500])
print(subprocess.run(['timeout', '300', 'coqc', '-Q', '/verif/coq', 'EpyV', f], capture_output=True, text=True).stdout[-3000:])
