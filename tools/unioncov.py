#!/usr/bin/env python3
"""tools/unioncov.py : informational - line coverage of /repo/epydemic by the harnesses (execute() of up to 260 quick cases per
property, coverage started before epydemic is imported); prints one line per file and writes /tmp/unioncov.json.  Shows which
parts of the library the correspondence checks never reach."""
import sys, os, random, json, importlib, signal
sys.path[:0] = ['/repo', '/verif']
import coverage
cov = coverage.Coverage(source=['/repo/epydemic'], data_file=None)
cov.start()
import epydemic
ids = ['C%02d' % k for k in range(1, 21)]
class TO(Exception): pass
def h(sig, fr): raise TO()
signal.signal(signal.SIGALRM, h)
for pid in ids:
    try:
        mod = importlib.import_module('harness.' + pid.lower())
        H = mod.H()
        rnd = random.Random(7)
        cases = H.gen_cases('quick', rnd, 150)
        try:
            cases = list(H.exhaustive_cases('quick'))[:80] + cases
        except Exception:
            pass
        n = 0
        for c in cases[:260]:
            try:
                signal.alarm(10)
                H.execute(c); n += 1
            except BaseException as e:
                pass
            finally:
                signal.alarm(0)
        print(pid, n, file=sys.stderr)
    except Exception as e:
        print(pid, 'ERR', e, file=sys.stderr)
cov.stop()
out = {}
for f in sorted(cov.get_data().measured_files()):
    an = cov.analysis2(f)
    out[os.path.relpath(f, '/repo')] = {'statements': len(an[1]), 'missing': an[3]}
json.dump(out, open('/tmp/unioncov.json', 'w'), indent=1)
for k, v in out.items():
    print(k, '%d/%d' % (v['statements'] - len(v['missing']), v['statements']), v['missing'][:60])
