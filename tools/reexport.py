#!/usr/bin/env python3
"""tools/reexport.py <imports> <prefix_from> <prefix_to> name1 name2 ... : print `Theorem <to-name> : <type>. Proof. exact <name>. Qed.`
for each lemma, the type obtained from Coq's own `Check` (so that statements are never re-typed by hand)."""
import subprocess, sys, re, tempfile, os
imports, pf, pt = sys.argv[1], sys.argv[2], sys.argv[3]
names = sys.argv[4:]
src = imports + '\nSet Printing Width 110.\nSet Printing Depth 1000.\n' + '\n'.join('Goal True. idtac "@@@ %s". exact I. Qed.\nCheck %s.' % (n, n) for n in names)
d = tempfile.mkdtemp(dir='/verif/.work')
p = os.path.join(d, 'Rx.v')
open(p, 'w').write(src)
out = subprocess.run(['coqc', '-Q', '/verif/coq', 'EpyV', p], stdout=subprocess.PIPE, stderr=subprocess.STDOUT, text=True, timeout=600).stdout
parts = re.split(r'@@@ (\S+)\n', out)
for i in range(1, len(parts), 2):
    n, body = parts[i], parts[i + 1]
    m = re.match(r'\s*%s\s*\n?\s*:\s*(.*)' % re.escape(n), body, re.S)
    if not m:
        print('(* FAILED %s: %s *)' % (n, body[:200])); continue
    ty = m.group(1).strip()
    kind = 'Example' if 'example' in n.lower() else 'Theorem'
    print('%s %s :\n  %s.\nProof. exact %s. Qed.\n' % (kind, n.replace(pf, pt, 1) if pf else pt + n, ty.replace('\n', '\n  '), n))
