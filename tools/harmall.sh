#!/bin/sh
# tools/harmall.sh : run every stored behaviour-preserving refactoring (harmless/*.diff) through tools/refaccheck.py;
# one line per patch: the verdict of every check that anchors a touched file.  Expected: quiet everywhere (an
# alarm(no-failing-input) is allowed by the brief for a rewrite that leaves the translator's fragment, and is looked at).
cd /verif
for p in harmless/*.diff; do
  /venv/bin/python tools/refaccheck.py $p > /tmp/harm-one.json 2>&1
  /venv/bin/python - "$p" <<'PY'
import sys, json
s = open('/tmp/harm-one.json').read()
try:
    o = json.loads(s[s.index('{'):], strict=False)
    print(sys.argv[1], {k: v[:60] for k, v in o['results'].items()})
except Exception as e:
    print(sys.argv[1], 'ERR', e, s[-300:])
PY
done
