#!/usr/bin/env python3
"""tools/refaccheck.py <patch.diff> [--all] : apply a (supposedly harmless) change in a scratch worktree of /repo and run the quick
check of every property that anchors a touched file (or all twenty); prints one line per property: quiet / ALARM (concrete) / alarm (no-failing-input-found)"""
import json, os, re, subprocess, sys, tempfile
patch = os.path.abspath(sys.argv[1])
props = [json.loads(l) for l in open('/verif/properties.jsonl')]
touched = set(re.findall(r'^\+\+\+ b/(\S+)', open(patch).read(), re.M))
ids = [p['id'] for p in props if '--all' in sys.argv or touched & set(p['anchors']['files'])]
wt = tempfile.mkdtemp(prefix='rf-', dir='/tmp'); os.rmdir(wt)
subprocess.run('git -C /repo worktree add -q --detach %s HEAD && git -C %s apply %s' % (wt, wt, patch), shell=True, check=True)
res = {}
try:
    for pid in ids:
        p = subprocess.run('./check %s --tier quick' % pid, shell=True, cwd='/verif', env=dict(os.environ, VERIF_REPO=wt), stdout=subprocess.PIPE, stderr=subprocess.STDOUT, text=True)
        o = p.stdout
        if p.returncode == 0 and 'VIOLATION' not in o:
            res[pid] = 'quiet'
        elif 'no-failing-input-found' in o:
            res[pid] = 'alarm(no-failing-input): ' + o.strip().splitlines()[-1][:160]
        else:
            res[pid] = 'ALARM: ' + ' | '.join(o.strip().splitlines()[-2:])[:300]
finally:
    subprocess.run('git -C /repo worktree remove --force %s' % wt, shell=True)
print(json.dumps({'patch': patch, 'touched': sorted(touched), 'results': res}, indent=1))
