#!/bin/sh
# tools/seedsweep.sh seed... : every quick check under other VERIF_SEEDs, evidence restored afterwards (a false alarm that depends on the seed shows up here)
cd /verif
for sd in "$@"; do
for id in $(python3 -c "import json; print(' '.join(c['property_id'] for c in json.load(open('MANIFEST.json'))['checks']))"); do
  cp evidence/$id.json /tmp/ev-$id.json
  out=$(VERIF_SEED=$sd ./check $id --tier quick 2>&1); rc=$?
  cp /tmp/ev-$id.json evidence/$id.json
  echo "seed=$sd $id rc=$rc $(echo "$out" | grep -c '^VIOLATION') viol; $(echo "$out" | tail -1 | cut -c1-140)"
done; done
