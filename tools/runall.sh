#!/bin/sh
# tools/runall.sh [quick|thorough] : run every claimed check on /repo, one after the other; print one line each
TIER=${1:-quick}
cd /verif
for id in $(python3 -c "import json; print(' '.join(c['property_id'] for c in json.load(open('MANIFEST.json'))['checks']))"); do
  start=$(date +%s)
  out=$(./check $id --tier $TIER 2>&1); rc=$?
  end=$(date +%s)
  echo "$id rc=$rc $((end-start))s $(echo "$out" | grep -c '^VIOLATION') violation-lines; $(echo "$out" | grep '^KNOWN-FINDING' | wc -l) known; $(echo "$out" | tail -1 | cut -c1-160)"
done
