#!/usr/bin/env python3
"""Regenerate MANIFEST.json from tools/claims.json (one entry per claimed property) and
properties.jsonl (everything not claimed is listed under not_applicable with its reason)."""
import json, os
V = os.path.dirname(os.path.dirname(os.path.abspath(__file__)))
claims = json.load(open(os.path.join(V, 'tools', 'claims.json')))
import glob
approved = set(open(os.path.join(V, 'tools', 'approved.txt')).read().split())
for f in sorted(glob.glob(os.path.join(V, 'tools', 'claims.d', '*.json'))):
    if os.path.basename(f)[:-5] in approved:      # claimed only once the lead has run the check on the unchanged tree
        claims['claimed'][os.path.basename(f)[:-5]] = json.load(open(f))
ids = [json.loads(l)['id'] for l in open(os.path.join(V, 'properties.jsonl'))]
checks = []
for pid in ids:
    c = claims['claimed'].get(pid)
    if not c:
        continue
    checks.append({
        'property_id': pid,
        'quick_cmd': './check %s --tier quick' % pid,
        'thorough_cmd': './check %s --tier thorough' % pid,
        'evidence_file': 'evidence/%s.json' % pid,
        'replay_cmd_template': './check %s --replay {path}' % pid,
        'engine': 'coq-model+coexec',
        'level_claimed': {'category': 'proof', 'text': c['text'], 'design_ref': 'DESIGN.md section 5, ' + pid},
        'level_note': c['note'],
        'technique': c['technique'],
    })
na = [{'property_id': pid, 'reason': claims['not_claimed'].get(pid, 'check not built yet (work in progress; DESIGN.md section 5)')}
      for pid in ids if pid not in claims['claimed']]
m = {
    'version': 1,
    'setup_cmd': './check --setup',
    'hooks': {'guard': 'EPYDEMIC_VERIF', 'enable': 'EPYDEMIC_VERIF=1 in the environment (set by ./check); no source hooks are installed in /repo: state is observed from outside through Python attributes, subclass overrides and event taps',
              'baseline_off_cmd': 'cd /repo && /venv/bin/python -m pytest -ra -q -p no:cacheprovider --timeout=900 --continue-on-collection-errors',
              'source_commits': [], 'add_only': True},
    'engines': [{'name': 'coq-model+coexec', 'path': 'check', 'serves_properties': [c['property_id'] for c in checks],
                 'kind_free_text': 'Coq 8.16 theorems about hand-written executable Gallina models (coq/), tied to /repo on every run by co-execution: a Python harness runs the implementation with a scripted random oracle, writes the cases and the observed traces as Coq terms, and coqc evaluates model-vs-trace agreement by vm_compute; plus an exact direct Python oracle per property that turns a broken tie into a concrete replay'}],
    'checks': checks,
    'not_applicable': na,
    'notes': claims.get('notes', ''),
}
json.dump(m, open(os.path.join(V, 'MANIFEST.json'), 'w'), indent=1)
print('claimed:', [c['property_id'] for c in checks])
