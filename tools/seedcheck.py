#!/usr/bin/env python3
"""tools/seedcheck.py <dir with patch.diff, demo.py, (meta|notes).json> [--tier quick|thorough] [--inplace]
Confirms a seeded change (demo fails with it, passes without) and runs the property's check against it.
Default: in a scratch worktree of /repo through VERIF_REPO (safe while other work uses /repo).
--inplace: git -C /repo apply, run, git -C /repo checkout -- . (the registered way)."""
import json, os, subprocess, sys, tempfile, shutil
d = os.path.abspath(sys.argv[1])
tier = 'quick'
if '--tier' in sys.argv:
    tier = sys.argv[sys.argv.index('--tier') + 1]
inplace = '--inplace' in sys.argv
meta = {}
for n in ('meta.json', 'notes.json'):
    if os.path.exists(os.path.join(d, n)):
        meta = json.load(open(os.path.join(d, n)))
        break
pid = meta.get('property') or os.path.basename(os.path.dirname(d))
patch = os.path.join(d, 'patch.diff')
demo = os.path.join(d, 'demo.py')
def run(cmd, env=None, cwd=None, timeout=3000):
    e = dict(os.environ); e.update(env or {})
    p = subprocess.run(cmd, shell=True, env=e, cwd=cwd, stdout=subprocess.PIPE, stderr=subprocess.STDOUT, text=True, timeout=timeout)
    return p.returncode, p.stdout
out = {'dir': d, 'property': pid}
if inplace:
    wt = '/repo'
    rc, o = run('git -C /repo apply %s' % patch)
    assert rc == 0, o
else:
    wt = tempfile.mkdtemp(prefix='sc-', dir='/tmp')
    os.rmdir(wt)
    rc, o = run('git -C /repo worktree add -q %s HEAD && git -C %s apply %s' % (wt, wt, patch))
    assert rc == 0, o
try:
    if os.path.exists(demo):
        rc1, o1 = run('/venv/bin/python %s' % demo, env={'PYTHONPATH': wt, 'PYTHONHASHSEED': '0'}, timeout=900)
        out['demo_with_change_rc'] = rc1
        out['demo_with_change_tail'] = o1[-300:]
    rc2, o2 = run('./check %s --tier %s' % (pid, tier), env=({} if inplace else {'VERIF_REPO': wt}), cwd='/verif', timeout=3500)
    out['check_rc'] = rc2
    out['check_tail'] = o2[-900:]
    out['detected'] = (rc2 != 0 and 'VIOLATION property=%s' % pid in o2)
    out['no_failing_input'] = 'no-failing-input-found' in o2
finally:
    if inplace:
        run('git -C /repo checkout -- .')
    else:
        run('git -C /repo worktree remove --force %s' % wt)
if os.path.exists(demo):
    rc3, o3 = run('/venv/bin/python %s' % demo, env={'PYTHONPATH': '/repo', 'PYTHONHASHSEED': '0'}, timeout=900)
    out['demo_without_change_rc'] = rc3
print(json.dumps(out, indent=1))
