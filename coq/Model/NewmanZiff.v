(* Model of epydemic/newmanziff.py (NewmanZiff, BondPercolation, SitePercolation), following the
   code after the repair of defect F5 (sampling cursor).  Executable definitions only.

   Nodes are labelled 0..N-1 (nat); the numpy int32 array [_components] is a [list Z]:
   a negative entry at a root is minus the size of its component, a non-negative entry is
   the index of the parent, and N+1 marks a site that has not been occupied. *)
From Coq Require Import List ZArith QArith Bool Arith.
From EpyV Require Import Lib.Prelude Model.Percolate.
Import ListNotations.

Definition nedge := (nat * nat)%type.

(* ---- the array: self._components[n] and self._components[n] = v *)
Definition get (a : list Z) (n : nat) : Z := nth n a 0%Z.

Fixpoint set (a : list Z) (n : nat) (v : Z) : list Z :=
  match a with
  | [] => []
  | x :: a' => match n with O => v :: a' | S n' => x :: set a' n' v end
  end.

(* self._unoccupied = N + 1 *)
Definition unocc (a : list Z) : Z := (Z.of_nat (length a) + 1)%Z.

(* NewmanZiff.rootOf: recursion on the parent, then the entry of n is overwritten with the
   root (path compression).  Python recursion is unbounded; the model recurses on fuel and
   is called with fuel = N (Proofs/NewmanZiff.v shows that this is enough in every reachable state). *)
Fixpoint rootOf (fuel : nat) (a : list Z) (n : nat) : list Z * nat :=
  match fuel with
  | O => (a, n)
  | S f =>
    let np := get a n in
    if (np <? 0)%Z then (a, n)
    else let '(a1, r) := rootOf f a (Z.to_nat np) in (set a1 n (Z.of_nat r), r)
  end.

Definition root (a : list Z) (n : nat) : list Z * nat := rootOf (length a) a n.

(* NewmanZiff.join (the decrement of _ncomponents is done by the callers below) *)
Definition join (a : list Z) (c1 c2 : nat) : list Z * Z :=
  let msize := get a c2 in
  let a1 := set a c2 (Z.of_nat c1) in
  let a2 := set a1 c1 (get a1 c1 + msize)%Z in
  (a2, (- get a2 c1)%Z).

(* ---- the working network (networkx Graph): node list and undirected edge list, no repeats *)
Definition npair_eqb (e f : nedge) : bool := Nat.eqb (fst e) (fst f) && Nat.eqb (snd e) (snd f).
Definition same_nedge (e f : nedge) : bool := npair_eqb e f || npair_eqb e (snd f, fst f).
Definition add_edge (e : nedge) (es : list nedge) : list nedge :=
  if existsb (same_nedge e) es then es else es ++ [e].
Definition add_node (n : nat) (ns : list nat) : list nat :=
  if existsb (Nat.eqb n) ns then ns else ns ++ [n].

Record state := {
  comp : list Z;            (* _components *)
  gcc : Z;                  (* _gcc *)
  ncomp : Z;                (* _ncomponents *)
  wnodes : list nat;        (* network().nodes *)
  wedges : list nedge       (* network().edges *)
}.

(* ---- BondPercolation.setUp / occupy *)
Definition init_bond (nodes : list nat) : state :=
  let N := length nodes in
  {| comp := repeat (-1)%Z N; gcc := 1; ncomp := Z.of_nat N; wnodes := nodes; wedges := [] |}.

Definition occupy_bond (s : state) (e : nedge) : state :=
  let '(n, m) := e in
  let we := add_edge (n, m) (wedges s) in
  let '(a1, nr) := root (comp s) n in
  let '(a2, mr) := root a1 m in
  if Nat.eqb mr nr then
    {| comp := a2; gcc := gcc s; ncomp := ncomp s; wnodes := wnodes s; wedges := we |}
  else
    let '(a3, csize) := join a2 nr mr in
    {| comp := a3; gcc := Z.max (gcc s) csize; ncomp := (ncomp s - 1)%Z; wnodes := wnodes s; wedges := we |}.

(* ---- SitePercolation.setUp / occupy *)
Definition init_site (nodes : list nat) : state :=
  let N := length nodes in
  {| comp := repeat (Z.of_nat N + 1)%Z N; gcc := 0; ncomp := 0; wnodes := []; wedges := [] |}.

(* for m in og.neighbors(nr): if m in g.nodes: g.add_edge(nr, m) *)
Fixpoint add_nbr_edges (nr : nat) (nbrs : list nat) (wn : list nat) (we : list nedge) : list nedge :=
  match nbrs with
  | [] => we
  | m :: rest => add_nbr_edges nr rest wn (if memb Nat.eqb m wn then add_edge (nr, m) we else we)
  end.

(* for m in og.neighbors(nr): if _components[m] != _unoccupied: mr = rootOf(m); if mr != nr: csize = join(nr, mr) *)
Fixpoint link_nbrs (nr : nat) (nbrs : list nat) (a : list Z) (csize nc : Z) : list Z * Z * Z :=
  match nbrs with
  | [] => (a, csize, nc)
  | m :: rest =>
    if (get a m =? unocc a)%Z then link_nbrs nr rest a csize nc
    else
      let '(a1, mr) := root a m in
      if Nat.eqb mr nr then link_nbrs nr rest a1 csize nc
      else let '(a2, cs) := join a1 nr mr in link_nbrs nr rest a2 cs (nc - 1)%Z
  end.

Definition occupy_site (adj : nat -> list nat) (s : state) (nr : nat) : state :=
  let wn := add_node nr (wnodes s) in
  let we := add_nbr_edges nr (adj nr) wn (wedges s) in
  let a0 := set (comp s) nr (-1)%Z in
  let '(a, csize, nc) := link_nbrs nr (adj nr) a0 1%Z (ncomp s + 1)%Z in
  {| comp := a; gcc := Z.max (gcc s) csize; ncomp := nc; wnodes := wn; wedges := we |}.

(* ---- queries *)
Definition componentSize_bond (a : list Z) (n : nat) : list Z * Z :=
  let '(a1, r) := root a n in (a1, (- get a1 r)%Z).

Definition componentSize_site (a : list Z) (n : nat) : list Z * Z :=
  if (get a n =? unocc a)%Z then (a, 0%Z) else componentSize_bond a n.

(* componentSize(n) for n in a list of nodes, in order (each call may compress paths) *)
Fixpoint sizes_all (cs : list Z -> nat -> list Z * Z) (a : list Z) (ns : list nat) : list Z * list Z :=
  match ns with
  | [] => (a, [])
  | n :: ns' => let '(a1, c) := cs a n in let '(a2, l) := sizes_all cs a1 ns' in (a2, c :: l)
  end.

(* what a sample() that calls the public queries sees: the label p, the array as it is on entry,
   largestComponentSize(), components(), componentSize(n) for all n, the working network *)
Record obs := {
  o_p : Q; o_comp : list Z; o_gcc : Z; o_ncomp : Z; o_sizes : list Z;
  o_wnodes : list nat; o_wedges : list nedge
}.

Definition sample_with (cs : list Z -> nat -> list Z * Z) (N : nat) (p : Q) (s : state) : state * obs :=
  let '(a1, sz) := sizes_all cs (comp s) (seq 0 N) in
  ({| comp := a1; gcc := gcc s; ncomp := ncomp s; wnodes := wnodes s; wedges := wedges s |},
   {| o_p := p; o_comp := comp s; o_gcc := gcc s; o_ncomp := ncomp s; o_sizes := sz;
      o_wnodes := wnodes s; o_wedges := wedges s |}).

(* ---- percolate(): the sample-point cursor.  [rest] is _samplepoints[samplePoint:] *)

(* (i + 1) / M >= p, exactly *)
Definition reach (k M : nat) (p : Q) : bool := Qle_bool p (Z.of_nat k # Pos.of_nat M).

Section Loop.
  Context {St El Ob : Type} (occupy : St -> El -> St) (sample : Q -> St -> St * Ob).

  (* while samplePoint < nSamplePoints and (i + 1) / M >= _samplepoints[samplePoint]: sample; samplePoint += 1 *)
  Fixpoint take (k M : nat) (rest : list Q) (s : St) : list Q * St * list Ob :=
    match rest with
    | [] => ([], s, [])
    | p :: rest' =>
      if reach k M p then
        let '(s1, o) := sample p s in
        let '(rest2, s2, os) := take k M rest' s1 in (rest2, s2, o :: os)
      else (rest, s, [])
    end.

  (* for i in range(M): if samplePoint >= nSamplePoints: break; occupy; take samples.
     Returns the final state, the samples appended, and the number of occupations done. *)
  Fixpoint loop (M i : nat) (es : list El) (rest : list Q) (s : St) : St * list Ob * nat :=
    match es with
    | [] => (s, [], i)
    | e :: es' =>
      match rest with
      | [] => (s, [], i)
      | _ :: _ =>
        let s1 := occupy s e in
        let '(rest1, s2, os) := take (S i) M rest s1 in
        let '(s3, os', n) := loop M (S i) es' rest1 s2 in (s3, os ++ os', n)
      end
    end.

  (* initial sample if the first requested point == 0.0, then the loop *)
  Definition percolate (es : list El) (ps : list Q) (s : St) : St * list Ob * nat :=
    let M := length es in
    match ps with
    | p :: ps' =>
      if Qeq_bool p 0 then
        let '(s1, o) := sample p s in
        let '(s2, os, n) := loop M 0 es ps' s1 in (s2, o :: os, n)
      else loop M 0 es ps s
    | [] => loop M 0 es ps s
    end.
End Loop.

(* ---- do(): shuffle, empty the working network, percolate *)
Definition do_bond (nodes : list nat) (es0 : list nedge) (perm : list nat) (ps : list Q) : state * list obs * nat :=
  let es := apply_perm (0, 0)%nat es0 perm in
  percolate occupy_bond (sample_with componentSize_bond (length nodes)) es ps (init_bond nodes).

Definition do_site (nodes : list nat) (adj : nat -> list nat) (perm : list nat) (ps : list Q) : state * list obs * nat :=
  let ns := apply_perm 0%nat nodes perm in
  percolate (occupy_site adj) (sample_with componentSize_site (length nodes)) ns ps (init_site nodes).

(* the library's own sample(): {P: p, GCC: _gcc}, i.e. the results series *)
Definition series (os : list obs) : list (Q * Z) := map (fun o => (o_p o, o_gcc o)) os.
