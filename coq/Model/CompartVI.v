(* SIR_VariableInfection (sir_model_variable_infection.py) as a process of the dynamic kernel
   (Model/KernelDyn.v):
     build()   compartments S, I, R; loci SI (edges S-I) and I (nodes); ONE registered event,
               addEventPerElement(I, pRemove, remove); infection is NOT registered
     setUp()   SIR set-up, then initialInfectivities(): one rng.random() per edge of
               g.edges(data=True), stored as the edge attribute `infectivity`
     perElementEventDistribution(t): the registered list, then for e in self.locus(SI) (a DrawSet:
               ascending order) the entry (SingletonLocus(self, e, SI locus), g.edges[e][infectivity],
               self.infect, INFECTED)
     infect / remove are SIR's: changeCompartment(n, I) + markOccupied + markHit / changeCompartment(n, R)
   The user state is Model/Compart.v's cworld extended with the per-edge infectivity; the event
   functions are Model/Compart.v's `handler` summaries lifted to it.  The simulation is
   [Monitor?; model] exactly as Compart.mk_table builds it.  Executable definitions only. *)
From Coq Require Import List ZArith QArith Bool Arith.
From EpyV Require Import Lib.Prelude Model.Kernel Model.KernelDyn Model.Loci Model.Compart.
Import ListNotations.
Open Scope Q_scope.

Record viworld := {
  vi_base : cworld;                 (* network, compartments, loci, occupied edges, hitting times *)
  vi_inf : list (Z * Z * Q) }.      (* edge attribute `infectivity`, keyed by the edge as networkx first stored it *)

(* initialInfectivities(): rs are the values rng.random() returns, one per edge in g.edges() order *)
Definition initial_infectivities (edges : list (Z * Z)) (rs : list Q) : list (Z * Z * Q) := combine edges rs.

(* g.edges[e][INFECTIVITY]: the attribute dictionary of an undirected edge is the same object for
   both orientations.  None: networkx raises KeyError (no such edge / no such attribute) *)
Definition infectivity (inf : list (Z * Z * Q)) (n m : Z) : option Q :=
  option_map snd (find (fun x => undirected_eqb (fst x) (n, m)) inf).

(* an event function of Model/Compart.v run on the base part of the state *)
Definition lift_prog (p : dynprog cworld) : dynprog viworld :=
  fun t e kl w => let '(b, acts) := p t e kl (vi_base w) in ({| vi_base := b; vi_inf := vi_inf w |}, acts).

Record vimodel := {
  vim_specs : list Loci.spec;       (* loci in registration order (read off the live objects) *)
  vim_events : list cevent;         (* the REGISTERED events (for the shipped class: remove on the I locus) *)
  vim_si : nat;                     (* index of the locus whose elements receive an appended entry *)
  vim_infect : hkind;               (* summary of self.infect *)
  vim_seed_post : option (Z * Q * nat) }.
                                    (* a user subclass whose setUp posts, for every node initially in compartment c,
                                       postEvent(T, n, program k) (the harness' posted-removal variant); None for the shipped class *)

(* the registered part is an ordinary compartmented model; program |events| is self.infect *)
Definition vi_cm (vm : vimodel) : cmodel :=
  {| cm_specs := vim_specs vm; cm_events := vim_events vm; cm_extra := [vim_infect vm];
     cm_seed_post := vim_seed_post vm; cm_equil := [] |}.
Definition vi_infect_prog (vm : vimodel) : nat := length (vim_events vm).

(* the entry appended for element e of the SI locus in user state w *)
Definition vi_entry (vm : vimodel) (w : viworld) (e : Kernel.elem) : dyn_event viworld :=
  {| de_value := e;
     de_p := match e with
             | EE n m => match infectivity (vi_inf w) n m with Some p => p | None => 0 end
             | EN _ => 0
             end;
     de_prog := vi_infect_prog vm;
     de_name := length (vim_events vm);            (* a name no registered event has *)
     (* SingletonLocus.__contains__: e == value and e in the SI locus *)
     de_member := fun kl _ => mem e (nth (vim_si vm) kl []) |}.

Definition vi_mpi (monitor : option Q) : nat := match monitor with Some _ => 1%nat | None => 0%nat end.

Definition mk_vitable (vm : vimodel) (nodes : list Z) (edges : list (Z * Z)) (init : list (Z * Z))
           (inf : list (Z * Z * Q)) (maxtime : Q) (monitor : option Q) : dtable viworld :=
  let tb := mk_table (vi_cm vm) nodes edges init maxtime monitor in
  {| d_tb := {| t_maxtime := t_maxtime tb; t_loci := t_loci tb; t_procs := t_procs tb;
                t_progs := map lift_prog (t_progs tb);
                t_world := {| vi_base := t_world tb; vi_inf := inf |};
                t_equil := fun kl w => t_equil tb kl (vi_base w) |};
     d_dyn := fun pi kl w =>
       if Nat.eqb pi (vi_mpi monitor) then map (vi_entry vm w) (nth (vim_si vm) kl []) else [] |}.

(* every edge of the network carries an infectivity (otherwise g.edges[e][INFECTIVITY] raises) *)
Definition inf_covers (edges : list (Z * Z)) (inf : list (Z * Z * Q)) : bool :=
  forallb (fun e => match infectivity inf (fst e) (snd e) with Some _ => true | None => false end) edges.

(* the shipped class as build() registers it, with the tie's coding of the compartments (names
   sorted: I = 1, R = 2, S = 3): loci SI (edges S-I) and I; one registered event, remove on I;
   infect = changeCompartment(n, I) + markOccupied + markHit, no posting *)
Definition sir_vi_gen (pRemove : Q) (post : option Q) : vimodel :=
  {| vim_specs := [EdgeLocus 3 1; NodeLocus 1];
     vim_events := [{| ce_elem := true; ce_locus := 1; ce_p := pRemove; ce_kind := HNode 2 |}];
     vim_si := 0; vim_infect := HLeft 1 true None;
     (* the posted-removal subclass: every seed gets postEvent(T, n, remove); remove is program 0 *)
     vim_seed_post := option_map (fun T => (1%Z, T, 0%nat)) post |}.
Definition sir_vi (pRemove : Q) : vimodel := sir_vi_gen pRemove None.
