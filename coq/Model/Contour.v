(* Model of the coefficient extraction of ContinuousGF (continuous_gf.py:58-101), over an arbitrary
   field that has an element z of exact multiplicative order m (for the code: the complex numbers
   and z = exp(2 pi i / m)).  MathComp style.  Definitions only.

     _differentiate(z0, n, r, dx):  x = r * exp(2j pi arange(0, 1, dx))     -- the m = 1/dx points r z^k
                                    factorial(n) * mean(f(z0 + x) / x**n)
     getCoefficient(i):             dx = 1 / (100 ceil((i+1)/99));  _differentiate(0, i + order, dx=dx) / factorial(i)
     evaluate(x0):                  _differentiate(x0, order)  with r = 1, dx = 1/100          *)
From mathcomp Require Import all_ssreflect all_algebra.
Set Implicit Arguments.
Unset Strict Implicit.
Unset Printing Implicit Defensive.
Import GRing.Theory.
Local Open Scope ring_scope.

Section Contour.
Variable F : fieldType.

(* the series as a polynomial: coefficients a_0 .. a_(d-1) *)
Definition peval (a : nat -> F) (d : nat) (x : F) : F := \sum_(j < d) a j * x ^+ j.

(* numpy.mean(f(z0 + x) / x**n) over the m points x = r z^k *)
Definition contour_mean (m : nat) (z r : F) (f : F -> F) (n : nat) : F :=
  m%:R^-1 * \sum_(k < m) f (r * z ^+ k) / (r * z ^+ k) ^+ n.

(* getCoefficient(i) of a ContinuousGF of the given order over m points *)
Definition contour_coeff (m : nat) (z : F) (f : F -> F) (order i : nat) : F :=
  (i + order)`!%:R * contour_mean m z 1 f (i + order) / i`!%:R.

(* evaluate(x0) for order > 0 *)
Definition contour_value (m : nat) (z : F) (f : F -> F) (order : nat) (x0 : F) : F :=
  order`!%:R * contour_mean m z 1 (fun w => f (x0 + w)) order.

End Contour.
