(* Executable model of gf_from_network (interface.py:51-57, discrete_gf.py:51-76):
   degree sequence -> histogram -> h_i / N, wrapped as a coefficient list.  Definitions only.
   The network is what networkx.Graph presents: a node list and an undirected edge list in which
   every edge occurs once; a self-loop (v, v) counts twice in v's degree, as g.degree() does. *)
From Coq Require Import List ZArith QArith Bool Arith.
From EpyV Require Import Model.GF.
Import ListNotations.
Open Scope Q_scope.

Record graph := { g_nodes : list Z; g_edges : list (Z * Z) }.

(* g.degree(v): number of edge ends at v *)
Definition ends_at (v : Z) (e : Z * Z) : nat :=
  ((if (fst e =? v)%Z then 1 else 0) + (if (snd e =? v)%Z then 1 else 0))%nat.
Fixpoint degree (es : list (Z * Z)) (v : Z) : nat :=
  match es with [] => O | e :: es' => (ends_at v e + degree es' v)%nat end.
(* [d for (_, d) in g.degree()] *)
Definition degrees (g : graph) : list nat := map (degree (g_edges g)) (g_nodes g).

(* hist = Counter(seq): hist[i] = number of entries equal to i (sorting does not matter) *)
Definition count (i : nat) (l : list nat) : nat := length (filter (Nat.eqb i) l).
Definition list_max (l : list nat) : nat := fold_right Nat.max O l.

(* _coefficientsFromNetwork: N = g.order(); maxk = max(seq); cs = [hist[i] / N for i in range(maxk + 1)].
   max() of an empty sequence raises ValueError: the empty network has no generating function. *)
Definition net_coeffs (degs : list nat) : option (list Q) :=
  match degs with
  | [] => None
  | _ => Some (map (fun i => qn (count i degs) / qn (length degs)) (seq 0 (S (list_max degs))))
  end.

(* DiscreteGF(g=g): generator = wrap(cs), ncoeff = len(cs) *)
Definition gf_from_network (g : graph) : option gf :=
  match net_coeffs (degrees g) with Some cs => Some (from_coeffs cs) | None => None end.

(* what "a network" means for the theorems: distinct nodes, every edge end is a node *)
Definition graph_wf (g : graph) : Prop :=
  NoDup (g_nodes g) /\ forall e, In e (g_edges g) -> In (fst e) (g_nodes g) /\ In (snd e) (g_nodes g).

(* ------------------------------------------------------------ ContinuousGF: the step rule *)

(* getCoefficient (continuous_gf.py:88-94): step = 1 / (ceil((i + 1) / 99) * 100), so numpy.arange(0, 1, step)
   has 100 * ceil((i + 1) / 99) points *)
Definition contour_points (i : nat) : nat := (100 * ((i + 1 + 98) / 99))%nat.
