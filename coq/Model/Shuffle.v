(* Model of epydemic/shuffle.py: ShuffleK.build / _networkDetails.
   Executable definitions only.

   Graph = node list (order of g.nodes()) + undirected edge list; (a,b) and (b,a) name the same
   edge (networkx Graph).  The random choices enter as a list of events in the order in which
   the implementation made them:
     Shuf l    : `es = list(g.edges); numpy.random.shuffle(es)` produced the list l
     Draw i n  : a DrawSet.draw() returned the i-th element (counting in node-list order) of a
                 set that had n elements
   The model recomputes the sets itself (degree bins, eligible neighbours); an event that does not
   fit the model's own state (a shuffle that is not a rearrangement of the current edges, a draw
   from a set of another size) halts the model. *)
From Coq Require Import List ZArith QArith Qround Bool Arith.
From EpyV Require Import Lib.Prelude.
Import ListNotations.
Local Open Scope nat_scope.

Definition edge := (Z * Z)%type.

Definition same_edge (e f : edge) : bool :=
  zpair_eqb e f || zpair_eqb e (snd f, fst f).

(* g.has_edge(a, b) *)
Definition has_edge (g : list edge) (a b : Z) : bool := existsb (same_edge (a, b)) g.

Definition b2n (b : bool) : nat := if b then 1 else 0.
(* contribution of one edge to the degree of n (a self-loop counts twice, as in networkx) *)
Definition inc (e : edge) (n : Z) : nat := b2n (fst e =? n)%Z + b2n (snd e =? n)%Z.
(* g.degree(n) *)
Fixpoint deg (g : list edge) (n : Z) : nat :=
  match g with [] => 0 | e :: r => inc e n + deg r n end.

(* g.remove_edges_from([(a,b)]) : silently ignores a missing edge *)
Definition remove_edge (g : list edge) (a b : Z) : list edge :=
  filter (fun e => negb (same_edge (a, b) e)) g.
(* g.add_edges_from([(a,b)]) : a Graph never holds an edge twice *)
Definition add_edge (g : list edge) (a b : Z) : list edge :=
  if has_edge g a b then g else g ++ [(a, b)].

(* shuffle.py:112-113 *)
Definition swap (g : list edge) (a b c d : Z) : list edge :=
  add_edge (add_edge (remove_edge (remove_edge g a b) c d) a d) c b.

(* _networkDetails: bins[k] = nodes of degree k, computed once from the network at entry *)
Definition bin (nodes : list Z) (g0 : list edge) (k : nat) : list Z :=
  filter (fun n => Nat.eqb (deg g0 n) k) nodes.

Definition zmem (x : Z) (l : list Z) : bool := existsb (Z.eqb x) l.

(* DrawSet(g.neighbors(c), [a, b, c]) *)
Definition eligible (nodes : list Z) (g : list edge) (a b c : Z) : list Z :=
  filter (fun n => has_edge g c n && negb (zmem n [a; b; c])) nodes.

(* imax = int(M * f), in exact arithmetic (for f < 0 both give no iteration) *)
Definition imax_of (M : nat) (f : Q) : nat := Z.to_nat (Qfloor (inject_Z (Z.of_nat M) * f)).

Inductive ev := Shuf (l : list edge) | Draw (i n : nat).

Definition quad := (Z * Z * Z * Z)%type.

Record state := {
  st_g : list edge;        (* the working network's edges *)
  st_es : list edge;       (* the rest of the shuffled edge sequence *)
  st_cnt : nat;            (* i *)
  st_evs : list ev;        (* random choices not yet consumed *)
  st_swaps : list quad     (* successful swaps (a,b,c,d), latest first *)
}.

Inductive step_res := Next (s : state) | Halt.

(* list(g.edges) shuffled: the same edges (in either orientation), each once *)
Fixpoint nodupu_b (l : list edge) : bool :=
  match l with [] => true | e :: r => negb (has_edge r (fst e) (snd e)) && nodupu_b r end.
Definition valid_shuffle (l g : list edge) : bool :=
  Nat.eqb (length l) (length g) && forallb (fun e => has_edge g (fst e) (snd e)) l && nodupu_b l.

(* shuffle.py:64-67 *)
Definition refill (s : state) : option (list edge * list ev) :=
  match st_es s with
  | [] => match st_evs s with
          | Shuf l :: r => if valid_shuffle l (st_g s) then Some (l, r) else None
          | _ => None
          end
  | _ => Some (st_es s, st_evs s)
  end.

(* shuffle.py:80-88 : Some None = `continue`, None = bins[k] raises KeyError *)
Definition orient (nodes : list Z) (g0 : list edge) (a b : Z) (ka kb : nat) : option (option (Z * Z * nat * nat)) :=
  match length (bin nodes g0 ka) with
  | 0 => None
  | 1 => match length (bin nodes g0 kb) with
         | 0 => None
         | 1 => Some None
         | _ => Some (Some (b, a, kb, ka))
         end
  | _ => Some (Some (a, b, ka, kb))
  end.

(* shuffle.py:93-96 : draw until c is neither a nor b *)
Fixpoint draw_c (bn : list Z) (a b : Z) (evs : list ev) : option (Z * list ev) :=
  match evs with
  | Draw i n :: r =>
      if Nat.eqb n (length bn) && Nat.ltb i n then
        let c := nth i bn 0%Z in
        if zmem c [a; b] then draw_c bn a b r else Some (c, r)
      else None
  | _ => None
  end.

(* one iteration of `while i < imax` (shuffle.py:63-116) *)
Definition swap_step (nodes : list Z) (g0 : list edge) (s : state) : step_res :=
  match refill s with
  | None => Halt
  | Some (es1, evs1) =>
    match es1 with
    | [] => Halt                                          (* es[0] raises IndexError *)
    | (a0, b0) :: es2 =>
      let g := st_g s in
      let skip evs := Next {| st_g := g; st_es := es2; st_cnt := st_cnt s; st_evs := evs; st_swaps := st_swaps s |} in
      if negb (has_edge g a0 b0) then skip evs1 else
      match orient nodes g0 a0 b0 (deg g a0) (deg g b0) with
      | None => Halt
      | Some None => skip evs1
      | Some (Some (a, b, ka, kb)) =>
        let bn := bin nodes g0 ka in
        if Nat.eqb (length bn) 2 && Nat.eqb ka kb then skip evs1 else
        match draw_c bn a b evs1 with
        | None => Halt
        | Some (c, evs2) =>
          let ds := eligible nodes g a b c in
          match ds with
          | [] => skip evs2
          | _ =>
            match evs2 with
            | Draw j n :: evs3 =>
              if Nat.eqb n (length ds) && Nat.ltb j n then
                let d := nth j ds 0%Z in
                if has_edge g a d || has_edge g c b then skip evs3 else
                Next {| st_g := swap g a b c d; st_es := es2; st_cnt := S (st_cnt s); st_evs := evs3;
                        st_swaps := (a, b, c, d) :: st_swaps s |}
              else Halt
            | _ => Halt
            end
          end
        end
      end
    end
  end.

Inductive outcome := Done (s : state) | OutOfFuel (s : state) | Stuck (s : state).
Definition state_of (o : outcome) : state := match o with Done s | OutOfFuel s | Stuck s => s end.

(* the loop; the fuel only bounds the number of iterations the model is asked to follow *)
Fixpoint run (fuel imax : nat) (nodes : list Z) (g0 : list edge) (s : state) : outcome :=
  if Nat.ltb (st_cnt s) imax then
    match fuel with
    | 0 => OutOfFuel s
    | S k => match swap_step nodes g0 s with Next s' => run k imax nodes g0 s' | Halt => Stuck s end
    end
  else Done s.

(* Dynamics hands build() a copy of the prototype; the prototype itself is never touched *)
Record result := { r_proto : list edge; r_nodes : list Z; r_out : outcome }.

(* shuffle.py:55-62 *)
Definition build (nodes : list Z) (g0 : list edge) (f : Q) (evs : list ev) (fuel : nat) : result :=
  let s0 l r := {| st_g := g0; st_es := l; st_cnt := 0; st_evs := r; st_swaps := [] |} in
  {| r_proto := g0; r_nodes := nodes;
     r_out := match evs with
              | Shuf l :: r => if valid_shuffle l g0 then run fuel (imax_of (length l) f) nodes g0 (s0 l r)
                               else Stuck (s0 [] evs)
              | _ => Stuck (s0 [] evs)
              end |}.
