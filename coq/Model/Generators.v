(* Model of the repository's own logic in epydemic/generator.py, standard_generators.py (FixedNetwork),
   coreperiphery_generator.py, modular_generator.py and plc_generator.py (_generateFrom's degree loop).
   Executable definitions only.

   networkx primitives are not modelled but taken as oracle values recorded by the harness: the graphs
   fast_gnp_random_graph returned (nodes 0..N-1, an edge list), the list connected_components returned,
   the values served by rng.random / rng.choice / rng.integers, the float values p(k) of the PLC model
   function (recomputed by the harness, independently of the implementation). *)
From Coq Require Import List ZArith QArith Bool Arith.
From EpyV Require Import Lib.Prelude Model.Shuffle.
Import ListNotations.
Local Open Scope nat_scope.

(* ================================================================ NetworkGenerator: quota and parameters *)
(* A parameter dict with a fixed key set is a list of values.  The caller owns one dict object, hands it to
   the constructor and to set(), and may mutate it at any time. *)
Inductive qop := QSet | QMutate (k : nat) (v : Z) | QGen | QNext.
Inductive qout := ONone | OStop | OGraph (p : list Z).      (* OGraph p: _generate was called with the values p *)

Record qstate := {
  q_caller : list Z;          (* the caller's dict *)
  q_own : list Z;             (* self._params when it is the generator's own object *)
  q_alias : bool;             (* self._params *is* the caller's dict (generator.py:66-69: the constructor does not copy) *)
  q_rem : option nat          (* self._remaining *)
}.

Fixpoint update (l : list Z) (k : nat) (v : Z) : list Z :=
  match l, k with
  | [], _ => []
  | _ :: r, 0 => v :: r
  | x :: r, S k' => x :: update r k' v
  end.

Definition q_params (s : qstate) : list Z := if q_alias s then q_caller s else q_own s.

(* generator.py:101-112 *)
Definition q_generate (s : qstate) : qstate * option (list Z) :=
  match q_rem s with
  | None => (s, Some (q_params s))
  | Some (S r) => ({| q_caller := q_caller s; q_own := q_own s; q_alias := q_alias s; q_rem := Some r |}, Some (q_params s))
  | Some 0 => (s, None)
  end.

Definition q_step (s : qstate) (o : qop) : qstate * list qout :=
  match o with
  | QSet => ({| q_caller := q_caller s; q_own := q_caller s; q_alias := false; q_rem := q_rem s |}, [])   (* params.copy() *)
  | QMutate k v => ({| q_caller := update (q_caller s) k v; q_own := q_own s; q_alias := q_alias s; q_rem := q_rem s |}, [])
  | QGen => let '(s', r) := q_generate s in (s', [match r with Some p => OGraph p | None => ONone end])
  | QNext => let '(s', r) := q_generate s in (s', [match r with Some p => OGraph p | None => OStop end])
  end.

Fixpoint q_run (s : qstate) (ops : list qop) : list qout :=
  match ops with
  | [] => []
  | o :: r => let '(s', out) := q_step s o in out ++ q_run s' r
  end.

(* NetworkGenerator(params, limit): params None -> a fresh empty dict *)
Definition q_init (ctor : bool) (caller : list Z) (limit : option nat) : qstate :=
  {| q_caller := caller; q_own := []; q_alias := ctor; q_rem := limit |}.

(* FixedNetwork._generate ignores the parameters and copies the prototype *)
Definition fixed_outputs (proto : list Z * list edge) (limit : option nat) (ops : list qop) : list (option (list Z * list edge)) :=
  map (fun o => match o with OGraph _ => Some proto | _ => None end) (q_run (q_init false [] limit) ops).

(* ================================================================ shared graph pieces *)
Definition vnode := (Z * Z * bool)%type.         (* label, origin, core-link *)
Definition v_label (v : vnode) : Z := fst (fst v).
Definition v_origin (v : vnode) : Z := snd (fst v).
Definition v_flag (v : vnode) : bool := snd v.
Record graph := { g_nodes : list vnode; g_edges : list edge }.

Definition zseq (a : Z) (n : nat) : list Z := map (fun i => (a + Z.of_nat i)%Z) (seq 0 n).

(* max(components, key=len): the first of the longest *)
Definition first_longest (cs : list (list Z)) : list Z :=
  match cs with
  | [] => []
  | c :: r => fold_left (fun best c' => if length best <? length c' then c' else best) r c
  end.

Fixpoint index_of (v : Z) (l : list Z) : nat :=
  match l with [] => 0 | x :: r => if (x =? v)%Z then 0 else S (index_of v r) end.

(* g.subgraph(comp).copy() then convert_node_labels_to_integers(first_label=off): the nodes of comp
   renumbered off, off+1, ... in the order in which the copy lists them, the edges with both ends kept.
   That order is networkx's business (for a component smaller than half the graph it is the iteration order
   of the Python set), so it is an oracle value [kept]: the node order of the restricted copy as recorded by
   the harness; tie B checks that it is a rearrangement of [keep nodes comp]. *)
Definition keep (nodes : list Z) (comp : list Z) : list Z := filter (fun v => zmem v comp) nodes.
Definition induced (es : list edge) (kept : list Z) : list edge :=
  filter (fun e => zmem (fst e) kept && zmem (snd e) kept) es.
Definition relabel (kept : list Z) (off : Z) (v : Z) : Z := (off + Z.of_nat (index_of v kept))%Z.
Definition relabel_edges (kept : list Z) (off : Z) (es : list edge) : list edge :=
  map (fun e => (relabel kept off (fst e), relabel kept off (snd e))) (induced es kept).

(* ================================================================ core-periphery (coreperiphery_generator.py:92-131) *)
Definition shift (k : Z) (e : edge) : edge := ((fst e + k)%Z, (snd e + k)%Z).

(* for n in core: for m in periphery: if rng.random() <= phi_per: add_edge(n, m) *)
Definition cp_pairs (core per : list Z) : list edge := list_prod core per.
Definition cp_cross (core per : list Z) (phi : Q) (rs : list Q) : list edge :=
  map fst (filter (fun p => Qle_bool (snd p) phi) (combine (cp_pairs core per) rs)).

Definition cp_origin (Nc : nat) (v : Z) : Z := if (v <? Z.of_nat Nc)%Z then 0%Z else 1%Z.

Record cp_input := {
  cp_Nc : nat; cp_Np : nat;
  cp_core : list edge;          (* fast_gnp_random_graph(N_core, phi_core) *)
  cp_per : list edge;           (* fast_gnp_random_graph(N_per, phi_per), still labelled 0..N_per-1 *)
  cp_phi : Q;                   (* phi_per *)
  cp_rs : list Q;               (* rng.random() values, in order *)
  cp_comps : list (list Z);     (* connected_components(g) *)
  cp_order : list Z             (* node order of g.subgraph(max(...)).copy() *)
}.

(* the composed network before the restriction *)
Definition cp_all_nodes (i : cp_input) : list Z := zseq 0 (cp_Nc i + cp_Np i).
Definition cp_all_edges (i : cp_input) : list edge :=
  let core := zseq 0 (cp_Nc i) in
  let per := zseq (Z.of_nat (cp_Nc i)) (cp_Np i) in
  fold_left (fun g e => add_edge g (fst e) (snd e)) (cp_cross core per (cp_phi i) (cp_rs i))
            (cp_core i ++ map (shift (Z.of_nat (cp_Nc i))) (cp_per i)).

Definition cp_component (i : cp_input) : list Z := keep (cp_all_nodes i) (first_longest (cp_comps i)).
Definition cp_kept (i : cp_input) : list Z := cp_order i.

Definition cp_generate (i : cp_input) : graph :=
  let kept := cp_kept i in
  {| g_nodes := map (fun v => (relabel kept 0 v, cp_origin (cp_Nc i) v, false)) kept;
     g_edges := relabel_edges kept 0 (cp_all_edges i) |}.

(* the extractor functions coreSubNetwork / peripherySubNetwork (their node sets) *)
Definition nodes_of_origin (g : graph) (o : Z) : list Z :=
  map v_label (filter (fun v => (v_origin v =? o)%Z) (g_nodes g)).

(* ================================================================ modular (modular_generator.py:97-146) *)
(* one fast_gnp graph, its components, the node order of the restricted copy *)
Record module_in := { m_edges : list edge; m_comps : list (list Z); m_order : list Z }.

Record mod_input := {
  md_Nc : nat; md_Ns : nat;
  md_centre : module_in;
  md_sats : list module_in;
  md_choices : list (nat * nat)       (* per satellite: index chosen in ns_centre, index chosen in ns_sat *)
}.

(* largest component of one module, renumbered from off: its labels and edges *)
Definition module_component (N : nat) (m : module_in) : list Z := keep (zseq 0 N) (first_longest (m_comps m)).
Definition module_kept (N : nat) (m : module_in) : list Z := m_order m.
Definition module_nodes (N : nat) (m : module_in) (off : Z) : list Z := zseq off (length (module_kept N m)).
Definition module_edges (N : nat) (m : module_in) (off : Z) : list edge := relabel_edges (module_kept N m) off (m_edges m).

Definition sat_offset (Nc Ns : nat) (i : nat) : Z := (Z.of_nat Nc + Z.of_nat i * Z.of_nat Ns)%Z.

(* the satellites in order, k = index of the first one (the `for i in range(satellites)` loops) *)
Fixpoint sat_nodes_from (Nc Ns k : nat) (sats : list module_in) : list (Z * Z) :=
  match sats with
  | [] => []
  | m :: r => map (fun v => (v, Z.of_nat (S k))) (module_nodes Ns m (sat_offset Nc Ns k)) ++ sat_nodes_from Nc Ns (S k) r
  end.

Fixpoint sat_edges_from (Nc Ns k : nat) (sats : list module_in) : list edge :=
  match sats with
  | [] => []
  | m :: r => module_edges Ns m (sat_offset Nc Ns k) ++ sat_edges_from Nc Ns (S k) r
  end.

(* m = rng.choice(ns_centre); n = rng.choice(ns_sat); the edge (n, m) *)
Fixpoint links_from (ns_centre : list Z) (Nc Ns k : nat) (sats : list module_in) (choices : list (nat * nat)) : list edge :=
  match sats, choices with
  | m :: r, (ci, si) :: cs =>
      (nth si (module_nodes Ns m (sat_offset Nc Ns k)) 0%Z, nth ci ns_centre 0%Z) :: links_from ns_centre Nc Ns (S k) r cs
  | _, _ => []
  end.

Definition mod_centre_nodes (i : mod_input) : list Z := module_nodes (md_Nc i) (md_centre i) 0.

Definition mod_links (i : mod_input) : list edge :=
  links_from (mod_centre_nodes i) (md_Nc i) (md_Ns i) 0 (md_sats i) (md_choices i).

Definition mod_base_nodes (i : mod_input) : list (Z * Z) :=
  map (fun v => (v, 0%Z)) (mod_centre_nodes i) ++ sat_nodes_from (md_Nc i) (md_Ns i) 0 (md_sats i).

Definition mod_base_edges (i : mod_input) : list edge :=
  module_edges (md_Nc i) (md_centre i) 0 ++ sat_edges_from (md_Nc i) (md_Ns i) 0 (md_sats i).

Definition is_endpoint (v : Z) (ls : list edge) : bool := existsb (fun e => (fst e =? v)%Z || (snd e =? v)%Z) ls.

Definition mod_generate (i : mod_input) : graph :=
  let links := mod_links i in
  {| g_nodes := map (fun p => (fst p, snd p, is_endpoint (fst p) links)) (mod_base_nodes i);
     g_edges := fold_left (fun g e => add_edge g (fst e) (snd e)) links (mod_base_edges i) |}.

(* ================================================================ PLC degree sequence (plc_generator.py:78-123) *)
Inductive pev := PK (k : nat) (r : Q) | PIdx (i : nat).     (* integers(1, maxdeg) with the random() that follows; integers(0, len(ns)-1) *)

(* while True: k = integers(1, maxdeg); if random() < p(k): break *)
Fixpoint plc_draw (p : nat -> Q) (evs : list pev) : option (nat * list pev) :=
  match evs with
  | PK k r :: rest => if Qle_bool (p k) r then plc_draw p rest else Some (k, rest)
  | _ => None
  end.

Fixpoint plc_fill (p : nat -> Q) (n : nat) (ns : list nat) (evs : list pev) : option (list nat * list pev) :=
  match n with
  | 0 => Some (ns, evs)
  | S n' => match plc_draw p evs with
            | Some (k, rest) => plc_fill p n' (ns ++ [k]) rest
            | None => None
            end
  end.

Fixpoint remove_nth {A} (i : nat) (l : list A) : list A :=
  match l, i with
  | [], _ => []
  | _ :: r, 0 => r
  | x :: r, S i' => x :: remove_nth i' r
  end.

Definition total (ns : list nat) : nat := fold_right Nat.add 0 ns.

(* while t % 2 != 0: drop ns[i], draw a replacement *)
Fixpoint plc_repair (fuel : nat) (p : nat -> Q) (ns : list nat) (evs : list pev) : option (list nat * list pev) :=
  if Nat.even (total ns) then Some (ns, evs) else
  match fuel with
  | 0 => None
  | S f => match evs with
           | PIdx i :: rest =>
               if i <? length ns - 1 then
                 match plc_draw p rest with
                 | Some (k, rest') => plc_repair f p (remove_nth i ns ++ [k]) rest'
                 | None => None
                 end
               else None
           | _ => None
           end
  end.

Definition plc_degrees (p : nat -> Q) (N : nat) (evs : list pev) : option (list nat * list pev) :=
  match plc_fill p N [] evs with
  | Some (ns, rest) => plc_repair (length rest) p ns rest
  | None => None
  end.

(* p as a table p(1), p(2), ... *)
Definition ptab (t : list Q) (k : nat) : Q := nth (k - 1) t 0%Q.
