(* Model of epydemic/percolate.py: Percolate.percolate / unoccupy / build.
   Executable definitions only. *)
From Coq Require Import List ZArith QArith Qround Bool Arith.
From EpyV Require Import Lib.Prelude.
Import ListNotations.

Definition edge := (Z * Z)%type.

(* networkx Graph: undirected, (a,b) and (b,a) name the same edge *)
Definition same_edge (e f : edge) : bool :=
  zpair_eqb e f || zpair_eqb e (snd f, fst f).

(* numpy.random.shuffle as an oracle: the list is rearranged by an index permutation *)
Definition apply_perm {A} (d : A) (l : list A) (perm : list nat) : list A :=
  map (fun i => nth i l d) perm.

(* occ = int(len(es) * T), in exact arithmetic: floor (M * T) *)
Definition occ_of (M : nat) (T : Q) : nat := Z.to_nat (Qfloor (inject_Z (Z.of_nat M) * T)).

(* es[:occ], es[occ:] *)
Definition split_at {A} (occ : nat) (es : list A) : list A * list A := (firstn occ es, skipn occ es).

(* g.copy(); g.remove_edges_from(unoccupied) : nodes unchanged, edges filtered *)
Definition remove_edges (es : list edge) (un : list edge) : list edge :=
  filter (fun e => negb (existsb (same_edge e) un)) es.

Record outcome := { occupied : list edge; unoccupied : list edge; nodes_after : list Z; edges_after : list edge }.

Definition percolate (nodes : list Z) (es : list edge) (perm : list nat) (T : Q) : outcome :=
  let shuffled := apply_perm (0, 0)%Z es perm in
  let '(o, u) := split_at (occ_of (length es) T) shuffled in
  {| occupied := o; unoccupied := u; nodes_after := nodes; edges_after := remove_edges es u |}.
