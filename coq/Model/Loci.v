(* Executable model of the compartment-tracking loci of epydemic (C01).  NO proofs here.

   Transcribed from /repo/epydemic/compartmentedmodel.py (CompartmentedNodeLocus,
   CompartmentedEdgeLocus, CompartmentedModel.addLocus/_handlerCompartments/_call*Handlers,
   setCompartment/changeCompartment/addNode/removeNode/addEdge/removeEdge), loci.py
   (Locus.*Handler), opinion_model.py (MultiCompartmentedEdgeLocus), process.py
   (Process.addNode/removeNode/addEdge/removeEdge) *with the repairs F9 and F10 applied*:
     F9  removeNode first calls the remove handlers for the incident edges of the node;
     F10 leaveHandler/removeHandler of an edge locus discard both orientations of a matching edge.
   What is NOT repaired (known finding): the orientation in which an edge that qualifies both
   ways round is stored depends on the history (see Properties/C01.v, C01_strong_refuted).

   Conventions.  Nodes and compartments are integer codes.  A DrawSet is modelled by a
   duplicate-free list (justified by C09); only membership is ever compared with the code.
   networkx.Graph is modelled by a node list and a list of undirected edges (as first added).
   The node attribute COMPARTMENT has three states: no attribute at all ([None]: getCompartment
   raises KeyError; also used for nodes that are not in the network), Python None
   ([Some None], after setUp and before initialCompartments) and a compartment ([Some (Some c)]). *)
From Coq Require Import List ZArith Bool Arith.
Import ListNotations.

Inductive elem := N (n : Z) | E (n m : Z).

Definition elem_eqb (x y : elem) : bool :=
  match x, y with
  | N a, N b => Z.eqb a b
  | E a b, E c d => Z.eqb a c && Z.eqb b d
  | _, _ => false
  end.

Inductive spec :=
| NodeLocus (c : Z)                          (* CompartmentedNodeLocus(name, c) *)
| EdgeLocus (l r : Z)                        (* CompartmentedEdgeLocus(name, l, r) *)
| MultiEdgeLocus (l : Z) (rs : list Z).      (* MultiCompartmentedEdgeLocus(name, l, rs) *)

Definition zmem (c : Z) (l : list Z) : bool := existsb (Z.eqb c) l.

Fixpoint znodup (l : list Z) : list Z :=
  match l with
  | [] => []
  | x :: t => if zmem x t then znodup t else x :: znodup t
  end.

(* locus.compartments().  For the multi locus the code returns
   list(self._rights.union(set(self._left))): set() of the *string* self._left is the set of its
   characters, so (for compartment names of more than one character, which is what every
   shipped model uses and what the harness checks) the left compartment itself is registered
   only if it is also one of the right compartments; the stray one-character keys can never be
   the compartment of a node.  The order of a Python set is irrelevant here because each
   compartment receives at most one registration from the locus. *)
Definition compartments_of (sp : spec) : list Z :=
  match sp with
  | NodeLocus c => [c]
  | EdgeLocus l r => [l; r]
  | MultiEdgeLocus l rs => znodup rs
  end.

(* CompartmentedModel._effects[c] after all addLocus calls: the loci (by index) whose handlers are
   registered under c, in registration order; one entry per occurrence of c in compartments() *)
Fixpoint effects_from (i : nat) (tbl : list spec) (c : Z) : list nat :=
  match tbl with
  | [] => []
  | sp :: t => map (fun _ => i) (filter (Z.eqb c) (compartments_of sp)) ++ effects_from (S i) t c
  end.
Definition effects (tbl : list spec) (c : Z) : list nat := effects_from 0 tbl c.

(* ---------- DrawSet as a duplicate-free list ---------- *)
Definition lmem (x : elem) (l : list elem) : bool := existsb (elem_eqb x) l.
Definition ladd (x : elem) (l : list elem) : list elem := if lmem x l then l else l ++ [x].
Definition ldiscard (x : elem) (l : list elem) : list elem := filter (fun y => negb (elem_eqb x y)) l.

(* ---------- state ---------- *)
Record state := mkState {
  st_nodes : list Z;
  st_edges : list (Z * Z);
  st_attr : Z -> option (option Z);
  st_loci : list (list elem)          (* contents, parallel to the table of specs *)
}.

Definition has_node (s : state) (n : Z) : bool := zmem n (st_nodes s).
(* getCompartment(n) raises KeyError: node absent or attribute missing *)
Definition getc_raises (s : state) (n : Z) : bool :=
  negb (has_node s n) || match st_attr s n with None => true | Some _ => false end.
(* value of getCompartment(n) where it does not raise (Python None = [None]) *)
Definition getc (s : state) (n : Z) : option Z :=
  match st_attr s n with Some (Some c) => Some c | _ => None end.

Definition same_edge (a b : Z) (e : Z * Z) : bool :=
  (Z.eqb (fst e) a && Z.eqb (snd e) b) || (Z.eqb (fst e) b && Z.eqb (snd e) a).
Definition adjb (es : list (Z * Z)) (a b : Z) : bool := existsb (same_edge a b) es.
(* g.edges(n): every incident edge once, n first *)
Definition incident (es : list (Z * Z)) (n : Z) : list (Z * Z) :=
  flat_map (fun e => if Z.eqb (fst e) n then [(n, snd e)]
                     else if Z.eqb (snd e) n then [(n, fst e)] else []) es.
Definition touches (n : Z) (e : Z * Z) : bool := Z.eqb (fst e) n || Z.eqb (snd e) n.

Definition with_attr (s : state) (n : Z) (a : option (option Z)) : state :=
  mkState (st_nodes s) (st_edges s) (fun v => if Z.eqb v n then a else st_attr s v) (st_loci s).
Definition with_loci (s : state) (L : list (list elem)) : state :=
  mkState (st_nodes s) (st_edges s) (st_attr s) L.

(* ---------- matches ---------- *)
Inductive mres := Fwd | Bwd | NoMatch.      (* 1, -1, 0 *)
Definition ceq (a : option Z) (c : Z) : bool := match a with Some x => Z.eqb x c | None => false end.
Definition cin (a : option Z) (rs : list Z) : bool := match a with Some x => zmem x rs | None => false end.

Definition matches (sp : spec) (cn cm : option Z) : mres :=
  match sp with
  | NodeLocus _ => NoMatch                         (* node loci have no matches() *)
  | EdgeLocus l r =>                               (* -1 is tested first *)
      if ceq cn r && ceq cm l then Bwd
      else if ceq cn l && ceq cm r then Fwd else NoMatch
  | MultiEdgeLocus l rs =>                         (* +1 is tested first *)
      if ceq cn l && cin cm rs then Fwd
      else if cin cn rs && ceq cm l then Bwd else NoMatch
  end.

Definition is_match (r : mres) : bool := match r with NoMatch => false | _ => true end.

(* ---------- the four handlers of a locus, as functions on its contents ---------- *)
Definition add_handler (sp : spec) (s : state) (e : elem) (l : list elem) : list elem :=
  match sp with
  | NodeLocus _ => match e with N n => ladd (N n) l | E _ _ => l end     (* not isinstance(n, tuple) *)
  | _ => match e with
         | E n m => match matches sp (getc s n) (getc s m) with
                    | Bwd => ladd (E m n) l
                    | Fwd => ladd (E n m) l
                    | NoMatch => l
                    end
         | N _ => l                                                      (* isinstance(e, tuple) fails *)
         end
  end.

(* F10 repair: both orientations are discarded *)
Definition remove_handler (sp : spec) (s : state) (e : elem) (l : list elem) : list elem :=
  match sp with
  | NodeLocus _ => match e with N n => ldiscard (N n) l | E _ _ => l end
  | _ => match e with
         | E n m => if is_match (matches sp (getc s n) (getc s m))
                    then ldiscard (E m n) (ldiscard (E n m) l) else l
         | N _ => l
         end
  end.

(* leave/enter handlers of edge loci are only ever called with a node by the six operations *)
Definition leave_handler (sp : spec) (s : state) (e : elem) (l : list elem) : list elem :=
  match sp with
  | NodeLocus _ => match e with N n => ldiscard (N n) l | E _ _ => l end
  | _ => match e with
         | N n => fold_left (fun l e => if is_match (matches sp (getc s (fst e)) (getc s (snd e)))
                                        then ldiscard (E (snd e) (fst e)) (ldiscard (E (fst e) (snd e)) l)
                                        else l)
                            (incident (st_edges s) n) l
         | E _ _ => l
         end
  end.

Definition enter_handler (sp : spec) (s : state) (e : elem) (l : list elem) : list elem :=
  match sp with
  | NodeLocus _ => match e with N n => ladd (N n) l | E _ _ => l end
  | _ => match e with
         | N n => fold_left (fun l e => match matches sp (getc s (fst e)) (getc s (snd e)) with
                                        | Bwd => ladd (E (snd e) (fst e)) l
                                        | Fwd => ladd (E (fst e) (snd e)) l
                                        | NoMatch => l
                                        end)
                            (incident (st_edges s) n) l
         | E _ _ => l
         end
  end.

(* ---------- dispatch ---------- *)
Fixpoint upd_nth {A} (i : nat) (f : A -> A) (l : list A) : list A :=
  match l with
  | [] => []
  | x :: t => match i with O => f x :: t | S j => x :: upd_nth j f t end
  end.

Definition default_spec : spec := NodeLocus 0.

(* for c in cs: if c in self._effects.keys(): for (..h..) in self._effects[c]: h(g, e)
   (Python None is never a key) *)
Definition run_handlers (tbl : list spec) (h : spec -> list elem -> list elem)
           (cs : list (option Z)) (L : list (list elem)) : list (list elem) :=
  fold_left (fun L c => match c with
                        | None => L
                        | Some c => fold_left (fun L i => upd_nth i (h (nth i tbl default_spec)) L) (effects tbl c) L
                        end) cs L.

(* _handlerCompartments(e) on the CURRENT compartments *)
Definition handler_compartments (s : state) (e : elem) : list (option Z) :=
  match e with
  | E n m => [getc s n; getc s m]
  | N n => [getc s n]
  end.

Definition call (tbl : list spec) (h : spec -> state -> elem -> list elem -> list elem) (s : state) (e : elem) : state :=
  with_loci s (run_handlers tbl (fun sp => h sp s e) (handler_compartments s e) (st_loci s)).

Definition call_add tbl := call tbl add_handler.
Definition call_leave tbl := call tbl leave_handler.
Definition call_enter tbl := call tbl enter_handler.
Definition call_remove tbl := call tbl remove_handler.

(* ---------- the six operations ---------- *)
Inductive outcome :=
| Done
| Raised      (* the call raised an exception; the state returned is the state it left behind *)
| Outside.    (* outside the model (see add_edge); the harness never generates such a call *)

Definition set_compartment (tbl : list spec) (s : state) (n c : Z) : state * outcome :=
  if negb (has_node s n) then (s, Raised)                          (* g.nodes[n] : KeyError *)
  else
    let s1 := with_attr s n (Some (Some c)) in                     (* g.nodes[n][COMPARTMENT] = c *)
    (call_enter tbl s1 (N n), Done).                               (* self._callEnterHandlers(n, c) *)

Definition change_compartment (tbl : list spec) (s : state) (n c : Z) : state * outcome :=
  if getc_raises s n then (s, Raised)                              (* oc = g.nodes[n][COMPARTMENT] : KeyError *)
  else
    let s1 := match getc s n with
              | Some _ => call_leave tbl s (N n)                   (* if oc is not None: _callLeaveHandlers(n, oc) *)
              | None => s
              end in
    let s2 := with_attr s1 n (Some (Some c)) in
    (call_enter tbl s2 (N n), Done).

Definition add_node (tbl : list spec) (s : state) (n : Z) (c : option Z) : state * outcome :=
  (* networkx add_node: an existing node keeps its attributes *)
  let s1 := if has_node s n then s
            else mkState (st_nodes s ++ [n]) (st_edges s) (st_attr s) (st_loci s) in
  match c with
  | Some c => set_compartment tbl s1 n c
  | None => (s1, Done)
  end.

Definition remove_node (tbl : list spec) (s : state) (n : Z) : state * outcome :=
  if getc_raises s n then (s, Raised)
  else
    (* F9 repair: for (_, m) in list(g.edges(n)): self._callRemoveHandlers((n, m)) *)
    let s1 := fold_left (fun s e => call_remove tbl s (E (fst e) (snd e))) (incident (st_edges s) n) s in
    let s2 := call_remove tbl s1 (N n) in
    (* g.remove_node(n): the node, its attributes and its incident edges go *)
    (mkState (filter (fun v => negb (Z.eqb v n)) (st_nodes s2))
             (filter (fun e => negb (touches n e)) (st_edges s2))
             (fun v => if Z.eqb v n then None else st_attr s2 v)
             (st_loci s2), Done).

Definition add_edge (tbl : list spec) (s : state) (n m : Z) : state * outcome :=
  if negb (has_node s n) || negb (has_node s m) then (s, Raised)   (* Process.addEdge: 'No node in network' *)
  else if getc_raises s n || getc_raises s m then (s, Outside)     (* the edge is added and then KeyError: an edge with an
                                                                      attribute-less endpoint is outside the model *)
  else
    (* networkx add_edge: an existing edge stays as it is *)
    let es := if adjb (st_edges s) n m then st_edges s else st_edges s ++ [(n, m)] in
    let s1 := mkState (st_nodes s) es (st_attr s) (st_loci s) in
    (call_add tbl s1 (E n m), Done).

Definition remove_edge (tbl : list spec) (s : state) (n m : Z) : state * outcome :=
  if getc_raises s n || getc_raises s m then (s, Raised)           (* _handlerCompartments: KeyError *)
  else
    let s1 := call_remove tbl s (E n m) in
    if adjb (st_edges s1) n m
    then (mkState (st_nodes s1) (filter (fun e => negb (same_edge n m e)) (st_edges s1)) (st_attr s1) (st_loci s1), Done)
    else (s1, Raised).                                             (* networkx remove_edge: NetworkXError *)

Inductive op :=
| SetC (n c : Z) | ChangeC (n c : Z) | AddNode (n : Z) (c : option Z)
| RemoveNode (n : Z) | AddEdge (n m : Z) | RemoveEdge (n m : Z).

Definition step_out (tbl : list spec) (s : state) (o : op) : state * outcome :=
  match o with
  | SetC n c => set_compartment tbl s n c
  | ChangeC n c => change_compartment tbl s n c
  | AddNode n c => add_node tbl s n c
  | RemoveNode n => remove_node tbl s n
  | AddEdge n m => add_edge tbl s n m
  | RemoveEdge n m => remove_edge tbl s n m
  end.
Definition step (tbl : list spec) (s : state) (o : op) : state := fst (step_out tbl s o).

(* CompartmentedModel.setUp: every node gets COMPARTMENT = None, the loci are empty (fresh build),
   then initialCompartments() calls changeCompartment(n, c) for the nodes in order *)
Definition state0 (tbl : list spec) (nodes : list Z) (edges : list (Z * Z)) : state :=
  mkState nodes edges (fun v => if zmem v nodes then Some None else None) (map (fun _ => []) tbl).
Definition init_ops (init : list (Z * Z)) : list op := map (fun nc => ChangeC (fst nc) (snd nc)) init.
Definition setup (tbl : list spec) (nodes : list Z) (edges : list (Z * Z)) (init : list (Z * Z)) : state :=
  fold_left (step tbl) (init_ops init) (state0 tbl nodes edges).

(* states after each call of a history, with the outcome of the call *)
Fixpoint trace (tbl : list spec) (s : state) (ops : list op) : list (state * outcome) :=
  match ops with
  | [] => []
  | o :: r => let so := step_out tbl s o in so :: trace tbl (fst so) r
  end.

(* ---------- what the property talks about ---------- *)
(* (a, b) qualifies for an edge locus: a in the left compartment, b in (one of) the right one(s) *)
Definition qual (sp : spec) (s : state) (a b : Z) : bool :=
  match sp with
  | NodeLocus _ => false
  | EdgeLocus l r => ceq (getc s a) l && ceq (getc s b) r
  | MultiEdgeLocus l rs => ceq (getc s a) l && cin (getc s b) rs
  end.

Fixpoint enodup (l : list elem) : list elem :=
  match l with
  | [] => []
  | x :: t => if lmem x t then enodup t else x :: enodup t
  end.

(* the set the property names, as a duplicate-free list, computed from the network state alone *)
Definition truth (sp : spec) (s : state) : list elem :=
  match sp with
  | NodeLocus c => enodup (map N (filter (fun v => ceq (getc s v) c) (st_nodes s)))
  | _ => enodup (flat_map (fun e => (if qual sp s (fst e) (snd e) then [E (fst e) (snd e)] else [])
                                 ++ (if qual sp s (snd e) (fst e) then [E (snd e) (fst e)] else []))
                          (st_edges s))
  end.

(* well-formed tables: the left compartment of a multi locus is one of its right compartments
   (otherwise the locus is not registered under its left compartment, see compartments_of) *)
Definition wf_spec (sp : spec) : bool :=
  match sp with MultiEdgeLocus l rs => zmem l rs | _ => true end.
Definition wf_loci (tbl : list spec) : bool := forallb wf_spec tbl.

(* no pair of compartments can match in both orientations *)
Definition single_spec (sp : spec) : bool :=
  match sp with
  | NodeLocus _ => true
  | EdgeLocus l r => negb (Z.eqb l r)
  | MultiEdgeLocus l rs => negb (zmem l rs)
  end.
Definition single_orientation (tbl : list spec) : bool := forallb single_spec tbl.

(* only what the real code also requires of a call *)
Definition preb (s : state) (o : op) : bool :=
  match o with
  | SetC n c => has_node s n && match getc s n with None => true | Some _ => false end
                (* "assumes that the node doesn't already have a compartment set" *)
  | ChangeC n c => negb (getc_raises s n)
  | AddNode n c => negb (has_node s n)
  | RemoveNode n => negb (getc_raises s n)
  | AddEdge n m => negb (getc_raises s n) && negb (getc_raises s m)
  | RemoveEdge n m => adjb (st_edges s) n m
  end.

Fixpoint validb (tbl : list spec) (s : state) (ops : list op) : bool :=
  match ops with
  | [] => true
  | o :: r => preb s o && validb tbl (step tbl s o) r
  end.

(* the network part of two states is the same *)
Definition same_networkb (s s' : state) : bool :=
  forallb (fun v => zmem v (st_nodes s')) (st_nodes s) && forallb (fun v => zmem v (st_nodes s)) (st_nodes s')
  && forallb (fun e => adjb (st_edges s') (fst e) (snd e)) (st_edges s)
  && forallb (fun e => adjb (st_edges s) (fst e) (snd e)) (st_edges s')
  && forallb (fun v => match getc s v, getc s' v with
                       | Some a, Some b => Z.eqb a b | None, None => true | _, _ => false end) (st_nodes s).

Definition graph_okb (nodes : list Z) (edges : list (Z * Z)) : bool :=
  forallb (fun e => zmem (fst e) nodes && zmem (snd e) nodes) edges.

(* Process.perElementEventRateDistribution: rate = pr * len(locus) *)
From Coq Require Import QArith.
Definition rate (p : Q) (l : list elem) : Q := Qmult p (inject_Z (Z.of_nat (length l))).
