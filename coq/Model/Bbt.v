(* Model of epydemic/bbt.py (TreeNode) and epydemic/drawset.py (DrawSet), with the STORED height and
   sub-tree sizes as fields.  Executable definitions only, no proofs.

   Elements are [Z].  Int pairs (edges; Python tuples compare lexicographically) are handled by the
   order isomorphism (a, b) |-> a * K + b with 0 <= b < K (harness/c09.py encodes, Proofs/BbtSet.v
   [pair_code_lt] proves that the encoding preserves and reflects the order); the code only ever
   applies [==] and [<] to elements. *)
From Coq Require Import ZArith QArith List Bool Arith.
Import ListNotations.
Local Open Scope Z_scope.

Inductive tree := Leaf | Node (l : tree) (d : Z) (h ls rs : nat) (r : tree).

Definition sh (t : tree) : nat := match t with Leaf => 0%nat | Node _ _ h _ _ _ => S h end.
Definition slen (t : tree) : nat := match t with Leaf => 0%nat | Node _ _ _ ls rs _ => (ls + 1 + rs)%nat end.
Definition mk (l : tree) (d : Z) (r : tree) : tree := Node l d (Nat.max (sh l) (sh r)) (slen l) (slen r) r.
Definition upd (t : tree) : tree := match t with Leaf => Leaf | Node l d _ _ _ r => mk l d r end.
Definition unbal (t : tree) : bool :=
  match t with Leaf => false | Node l _ _ _ _ r => (1 <? (Nat.max (sh l) (sh r) - Nat.min (sh l) (sh r)))%nat end.
Definition taller_left (t : tree) : bool :=
  match t with Leaf => false | Node l _ _ _ _ r => (sh r <? sh l)%nat end.

(* rotate about z = Node zl zd _ _ _ zr; [fx] repairs a freshly built sub-tree
   (the nested z._rotate() / y._rotate()); [z] is returned unchanged in the shapes
   in which the Python would dereference None *)
Definition rot_node (fx : tree -> tree) (z zl : tree) (zd : Z) (zr : tree) : tree :=
  if (sh zr <? sh zl)%nat then
    match zl with
    | Leaf => z
    | Node yl yd _ _ _ yr =>
      if (sh yr <? sh yl)%nat then
        mk yl yd (fx (mk yr zd zr))                       (* c-b-a, root = y *)
      else
        match yr with
        | Leaf => z
        | Node xl xd _ _ _ xr =>
          mk (fx (mk yl yd xl)) xd (fx (mk xr zd zr))      (* c-a-b, root = x *)
        end
    end
  else
    match zr with
    | Leaf => z
    | Node yl yd _ _ _ yr =>
      if (sh yr <? sh yl)%nat then
        match yl with
        | Leaf => z
        | Node xl xd _ _ _ xr =>
          mk (fx (mk zl zd xl)) xd (fx (mk xr yd yr))      (* a-c-b, root = x *)
        end
      else
        mk (fx (mk zl zd yl)) yd yr                        (* a-b-c, root = y *)
    end.
Definition rot_body (fx : tree -> tree) (z : tree) : tree :=
  match z with Leaf => Leaf | Node zl zd _ _ _ zr => rot_node fx z zl zd zr end.
Definition fixr (f : tree -> tree) (t : tree) : tree := if unbal t then f t else t.
Fixpoint rot (fuel : nat) (z : tree) : tree :=
  match fuel with O => z | S fuel' => rot_body (fixr (rot fuel')) z end.

Definition rebal (t : tree) : tree :=
  let t' := upd t in if unbal t' then rot (S (sh t')) t' else t'.

Inductive ast := Dup | Added | Rotated.

Fixpoint add (e : Z) (t : tree) : tree * ast :=
  match t with
  | Leaf => (Node Leaf e 0 0 0 Leaf, Added)
  | Node l d h ls rs r =>
    if e =? d then (t, Dup)
    else if e <? d then
      let '(l', st) := add e l in
      match st with
      | Dup => (t, Dup)
      | Added => let t' := mk l' d r in if unbal t' then (rot (S (sh t')) t', Rotated) else (t', Added)
      | Rotated => (mk l' d r, Rotated)
      end
    else
      let '(r', st) := add e r in
      match st with
      | Dup => (t, Dup)
      | Added => let t' := mk l d r' in if unbal t' then (rot (S (sh t')) t', Rotated) else (t', Added)
      | Rotated => (mk l d r', Rotated)
      end
  end.

Fixpoint remove_max (t : tree) : option (Z * tree) :=
  match t with
  | Leaf => None
  | Node l d _ _ _ r =>
    match r with
    | Leaf => Some (d, l)
    | _ => match remove_max r with Some (m, r') => Some (m, rebal (mk l d r')) | None => None end
    end
  end.
Fixpoint remove_min (t : tree) : option (Z * tree) :=
  match t with
  | Leaf => None
  | Node l d _ _ _ r =>
    match l with
    | Leaf => Some (d, r)
    | _ => match remove_min l with Some (m, l') => Some (m, rebal (mk l' d r)) | None => None end
    end
  end.
Definition stored_h (t : tree) : nat := match t with Leaf => 0%nat | Node _ _ h _ _ _ => h end.

Fixpoint discard (e : Z) (t : tree) : tree * bool :=
  match t with
  | Leaf => (Leaf, false)
  | Node l d h ls rs r =>
    if e =? d then
      match l, r with
      | Leaf, Leaf => (Leaf, true)
      | Leaf, _ => (r, true)
      | _, Leaf => (l, true)
      | _, _ =>
        if (stored_h r <? stored_h l)%nat then
          match remove_max l with Some (m, l') => (rebal (mk l' m r), true) | None => (t, true) end
        else
          match remove_min r with Some (m, r') => (rebal (mk l m r'), true) | None => (t, true) end
      end
    else if e <? d then
      let '(l', p) := discard e l in if p then (rebal (mk l' d r), true) else (t, false)
    else
      let '(r', p) := discard e r in if p then (rebal (mk l d r'), true) else (t, false)
  end.

(* ---- read-only operations ---------------------------------------------------------- *)

(* TreeNode.find(e) is not None  (bbt.py:267-283) *)
Fixpoint find (e : Z) (t : tree) : bool :=
  match t with
  | Leaf => false
  | Node l d _ _ _ r => if e =? d then true else if e <? d then find e l else find e r
  end.
(* number of tree nodes whose data [find] compares with [e] *)
Fixpoint find_visits (e : Z) (t : tree) : nat :=
  match t with
  | Leaf => 0%nat
  | Node l d _ _ _ r => S (if e =? d then 0%nat else if e <? d then find_visits e l else find_visits e r)
  end.

(* TreeNode._inOrder (bbt.py:291-300) *)
Fixpoint inorder (t : tree) : list Z :=
  match t with Leaf => [] | Node l d _ _ _ r => inorder l ++ d :: inorder r end.

(* TreeNode.__len__ reads the STORED sizes (bbt.py:44-49) *)
Definition len (t : tree) : nat := slen t.

(* ---- draw (bbt.py:412-436) ----------------------------------------------------------
   [draw] is written once, as the tree of requests it makes to rng.integers; the oracle
   interpreter [run_ct] (co-execution) and the exact law [prob_ct] (theorems) both read this tree. *)
Inductive ctree :=
| CRet (e : Z)                              (* return self._data *)
| CRaise                                    (* method call on None: only reachable with a stale size *)
| CInt (n : nat) (k : nat -> ctree).        (* i = rng.integers(n); continue with k i *)

Fixpoint draw_ct (t : tree) : ctree :=
  match t with
  | Leaf => CRaise
  | Node l d _ ls rs r =>
    if (ls + 1 + rs =? 1)%nat then CRet d
    else CInt (ls + 1 + rs)
              (fun i => if (i <? ls)%nat then draw_ct l else if (i =? ls)%nat then CRet d else draw_ct r)
  end.

Inductive dres := Drew (e : Z) | Stuck | BadScript.

(* serve the scripted integers; also return the arguments of the rng.integers calls, in order.
   numpy's integers(n) returns a value in [0, n): anything else is a bad script, not a behaviour *)
Fixpoint run_ct (c : ctree) (ints : list nat) : dres * list nat :=
  match c with
  | CRet e => (Drew e, [])
  | CRaise => (Stuck, [])
  | CInt n k =>
    match ints with
    | [] => (BadScript, [n])
    | i :: ints' => if (i <? n)%nat then let '(r, q) := run_ct (k i) ints' in (r, n :: q) else (BadScript, [n])
    end
  end.

Fixpoint sumQ (l : list Q) : Q := match l with [] => 0%Q | x :: l' => (x + sumQ l')%Q end.

(* probability that the request tree returns [e] when every integers(n) is uniform on [0, n) and
   the calls are independent (the contract of numpy's generator) *)
Fixpoint prob_ct (c : ctree) (e : Z) : Q :=
  match c with
  | CRet x => if x =? e then 1%Q else 0%Q
  | CRaise => 0%Q
  | CInt n k => ((1 # Pos.of_nat n) * sumQ (map (fun i => prob_ct (k i) e) (seq 0 n)))%Q
  end.

(* ---- DrawSet (drawset.py): _root is None <-> Leaf ------------------------------------- *)
Inductive op :=
| A (e : Z)                 (* add *)
| D (e : Z)                 (* discard *)
| R (e : Z)                 (* remove: KeyError when absent *)
| Dr (ints : list nat)      (* draw, with the values rng.integers will return *)
| Mem (e : Z)               (* e in s *)
| Iter.                     (* list(iter(s)) *)

Inductive res :=
| RUnit | RKeyError | RValueError | RDrew (e : Z) | RStuck | RBadScript | RBool (b : bool) | RList (l : list Z).

Definition is_empty (t : tree) : bool := match t with Leaf => true | _ => false end.

(* new state, result, arguments of the rng.integers calls made *)
Definition step (t : tree) (o : op) : tree * res * list nat :=
  match o with
  | A e => (fst (add e t), RUnit, [])
  | D e => (fst (discard e t), RUnit, [])
  | R e => let '(t', present) := discard e t in if present then (t', RUnit, []) else (t, RKeyError, [])
  | Dr ints =>
    match t with
    | Leaf => (t, RValueError, [])
    | _ => let '(r, q) := run_ct (draw_ct t) ints in
           (t, match r with Drew e => RDrew e | Stuck => RStuck | BadScript => RBadScript end, q)
    end
  | Mem e => (t, RBool (find e t), [])
  | Iter => (t, RList (inorder t), [])
  end.
Definition apply (t : tree) (o : op) : tree := fst (fst (step t o)).
Definition run (ops : list op) : tree := fold_left apply ops Leaf.

(* preorder dump: (data, h, ls, rs) with a marker for leaves *)
Definition entry := option (Z * nat * nat * nat).
Fixpoint dump (t : tree) : list entry :=
  match t with Leaf => [None] | Node l d h ls rs r => Some (d, h, ls, rs) :: dump l ++ dump r end.

(* ---- the abstract set: a strictly ascending list ------------------------------------- *)
Fixpoint ins (e : Z) (l : list Z) : list Z :=
  match l with
  | [] => [e]
  | x :: l' => if e =? x then l else if e <? x then e :: l else x :: ins e l'
  end.
Fixpoint del (e : Z) (l : list Z) : list Z :=
  match l with
  | [] => []
  | x :: l' => if e =? x then l' else if e <? x then l else x :: del e l'
  end.
Definition aapply (s : list Z) (o : op) : list Z :=
  match o with A e => ins e s | D e => del e s | R e => del e s | _ => s end.
Definition aset (ops : list op) : list Z := fold_left aapply ops [].
