(* Model of epydemic/bbt.py (TreeNode add/discard/_rotate with stored height and sizes). Executable definitions only. *)
From Coq Require Import ZArith List Bool Arith Lia.
Import ListNotations.
Open Scope Z_scope.

Inductive tree := Leaf | Node (l : tree) (d : Z) (h ls rs : nat) (r : tree).

Definition sh (t : tree) : nat := match t with Leaf => 0%nat | Node _ _ h _ _ _ => S h end.
Definition slen (t : tree) : nat := match t with Leaf => 0%nat | Node _ _ _ ls rs _ => (ls + 1 + rs)%nat end.
Definition mk (l : tree) (d : Z) (r : tree) : tree := Node l d (Nat.max (sh l) (sh r)) (slen l) (slen r) r.
Definition upd (t : tree) : tree := match t with Leaf => Leaf | Node l d _ _ _ r => mk l d r end.
Definition unbal (t : tree) : bool :=
  match t with Leaf => false | Node l _ _ _ _ r => (1 <? (Nat.max (sh l) (sh r) - Nat.min (sh l) (sh r)))%nat end.
Definition taller_left (t : tree) : bool :=
  match t with Leaf => false | Node l _ _ _ _ r => (sh r <? sh l)%nat end.

(* rotate about z = Node zl zd _ _ _ zr; [fx] repairs a freshly built sub-tree
   (the nested z._rotate() / y._rotate()); [z] is returned unchanged in the shapes
   in which the Python would dereference None *)
Definition rot_node (fx : tree -> tree) (z zl : tree) (zd : Z) (zr : tree) : tree :=
  if (sh zr <? sh zl)%nat then
    match zl with
    | Leaf => z
    | Node yl yd _ _ _ yr =>
      if (sh yr <? sh yl)%nat then
        mk yl yd (fx (mk yr zd zr))                       (* c-b-a, root = y *)
      else
        match yr with
        | Leaf => z
        | Node xl xd _ _ _ xr =>
          mk (fx (mk yl yd xl)) xd (fx (mk xr zd zr))      (* c-a-b, root = x *)
        end
    end
  else
    match zr with
    | Leaf => z
    | Node yl yd _ _ _ yr =>
      if (sh yr <? sh yl)%nat then
        match yl with
        | Leaf => z
        | Node xl xd _ _ _ xr =>
          mk (fx (mk zl zd xl)) xd (fx (mk xr yd yr))      (* a-c-b, root = x *)
        end
      else
        mk (fx (mk zl zd yl)) yd yr                        (* a-b-c, root = y *)
    end.
Definition rot_body (fx : tree -> tree) (z : tree) : tree :=
  match z with Leaf => Leaf | Node zl zd _ _ _ zr => rot_node fx z zl zd zr end.
Definition fixr (f : tree -> tree) (t : tree) : tree := if unbal t then f t else t.
Fixpoint rot (fuel : nat) (z : tree) : tree :=
  match fuel with O => z | S fuel' => rot_body (fixr (rot fuel')) z end.

Definition rebal (t : tree) : tree :=
  let t' := upd t in if unbal t' then rot (S (sh t')) t' else t'.

Inductive ast := Dup | Added | Rotated.

Fixpoint add (e : Z) (t : tree) : tree * ast :=
  match t with
  | Leaf => (Node Leaf e 0 0 0 Leaf, Added)
  | Node l d h ls rs r =>
    if e =? d then (t, Dup)
    else if e <? d then
      let '(l', st) := add e l in
      match st with
      | Dup => (t, Dup)
      | Added => let t' := mk l' d r in if unbal t' then (rot (S (sh t')) t', Rotated) else (t', Added)
      | Rotated => (mk l' d r, Rotated)
      end
    else
      let '(r', st) := add e r in
      match st with
      | Dup => (t, Dup)
      | Added => let t' := mk l d r' in if unbal t' then (rot (S (sh t')) t', Rotated) else (t', Added)
      | Rotated => (mk l d r', Rotated)
      end
  end.

Fixpoint remove_max (t : tree) : option (Z * tree) :=
  match t with
  | Leaf => None
  | Node l d _ _ _ r =>
    match r with
    | Leaf => Some (d, l)
    | _ => match remove_max r with Some (m, r') => Some (m, rebal (mk l d r')) | None => None end
    end
  end.
Fixpoint remove_min (t : tree) : option (Z * tree) :=
  match t with
  | Leaf => None
  | Node l d _ _ _ r =>
    match l with
    | Leaf => Some (d, r)
    | _ => match remove_min l with Some (m, l') => Some (m, rebal (mk l' d r)) | None => None end
    end
  end.
Definition stored_h (t : tree) : nat := match t with Leaf => 0%nat | Node _ _ h _ _ _ => h end.

Fixpoint discard (e : Z) (t : tree) : tree * bool :=
  match t with
  | Leaf => (Leaf, false)
  | Node l d h ls rs r =>
    if e =? d then
      match l, r with
      | Leaf, Leaf => (Leaf, true)
      | Leaf, _ => (r, true)
      | _, Leaf => (l, true)
      | _, _ =>
        if (stored_h r <? stored_h l)%nat then
          match remove_max l with Some (m, l') => (rebal (mk l' m r), true) | None => (t, true) end
        else
          match remove_min r with Some (m, r') => (rebal (mk l m r'), true) | None => (t, true) end
      end
    else if e <? d then
      let '(l', p) := discard e l in if p then (rebal (mk l' d r), true) else (t, false)
    else
      let '(r', p) := discard e r in if p then (rebal (mk l d r'), true) else (t, false)
  end.

Inductive op := A (e : Z) | D (e : Z).
Definition apply (t : tree) (o : op) : tree :=
  match o with A e => fst (add e t) | D e => fst (discard e t) end.

(* preorder dump: (data, h, ls, rs) with a marker for leaves *)
Fixpoint dump (t : tree) : list (option (Z * nat * nat * nat)) :=
  match t with Leaf => [None] | Node l d h ls rs r => Some (d, h, ls, rs) :: dump l ++ dump r end.
Definition run (ops : list op) : list (option (Z * nat * nat * nat)) := dump (fold_left apply ops Leaf).
