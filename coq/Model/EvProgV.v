(* The event functions of SIvR (sivr_model.py) as programs: Model/EvProg.v's statements plus the one
   control structure SIvR.infect uses,
       <pre>
       if g.nodes[n][VACCINATED] and g.nodes[n][VACCINATION_TIME] + self._offset < t:
           if rng.random() > self._efficacy:
               <th>
       else:
           <el>
   regenerated from the Python source on every run by harness/evsrc.py, interpreted over the world of
   Model/CompartV.v.  Executable definitions only. *)
From Coq Require Import List ZArith QArith Bool Arith.
From EpyV Require Import Lib.Prelude Model.Kernel Model.Loci Model.Compart Model.CompartV Model.EvProg.
Import ListNotations.
Open Scope Q_scope.

Inductive vprog :=
| VPlain (p : eprog)
| VGated (pre : list stmt) (off eff : Q) (th el : list stmt).

Definition vfinish (off0 : nat) (kloci : list (list Kernel.elem)) (w : vworld) (body : list stmt) (x : ist) : vworld * list action :=
  let '(b, acts) := finish off0 kloci body x in (with_base w b, acts).

Definition vinterp (tbl : list Loci.spec) (off0 : nat) (p : vprog) : dynprog vworld :=
  fun t e kloci w =>
    match p with
    | VPlain q => let '(b', acts) := interp tbl off0 q t e kloci (vw_base w) in (with_base w b', acts)
    | VGated pre off eff th el =>
        match e with
        | EE n m =>
            let x0 := run_body tbl t (Some (n, m)) pre {| i_w := vw_base w; i_n := None; i_posts := [] |} in
            let effective := match i_n x0 with
                             | Some v => match vacc_time w v with Some tv => Qltb (tv + off) t | None => false end
                             | None => false
                             end in
            if effective then
              match vw_gate w with
              | r :: _ => if Qltb eff r
                          then vfinish off0 kloci (pop_gate w) (pre ++ th) (run_body tbl t (Some (n, m)) th x0)
                          else vfinish off0 kloci (pop_gate w) pre x0
              | [] => (w, [])                         (* scripted random source exhausted *)
              end
            else vfinish off0 kloci w (pre ++ el) (run_body tbl t (Some (n, m)) el x0)
        | EN _ => (w, [])
        end
    end.

(* the summary of Model/CompartV.v that the program implements, if it is one of them *)
Definition vsummarise (p : vprog) : option vkind :=
  match p with
  | VPlain q =>
      match summarise q with
      | Some h => Some (VBase h)
      | None =>
          match q with
          | PNode body =>
              match arun false body (a0 true) with
              | Some {| a_chg := Some c; a_occ := None; a_hit := None; a_post := None; a_lacts := [(false, iV); (false, iN)] |} =>
                  Some (VRemove c iN iV)
              | _ => None
              end
          | PEdge _ => None
          end
      end
  | VGated pre off eff th el =>
      match arun true pre (a0 false) with
      | Some {| a_bound := true; a_chg := None; a_occ := None; a_hit := None; a_post := None; a_lacts := [] |} =>
          match arun true th (a0 true), arun true el (a0 true) with
          | Some {| a_chg := Some c; a_occ := Some true; a_hit := None; a_post := None; a_lacts := [(true, iV)] |},
            Some {| a_chg := Some c'; a_occ := Some true; a_hit := None; a_post := None; a_lacts := [(true, iN)] |} =>
              if Z.eqb c c' then Some (VInfect c eff off iN iV) else None
          | _, _ => None
          end
      | _ => None
      end
  end.
